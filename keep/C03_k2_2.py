#!/usr/bin/env python3
import os
import sys
import math
import random

sys.path.insert(0, os.getcwd())

from migen import *

from litedram import modules as M
from litedram.common import PhySettings, burst_lengths
from litedram.core.controller import LiteDRAMController, ControllerSettings

# ==================================================================================================
# Shared part: datasheet requirement table, DFI bus rule checker, controller test bench
# ==================================================================================================

# What the datasheet entry of the module asks for, in DRAM clocks (tCK = controller period / nphases).
def datasheet_clocks(module, nphases, cwl):
    memtype = module.memtype
    tck = 1e9/(module.clk_freq*nphases)
    def clocks(t):
        if t is None:
            return None
        return max(t.ck, math.ceil(t.ns/tck - 1e-9))
    def entry(name):
        if name == "tRFC" and memtype == "DDR4":
            return module.get(name, module.timing_settings.fine_refresh_mode)
        return module.get(name)
    need = {n: clocks(entry(n)) for n in
        ["tRP", "tRCD", "tWR", "tWTR", "tRFC", "tFAW", "tCCD", "tRRD", "tRAS", "tZQCS"]}
    need["tRC"] = None if entry("tRAS") is None else clocks(entry("tRAS") + entry("tRP"))
    # Clocks from the write command to the end of its data burst (tWR / tWTR start there).
    need["wr_end"] = 1 if memtype == "SDR" else cwl + burst_lengths[memtype]//2
    return need


class BusRules:
    """Replays the command stream seen on the DFI bus (T = sys_cycle*nphases + phase) and checks every
    pair of commands against the datasheet minimums. Explicit precharge, auto-precharge (A10 on the CAS,
    the internal precharge starts when tRAS / write recovery allow it) and precharge-all are handled."""
    def __init__(self, need, nbanks, nphases, tag):
        self.need, self.nbanks, self.nphases, self.tag = need, nbanks, nphases, tag
        self.errors   = []
        self.is_open  = [False]*nbanks
        self.t_act    = [None]*nbanks   # last ACT per bank
        self.t_wr     = [None]*nbanks   # last WR per bank since the row was opened
        self.t_pre    = [None]*nbanks   # start of the last (explicit / internal) precharge per bank
        self.acts     = []              # last four ACT, any bank
        self.t_cas    = None
        self.t_wr_any = None
        self.t_ref    = None
        self.t_zq     = None
        self.n        = dict(ACT=0, PRE=0, PREA=0, RD=0, WR=0, RDA=0, WRA=0, REF=0, ZQCS=0)
        self.slack    = {}
        self.ref_ref_sys = None         # min REF -> REF distance in controller cycles
        self.prea_per_ref = []          # for each REF: was there a PREA since the previous REF/ZQCS?
        self._prea_seen = False

    def fail(self, T, msg):
        self.errors.append("%s: T=%d (cycle %d phase %d) %s" % (self.tag, T, T//self.nphases, T % self.nphases, msg))

    def spacing(self, T, t0, need, rule):
        if t0 is None or need is None:
            return
        s = (T - t0) - need
        if s < self.slack.get(rule, 1 << 30):
            self.slack[rule] = s
        if s < 0:
            self.fail(T, "%s: %d clocks, datasheet needs %d" % (rule, T - t0, need))

    def command(self, T, kind, bank, a10):
        need = self.need
        self.spacing(T, self.t_ref, need["tRFC"],  "tRFC")
        self.spacing(T, self.t_zq,  need["tZQCS"], "tZQCS")
        if kind == "ACT":
            self.n["ACT"] += 1
            if self.is_open[bank]:
                self.fail(T, "ACT on bank %d which is already open" % bank)
            self.spacing(T, self.t_pre[bank], need["tRP"], "tRP")
            self.spacing(T, self.t_act[bank], need["tRC"], "tRC")
            if self.acts:
                self.spacing(T, self.acts[-1], need["tRRD"], "tRRD")
            if len(self.acts) == 4:
                self.spacing(T, self.acts[0], need["tFAW"], "tFAW")
            self.acts = (self.acts + [T])[-4:]
            self.is_open[bank] = True
            self.t_act[bank]   = T
            self.t_wr[bank]    = None
        elif kind in ("RD", "WR"):
            self.n[kind + ("A" if a10 else "")] += 1
            if not self.is_open[bank]:
                self.fail(T, "%s on bank %d which is closed" % (kind, bank))
            self.spacing(T, self.t_act[bank], need["tRCD"], "tRCD")
            self.spacing(T, self.t_cas,       need["tCCD"], "tCCD")
            if kind == "RD":
                self.spacing(T, self.t_wr_any, need["wr_end"] + need["tWTR"], "tWTR")
            else:
                self.t_wr_any  = T
                self.t_wr[bank] = T
            self.t_cas = T
            if a10:
                # Auto-precharge: the device starts the precharge as soon as tRAS and the write recovery
                # are satisfied (not before the CAS itself).
                start = T
                if self.t_wr[bank] is not None:
                    start = max(start, self.t_wr[bank] + need["wr_end"] + need["tWR"])
                if need["tRAS"] is not None and self.t_act[bank] is not None:
                    start = max(start, self.t_act[bank] + need["tRAS"])
                self.t_pre[bank]   = start
                self.is_open[bank] = False
        elif kind == "PRE":
            self.n["PREA" if a10 else "PRE"] += 1
            if a10:
                self._prea_seen = True
            for b in (range(self.nbanks) if a10 else [bank]):
                if self.is_open[b]:
                    self.spacing(T, self.t_act[b], need["tRAS"], "tRAS")
                    self.spacing(T, self.t_wr[b],  need["wr_end"] + need["tWR"], "tWR")
                    self.is_open[b] = False
                    self.t_pre[b]   = T
                elif self.t_pre[b] is not None and self.t_pre[b] > T:
                    self.fail(T, "precharge of bank %d before its pending auto-precharge could start" % b)
        elif kind in ("REF", "ZQCS"):
            self.n[kind] += 1
            for b in range(self.nbanks):
                if self.is_open[b]:
                    self.fail(T, "%s while bank %d is open" % (kind, b))
                self.spacing(T, self.t_pre[b], need["tRP"], "tRP before " + kind)
            if kind == "REF":
                if self.t_ref is not None:
                    d = (T - self.t_ref)//self.nphases
                    if self.ref_ref_sys is None or d < self.ref_ref_sys:
                        self.ref_ref_sys = d
                self.prea_per_ref.append(self._prea_seen)
                self.t_ref = T
            else:
                self.t_zq = T
            self._prea_seen = False
        else:
            self.fail(T, "unexpected command %s" % kind)


# (cas_n, ras_n, we_n) -> command
COMMANDS = {
    (1, 0, 1): "ACT",
    (1, 0, 0): "PRE",
    (0, 0, 1): "REF",
    (0, 1, 1): "RD",
    (0, 1, 0): "WR",
    (1, 1, 0): "ZQCS",
    (0, 0, 0): "MRS",
}


def sim_phy_settings(memtype, nphases, cl, cwl, rdphase, wrphase):
    return PhySettings(
        phytype       = "SIM",
        memtype       = memtype,
        databits      = 16,
        dfi_databits  = 16 if memtype == "SDR" else 32,
        nphases       = nphases,
        rdphase       = rdphase,
        wrphase       = wrphase,
        cl            = cl,
        cwl           = cwl,
        read_latency  = math.ceil(cl/nphases) + 4,
        write_latency = math.ceil(cwl/nphases))


def run_controller(modname, clk_freq, rate, speedgrade, cl, cwl, rdphase, wrphase, seed, cycles,
        auto_precharge=True, buffered=False, postponing=1, trefi=None, pattern="mixed", zqcs_every=3,
        probe=None):
    """Random traffic on every bank of the real LiteDRAMController, every DFI command checked by BusRules."""
    module  = getattr(M, modname)(clk_freq, rate, speedgrade=speedgrade)
    memtype = module.memtype
    nphases = int(rate.split(":")[1])
    tag = "%s %gMHz %s sg=%s rdphase=%d wrphase=%d ap=%d buf=%d postpone=%d %s seed=%d" % (
        modname, clk_freq/1e6, rate, speedgrade, rdphase, wrphase, auto_precharge, buffered, postponing, pattern, seed)

    timing = module.timing_settings
    # tREFI is a maximum: refreshing (much) more often is always legal and gives many "row opened just
    # before the refresh request" races.
    timing.tREFI = trefi if trefi is not None else 100 + 9*(seed % 6)
    settings = ControllerSettings(
        cmd_buffer_depth    = 4,
        cmd_buffer_buffered = buffered,
        read_time           = 12,
        write_time          = 8,
        with_auto_precharge = auto_precharge,
        refresh_zqcs_freq   = clk_freq/(zqcs_every*postponing*timing.tREFI + 13),
        refresh_postponing  = postponing)
    dut = LiteDRAMController(
        phy_settings        = sim_phy_settings(memtype, nphases, cl, cwl, rdphase, wrphase),
        geom_settings       = module.geom_settings,
        timing_settings     = timing,
        clk_freq            = clk_freq,
        controller_settings = settings)

    bankbits = module.geom_settings.bankbits
    nbanks   = 2**bankbits
    rules    = BusRules(datasheet_clocks(module, nphases, cwl), nbanks, nphases, tag)
    prng     = random.Random(seed)
    ports    = [getattr(dut.interface, "bank%d" % n) for n in range(nbanks)]
    align    = int(math.log2(nphases if memtype == "SDR" else burst_lengths[memtype]))
    colsplit = module.geom_settings.colbits - align

    # One wide signal per cycle instead of many small simulator reads.
    top = Module()
    top.submodules.dut = dut
    readys = Signal(nbanks)
    top.comb += readys.eq(Cat(*[p.ready for p in ports]))
    width = 4 + bankbits + 1
    bus   = Signal(width*nphases)
    top.comb += bus.eq(Cat(*[Cat(ph.cs_n[0], ph.cas_n, ph.ras_n, ph.we_n, ph.bank[:bankbits], ph.address[10])
        for ph in dut.dfi.phases]))
    probe_sig = None
    if probe is not None:
        probe_sig = Signal(32)
        top.comb += probe_sig.eq(probe(dut))
    rules.probe_values = []

    def traffic():
        st = [dict(row=0, we=prng.randrange(2), wait=prng.randrange(16), busy=False) for _ in range(nbanks)]
        silence = 0
        for _ in range(cycles):
            if not silence and prng.random() < 0.005:
                silence = prng.randrange(8, 100)
            silence = max(0, silence - 1)
            rdy = (yield readys)
            for n, (p, s) in enumerate(zip(ports, st)):
                if s["busy"]:
                    if not (rdy >> n) & 1:
                        continue
                    s["busy"] = False
                    yield p.valid.eq(0)
                    s["wait"] = 0 if prng.random() < 0.7 else prng.randrange(1, 30)
                if s["wait"]:
                    s["wait"] -= 1
                elif not silence:
                    if pattern == "conflict":      # (nearly) every access to another row
                        s["row"] = prng.randrange(5)
                    elif pattern == "hits":        # long runs on the open row
                        s["row"] = s["row"] if prng.random() < 0.92 else prng.randrange(3)
                    else:
                        s["row"] = s["row"] if prng.random() < 0.6 else prng.randrange(3)
                    if prng.random() < (0.5 if pattern == "turnaround" else 0.2):
                        s["we"] = prng.randrange(2)
                    yield p.addr.eq((s["row"] << colsplit) | prng.randrange(2**colsplit))
                    yield p.we.eq(s["we"])
                    yield p.valid.eq(1)
                    s["busy"] = True
            yield

    @passive
    def monitor():
        cycle = 0
        while True:
            v = (yield bus)
            if probe_sig is not None:
                rules.probe_values.append((yield probe_sig))
            for ph in range(nphases):
                w = (v >> (ph*width)) & (2**width - 1)
                if w & 1:                        # cs_n
                    continue
                key = ((w >> 1) & 1, (w >> 2) & 1, (w >> 3) & 1)
                if key == (1, 1, 1):             # NOP
                    continue
                rules.command(cycle*nphases + ph, COMMANDS[key], (w >> 4) & (nbanks - 1), (w >> (4 + bankbits)) & 1)
            yield
            cycle += 1

    run_simulation(top, [traffic(), monitor()])
    return rules


def _job(cfg):
    r = run_controller(**cfg)
    return dict(tag=r.tag, errors=r.errors, n=r.n, slack=r.slack, ref_ref_sys=r.ref_ref_sys,
        prea_per_ref=r.prea_per_ref, probe_values=getattr(r, "probe_values", []))


def run_many(cfgs, min_activity=True):
    """Runs the configurations in parallel, prints one line per run; returns (number of problems, results)."""
    import multiprocessing
    with multiprocessing.Pool(int(os.environ.get("KEEP_JOBS", "6"))) as pool:
        results = pool.map(_job, cfgs, chunksize=1)
    bad   = 0
    slack = {}
    for r in results:
        for k, v in r["slack"].items():
            slack[k] = min(slack.get(k, v), v)
        print("%-86s %s %s" % (r["tag"], "FAIL" if r["errors"] else "ok  ",
            " ".join("%s=%d" % kv for kv in sorted(r["n"].items()) if kv[1])))
        for e in r["errors"][:8]:
            print("      " + e)
        bad += len(r["errors"])
        n = r["n"]
        if min_activity and (n["ACT"] < 40 or n["RD"] + n["RDA"] < 20 or n["WR"] + n["WRA"] < 20 or n["REF"] < 4):
            print("      not enough activity in this run")
            bad += 1
    print("minimum slack over all runs, in DRAM clocks, per rule:", dict(sorted(slack.items())))
    return bad, results


# Library configurations used for the end-to-end runs: (module, controller clock, rate, speedgrade, cl, cwl)
LIBRARY = [
    ("MT48LC16M16",  100e6, "1:1", None,   2, 2),
    ("IS42S32800J6", 133e6, "1:1", None,   3, 3),
    ("MT46V32M16",   100e6, "1:2", None,   3, 1),
    ("MT47H64M16",   125e6, "1:2", None,   4, 3),
    ("MT41K128M16",  100e6, "1:4", "800",  6, 5),
    ("MT41K256M16",  200e6, "1:4", "1600", 11, 8),
    ("MT41J256M16",  125e6, "1:2", "1066", 5, 5),
    ("MT41K64M16",    50e6, "1:4", "800",  5, 5),
    ("MT40A1G8",     200e6, "1:4", "2400", 11, 9),
    ("MT40A512M16",  150e6, "1:4", "2400", 9, 9),
]

# ==================================================================================================
# keep_2: RefreshSequencer / RefreshExecuter - the 2nd..Nth refresh of a postponed burst is sent without a
# new Precharge All + tRP (banks are still precharged and held idle); RefreshExecuter uses an explicit
# sequence position instead of the timeline() helper.
# ==================================================================================================
#
# Part A: the real RefreshSequencer alone, trp 1..5 x trfc 1..9 x postponing 1..8, two bursts each:
#   - postponing == 1: cmd/done trace identical, cycle by cycle, to a Python model of the ORIGINAL executer;
#   - any postponing: exactly one Precharge All, then exactly `postponing` Auto Refresh; PREA -> REF >= trp,
#     REF -> REF >= trfc, done >= trfc after the last REF, nothing else on the command lines; the burst is
#     (postponing-1)*trp cycles shorter than the original one.
# Part B: the real Refresher (with ZQCS) against an always-ready consumer: cmd.valid (which holds the bank
#   machines in REFRESH) covers the whole burst, ZQCS keeps its own Precharge All + tRP, tZQCS respected.
# Part C: the real LiteDRAMController with refresh_postponing 1/2/4/8, random traffic, every DFI command pair
#   checked against the datasheet in DRAM clocks; chained refreshes must actually be seen on the bus.

from litedram.core.multiplexer import cmd_request_rw_layout
from litedram.core.refresher import RefreshSequencer, Refresher

def original_sequencer_model(trp, trfc, postponing, starts, ncycles):
    """Python model of the unmodified RefreshSequencer + RefreshExecuter (timeline based).
    Returns per cycle (a, cas, ras, we, done) as visible in that cycle."""
    last    = trp + trfc
    counter = 0
    count   = postponing - 1
    regs    = dict(a=0, cas=0, ras=0, we=0, edone=0)
    trace   = []
    for cyc in range(ncycles):
        start  = 1 if cyc in starts else 0
        estart = start or count != 0
        sdone  = regs["edone"] and count == 0
        trace.append((regs["a"], regs["cas"], regs["ras"], regs["we"], int(sdone)))
        # next state
        nxt = dict(a=0, cas=0, ras=0, we=0, edone=0)
        if estart and counter == 0:
            nxt.update(a=2**10, cas=0, ras=1, we=1)
        if counter == trp:
            nxt.update(a=2**10, cas=1, ras=1, we=0)
        if counter == last:
            nxt.update(a=0, cas=0, ras=0, we=0, edone=1)
        if counter == last:
            ncounter = 0
        elif counter != 0:
            ncounter = counter + 1
        elif estart:
            ncounter = 1
        else:
            ncounter = 0
        if start:
            ncount = postponing - 1
        elif regs["edone"] and count != 0:
            ncount = count - 1
        else:
            ncount = count
        counter, count, regs = ncounter, ncount, nxt
    return trace

def real_sequencer_trace(trp, trfc, postponing, starts, ncycles):
    cmd = Record(cmd_request_rw_layout(a=16, ba=3))
    dut = RefreshSequencer(cmd, trp, trfc, postponing)
    trace = []
    def gen():
        for cyc in range(ncycles):
            yield dut.start.eq(1 if cyc in starts else 0)
            yield
            # values visible during cycle `cyc` were sampled before the edge; read what the registers show now
        yield
    @passive
    def mon():
        while True:
            trace.append(((yield cmd.a), (yield cmd.cas), (yield cmd.ras), (yield cmd.we), (yield dut.done)))
            yield
    run_simulation(dut, [gen(), mon()])
    return trace

def decode(t):
    a, cas, ras, we, _ = t
    if (cas, ras, we) == (0, 0, 0):
        return None
    return {(0, 1, 1): "PREA", (1, 1, 0): "REF"}.get((cas, ras, we), "???") if a == 2**10 else "???"

def part_a():
    bad = n = 0
    for trp in range(1, 6):
        for trfc in range(1, 10):
            for postponing in range(1, 9):
                burst_old = postponing*(trp + trfc + 1)
                idle      = burst_old + 5                 # lets the start-up run of postponing > 1 finish
                starts    = {idle, idle + burst_old + 7}
                ncycles   = idle + 2*burst_old + 20
                real  = real_sequencer_trace(trp, trfc, postponing, {s + 1 for s in starts}, ncycles)
                model = original_sequencer_model(trp, trfc, postponing, starts, ncycles)
                # align: the generator sets start before the edge of its cycle; find alignment by the first PREA after idle
                def events(tr, lo):
                    return [(c, decode(t)) for c, t in enumerate(tr) if c >= lo and decode(t)], \
                           [c for c, t in enumerate(tr) if c >= lo and t[4]]
                ev_r, done_r = events(real, idle)
                ev_m, done_m = events(model, idle)
                n += 1
                tag = "trp=%d trfc=%d postponing=%d" % (trp, trfc, postponing)
                if not ev_r or not ev_m:
                    print(tag, "no commands"); bad += 1; continue
                shift = ev_r[0][0] - ev_m[0][0]
                if postponing == 1:
                    if [(c - shift, k) for c, k in ev_r] != ev_m or [c - shift for c in done_r] != done_m:
                        print(tag, "trace differs from the original"); bad += 1
                    # full cycle-by-cycle comparison as well
                    for c in range(idle, ncycles - 2):
                        if 0 <= c + shift < len(real) and real[c + shift] != model[c]:
                            print(tag, "cycle %d: %s, original %s" % (c, real[c + shift], model[c])); bad += 1; break
                # structure of the two bursts
                if len(done_r) != 2 or len(done_m) != 2:
                    print(tag, "expected two bursts", done_r, done_m); bad += 1; continue
                for b in range(2):
                    lo = ev_r[0][0] if b == 0 else done_r[0] + 1
                    burst = [(c, k) for c, k in ev_r if lo <= c <= done_r[b]]
                    kinds = [k for _, k in burst]
                    if kinds != ["PREA"] + ["REF"]*postponing:
                        print(tag, "burst %d is %s" % (b, kinds)); bad += 1; continue
                    if burst[1][0] - burst[0][0] < trp:
                        print(tag, "PREA -> REF %d < tRP" % (burst[1][0] - burst[0][0])); bad += 1
                    for (c0, _), (c1, _) in zip(burst[1:], burst[2:]):
                        if c1 - c0 < trfc:
                            print(tag, "REF -> REF %d < tRFC" % (c1 - c0)); bad += 1
                        if c1 - c0 != trfc + 1:
                            print(tag, "REF -> REF %d, expected tRFC+1" % (c1 - c0)); bad += 1
                    if done_r[b] - burst[-1][0] < trfc:
                        print(tag, "done %d cycles after the last REF < tRFC" % (done_r[b] - burst[-1][0])); bad += 1
                    # original: same number of REF, one PREA per REF, (postponing-1)*trp cycles longer
                    lo_m = ev_m[0][0] if b == 0 else done_m[0] + 1
                    burst_m = [(c, k) for c, k in ev_m if lo_m <= c <= done_m[b]]
                    if [k for _, k in burst_m].count("REF") != postponing:
                        print(tag, "model burst", burst_m); bad += 1
                    saved = (done_m[b] - burst_m[0][0]) - (done_r[b] - burst[0][0])
                    if saved != (postponing - 1)*trp:
                        print(tag, "burst %d: %d cycles saved, expected %d" % (b, saved, (postponing - 1)*trp)); bad += 1
    print("part A: %d RefreshSequencer configurations x 2 bursts checked (%s)" % (n, "FAIL" if bad else "ok"))
    return bad

def part_b():
    class Obj: pass
    bad = n = 0
    for trp, trfc, tzqcs, postponing in [(1, 2, 5, 1), (2, 3, 6, 2), (3, 7, 9, 4), (4, 5, 11, 8), (2, 9, 4, 3)]:
        s = Obj()
        s.with_refresh = True
        s.timing = Obj(); s.timing.tREFI = 100; s.timing.tRP = trp; s.timing.tRFC = trfc; s.timing.tZQCS = tzqcs
        s.geom = Obj(); s.geom.addressbits = 16; s.geom.bankbits = 3
        s.phy = Obj(); s.phy.nranks = 1
        clk = 100e6
        dut = Refresher(s, clk_freq=clk, zqcs_freq=clk/(2*postponing*100 + 31), postponing=postponing)
        trace = []
        def gen():
            yield dut.cmd.ready.eq(1)
            for _ in range(3000):
                trace.append(((yield dut.cmd.valid), (yield dut.cmd.a), (yield dut.cmd.cas), (yield dut.cmd.ras),
                    (yield dut.cmd.we), (yield dut.cmd.last)))
                yield
        run_simulation(dut, [gen()])
        tag = "Refresher trp=%d trfc=%d tzqcs=%d postponing=%d" % (trp, trfc, tzqcs, postponing)
        kinds = {(0, 1, 1): "PREA", (1, 1, 0): "REF", (0, 0, 1): "ZQCS"}
        seq = []          # (cycle, kind) of the commands that would reach the bus (valid & ready)
        for c, (valid, a, cas, ras, we, last) in enumerate(trace):
            if (cas, ras, we) != (0, 0, 0):
                if not valid:
                    if c > 300:   # start-up run of postponing > 1: not steered to the bus, the FSM is IDLE
                        print(tag, "cycle %d: command on the lines while cmd.valid is low" % c); bad += 1
                    continue
                seq.append((c, kinds.get((cas, ras, we), "???")))
        # split into valid-high windows
        windows, cur = [], None
        for c, t in enumerate(trace):
            if t[0] and cur is None:
                cur = [c, c]
            if t[0] and cur is not None:
                cur[1] = c
            if not t[0] and cur is not None:
                windows.append(tuple(cur)); cur = None
        nz = 0
        for lo, hi in windows[:-1] if cur is None else windows:
            w = [(c, k) for c, k in seq if lo <= c <= hi + 1]
            ks = [k for _, k in w]
            want = ["PREA"] + ["REF"]*postponing
            if ks not in (want, want + ["PREA", "ZQCS"]):
                print(tag, "window", ks); bad += 1; continue
            n += 1
            if w[1][0] - w[0][0] < trp: bad += 1; print(tag, "tRP")
            for (c0, _), (c1, _) in zip(w[1:1+postponing], w[2:1+postponing]):
                if c1 - c0 < trfc: bad += 1; print(tag, "tRFC between refreshes")
            lastref = w[postponing][0]
            if len(ks) > len(want):
                nz += 1
                if w[-2][0] - lastref < trfc: bad += 1; print(tag, "tRFC before the ZQCS precharge")
                if w[-1][0] - w[-2][0] < trp: bad += 1; print(tag, "tRP before ZQCS")
                if hi + 1 - w[-1][0] < tzqcs: bad += 1; print(tag, "tZQCS")
            else:
                if hi + 1 - lastref < trfc: bad += 1; print(tag, "tRFC before release")
        if nz == 0 or n == 0:
            print(tag, "no ZQCS / no refresh seen"); bad += 1
    print("part B: %d refresh bursts of the real Refresher checked (%s)" % (n, "FAIL" if bad else "ok"))
    return bad

def part_c(quick):
    prng = random.Random(2002)
    cfgs = []
    post = [2, 4, 1, 8, 2, 4, 2, 8, 4, 2]
    for i, (mod, f, rate, sg, cl, cwl) in enumerate(LIBRARY):
        nph = int(rate[2:])
        cfgs.append(dict(modname=mod, clk_freq=f, rate=rate, speedgrade=sg, cl=cl, cwl=cwl,
            rdphase=prng.randrange(nph), wrphase=prng.randrange(nph), seed=200 + i, cycles=1300 if quick else 2200,
            auto_precharge=bool(i & 1), buffered=bool(i & 2), postponing=post[i], trefi=100 + 7*(i % 3),
            zqcs_every=2, pattern=["mixed", "conflict", "turnaround"][i % 3]))
    bad, results = run_many(cfgs)
    chained = 0
    for cfg, r in zip(cfgs, results):
        p   = cfg["postponing"]
        per = r["prea_per_ref"]
        nch = per.count(False)
        chained += nch
        # every burst: first REF after a PREA, the p-1 following ones without
        for k in range(0, len(per) - p + 1, p):
            if per[k:k+p] != [True] + [False]*(p - 1):
                print("      %s: refresh burst structure %s" % (r["tag"], per[k:k+p])); bad += 1; break
        if p > 1 and nch == 0:
            print("      %s: no chained refresh seen" % r["tag"]); bad += 1
    print("part C: %d refreshes were sent without a new Precharge All" % chained)
    return bad

if __name__ == "__main__":
    quick = "--quick" in sys.argv
    bad = part_a()
    bad += part_b()
    if "--no-sim" not in sys.argv:
        bad += part_c(quick)
    print("FAIL" if bad else "PASS")
    sys.exit(1 if bad else 0)
