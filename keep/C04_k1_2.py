# --- common harness (copied verbatim into every keep_k.py) ---------------------------------------
import os, sys, random
sys.path.insert(0, os.getcwd())

from migen import *

from litedram.common import PhySettings, GeomSettings, TimingSettings
from litedram.core.controller import LiteDRAMController, ControllerSettings
from litedram.core.refresher import Refresher


def make_controller(trefi, trp, trfc, postponing, tzqcs, zqcs_period, nphases=1, bankbits=2,
                    auto_precharge=True, with_refresh=True):
    memtype = {1: "SDR", 2: "DDR2", 4: "DDR3"}[nphases]
    phy = PhySettings(
        phytype="SIM", memtype=memtype, databits=8, dfi_databits=16, nphases=nphases,
        rdphase=0, wrphase=nphases - 1, cl=2, cwl=2 if nphases > 1 else None,
        read_latency=4, write_latency=1)
    if nphases > 1:
        phy.rdcmdphase = (phy.rdphase - 1) % nphases
        phy.wrcmdphase = (phy.wrphase - 1) % nphases
    geom = GeomSettings(bankbits=bankbits, rowbits=11, colbits=6)
    timing = TimingSettings(tRP=trp, tRCD=2, tWR=2, tWTR=2, tREFI=trefi, tRFC=trfc,
        tFAW=None if nphases == 1 else 8, tCCD=1, tRRD=None if nphases == 1 else 2,
        tRC=trp + 4, tRAS=4, tZQCS=tzqcs)
    cs = ControllerSettings(cmd_buffer_depth=4, refresh_postponing=postponing,
        with_auto_precharge=auto_precharge, with_refresh=with_refresh,
        refresh_zqcs_freq=1.0)
    # zqcs timer period = int(clk_freq/zqcs_freq) cycles
    clk_freq = float(zqcs_period if zqcs_period else 1e6)
    dut = LiteDRAMController(phy, geom, timing, clk_freq, controller_settings=cs)
    dut.nbanks = 2**bankbits
    return dut


TRAFFIC = ["random", "saturate", "single_bank", "all_write", "all_read", "row_thrash", "idle"]


def traffic_gen(dut, mode, seed):
    """Drives every bank command port of the controller interface, and acks the data phase."""
    prng = random.Random(seed)
    ports = [getattr(dut.interface, "bank%d" % n) for n in range(dut.nbanks)]
    amax = 2**len(ports[0].addr)
    pending = [None]*len(ports)
    while True:
        for n, p in enumerate(ports):
            if pending[n] is not None and (yield p.ready):
                pending[n] = None
            if pending[n] is None:
                if mode == "idle":
                    issue = False
                elif mode == "random":
                    issue = prng.random() < 0.6
                elif mode == "single_bank":
                    issue = (n == 0)
                else:
                    issue = True
                if issue:
                    if mode == "all_write":
                        we = 1
                    elif mode == "all_read":
                        we = 0
                    else:
                        we = prng.getrandbits(1)
                    if mode == "row_thrash":
                        addr = prng.randrange(amax)
                    elif mode in ("saturate", "all_write", "all_read"):
                        addr = prng.randrange(amax) if prng.random() < 0.15 else prng.randrange(16)
                    else:
                        addr = prng.randrange(amax) if prng.random() < 0.4 else prng.randrange(16)
                    pending[n] = (we, addr)
                    yield p.valid.eq(1)
                    yield p.we.eq(we)
                    yield p.addr.eq(addr)
                else:
                    yield p.valid.eq(0)
        yield


class Trace:
    def __init__(self):
        self.ref = []      # cycle of every REF command on DFI
        self.events = []   # (cycle, kind) for REF / PREA / ZQCS / other commands
        self.errors = []
        self.served = 0


def dfi_monitor(dut, trace, ncycles):
    phases = dut.dfi.phases
    for cycle in range(ncycles):
        for ph, p in enumerate(phases):
            if (yield p.cs_n) != 0:
                continue
            cas = 1 - (yield p.cas_n)
            ras = 1 - (yield p.ras_n)
            we  = 1 - (yield p.we_n)
            a   = (yield p.address)
            if (cas, ras, we) == (0, 0, 0):
                continue
            if (cas, ras, we) == (1, 1, 0):
                trace.ref.append(cycle)
                kind = "REF"
            elif (cas, ras, we) == (0, 1, 1):
                kind = "PREA" if (a & (1 << 10)) else "PRE"
            elif (cas, ras, we) == (0, 0, 1):
                kind = "ZQCS"
            elif (cas, ras, we) == (0, 1, 0):
                kind = "ACT"
            elif cas and not ras:
                kind = "WR" if we else "RD"
                trace.served += 1
            else:
                kind = "?"
            trace.events.append((cycle, kind))
        yield


def run_controller(mode, seed, ncycles, **cfg):
    dut = make_controller(**cfg)
    trace = Trace()
    gens = [dfi_monitor(dut, trace, ncycles), passive(traffic_gen)(dut, mode, seed)]
    run_simulation(dut, gens)
    return trace


def check_trace(trace, ncycles, trefi, trp, trfc, postponing, tzqcs, zqcs_period, tag, **_):
    """The C04 property on a DFI trace."""
    errors = []
    P = postponing
    # fixed service latency: drain bank machines + turnarounds + P refresh sequences (+ a ZQCS)
    L = P*(trp + trfc) + (trp + (tzqcs or 0)) + 96
    ref = trace.ref
    # 1) deadline of the k-th refresh (k = 1..) and nothing owed beyond P at the end
    for k, t in enumerate(ref, start=1):
        if t > (k + P)*trefi + L:
            errors.append("%s: refresh #%d at %d later than (k+P)*tREFI+L = %d" % (tag, k, t, (k + P)*trefi + L))
            break
    k_end = len(ref) + 1
    if ncycles > (k_end + P)*trefi + L:
        errors.append("%s: refresh #%d still missing at cycle %d (deadline %d)" % (tag, k_end, ncycles, (k_end + P)*trefi + L))
    # 2) never more refreshes than timer ticks (no spurious refresh)
    for k, t in enumerate(ref, start=1):
        if k > (t + 1)//trefi:
            errors.append("%s: refresh #%d at %d is ahead of the timer" % (tag, k, t))
            break
    # 3) every REF is preceded by a PREA with exactly tRP in between and nothing else since;
    #    nothing but REF/PREA/ZQCS is issued until tRFC after a REF
    ev = trace.events
    for i, (t, kind) in enumerate(ev):
        if kind == "REF":
            if i == 0 or ev[i-1] != (t - trp, "PREA"):
                errors.append("%s: REF at %d not preceded by PREA at %d (prev %r)" % (tag, t, t - trp, ev[i-1] if i else None))
                break
            if i + 1 < len(ev) and ev[i+1][0] < t + trfc:
                errors.append("%s: command %r within tRFC of REF at %d" % (tag, ev[i+1], t))
                break
        if kind == "ZQCS":
            if i == 0 or ev[i-1] != (t - trp, "PREA"):
                errors.append("%s: ZQCS at %d not preceded by PREA" % (tag, t))
                break
            if i + 1 < len(ev) and ev[i+1][0] < t + tzqcs:
                errors.append("%s: command %r within tZQCS of ZQCS at %d" % (tag, ev[i+1], t))
                break
    # 4) ZQCS recurs at its period (the timer restarts when a calibration completes)
    if tzqcs is not None:
        zq = [t for t, kind in ev if kind == "ZQCS"]
        bound = zqcs_period + P*trefi + L
        prev = 0
        for t in zq + [ncycles]:
            if t - prev > bound + (trp + tzqcs):
                errors.append("%s: no ZQCS between %d and %d (period %d)" % (tag, prev, t, zqcs_period))
                break
            prev = t
    else:
        if any(kind == "ZQCS" for _, kind in ev):
            errors.append("%s: unexpected ZQCS" % tag)
    # 5) no drift: refreshes come in bursts of P; burst j (j = 1..) starts within a fixed drain window after
    #    the j-th postponer request, which is at j*P*tREFI (+6+tRP pipeline cycles down to the REF on DFI,
    #    one less is tolerated for implementations saving a cycle), and completes back-to-back.
    trace.lateness = 0
    for j in range(1, len(ref)//P + 1):
        burst = ref[(j-1)*P:j*P]
        base = j*P*trefi + 5 + trp
        late = burst[0] - base
        trace.lateness = max(trace.lateness, late)
        if late < -1 or late > DRAIN_WINDOW:
            errors.append("%s: burst %d starts at %d, request instant %d (lateness %d)" % (tag, j, burst[0], base, late))
            break
        if burst[-1] - burst[0] > (P - 1)*(trp + trfc + 2):
            errors.append("%s: burst %d not back-to-back: %r" % (tag, j, burst))
            break
    if len(ref) % P and ncycles - ref[-1] > (P*(trp + trfc + 2)):
        errors.append("%s: incomplete burst at the end: %r" % (tag, ref[-(len(ref) % P):]))
    return errors


DRAIN_WINDOW = 40


def traffic_resumes(trace, mode, tag):
    """Between two refresh bursts some read/write must be served when traffic is offered."""
    if mode == "idle":
        return []
    ev = trace.events
    errors = []
    last_ref = None
    served_since = 0
    bursts = 0
    for t, kind in ev:
        if kind == "REF":
            if last_ref is not None and t - last_ref > 60 and served_since == 0:
                errors.append("%s: no traffic served between refresh at %d and %d" % (tag, last_ref, t))
                break
            last_ref = t
            served_since = 0
        elif kind in ("RD", "WR"):
            served_since += 1
    return errors


def _one_run(args):
    mode, seed, ncycles, cfg = args
    tag = "%s/seed%d/%r" % (mode, seed, sorted(cfg.items()))
    trace = run_controller(mode, seed, ncycles, **cfg)
    errors  = check_trace(trace, ncycles, tag=tag, **cfg)
    errors += traffic_resumes(trace, mode, tag)
    return tag, len(trace.ref), trace.served, errors, trace.ref, trace.lateness, trace.events


def default_campaign(seed0, ncycles=2200):
    base = dict(trefi=100, trp=2, trfc=6, postponing=1, tzqcs=None, zqcs_period=None)
    runs = []
    cfgs = [
        dict(base),
        dict(base, postponing=2, tzqcs=5, zqcs_period=450),
        dict(base, postponing=8, trfc=4, trefi=101),
        dict(base, postponing=4, trp=3, trfc=9, tzqcs=7, zqcs_period=333, nphases=2),
        dict(base, postponing=3, trefi=117, trp=1, trfc=3, tzqcs=4, zqcs_period=1000, auto_precharge=False),
        dict(base, postponing=1, trefi=128, nphases=4, bankbits=1, tzqcs=6, zqcs_period=300),
    ]
    prng = random.Random(seed0)
    for i, cfg in enumerate(cfgs):
        modes = prng.sample(TRAFFIC[:-1], 2)
        for mode in modes:
            n = ncycles if cfg["postponing"] < 8 else max(ncycles, 2600)
            runs.append((mode, prng.randrange(1 << 16), n, cfg))
    runs.append(("idle", 0, 1200, cfgs[1]))
    return runs


def run_campaign(runs, nproc=6):
    import multiprocessing
    with multiprocessing.Pool(nproc) as pool:
        results = pool.map(_one_run, runs, chunksize=1)
    errors = []
    for tag, nref, served, errs, ref, lateness, events in results:
        print("  %-100s refreshes=%3d served=%5d max drain=%2d %s" % (tag[:100], nref, served, lateness, "FAIL" if errs else "ok"))
        errors += errs
    return errors, results

# --- end of common harness -----------------------------------------------------------------------

# --- change 2: the bank machine grants the refresh from REGULAR when its timings already allow it ----

from litedram.common import LiteDRAMInterface
from litedram.core.bankmachine import BankMachine


def bankmachine_check(seed, ncycles, auto_precharge, ready_p):
    """Stand-alone bank machine: random requests, random command acks, random refresh requests held
    until granted (and a while longer), as the multiplexer/refresher do."""
    phy = PhySettings(phytype="SIM", memtype="SDR", databits=8, dfi_databits=16, nphases=1,
        rdphase=0, wrphase=0, cl=2, read_latency=4, write_latency=1)
    geom = GeomSettings(bankbits=2, rowbits=11, colbits=6)
    timing = TimingSettings(tRP=2, tRCD=2, tWR=3, tWTR=2, tREFI=100, tRFC=6, tFAW=None, tCCD=1,
        tRRD=None, tRC=8, tRAS=6, tZQCS=None)
    cs = ControllerSettings(cmd_buffer_depth=4, with_auto_precharge=auto_precharge)
    cs.phy, cs.geom, cs.timing = phy, geom, timing
    aw = LiteDRAMInterface(0, cs).address_width
    dut = BankMachine(1, aw, 0, 1, cs)
    prng = random.Random(seed)
    errors = []
    stats = dict(grants=0, early=0, maxwait=0)
    precharge_time = 2 + 3 + 1   # ceil(cwl/nphases) + tWR + tCCD

    def requests():
        while True:
            if prng.random() < 0.7:
                yield dut.req.valid.eq(1)
                yield dut.req.we.eq(prng.getrandbits(1))
                yield dut.req.addr.eq(prng.randrange(2**aw) if prng.random() < 0.3 else prng.randrange(32))
                yield
                while not (yield dut.req.ready):
                    yield
                yield dut.req.valid.eq(0)
            yield

    def acks():
        while True:
            yield dut.cmd.ready.eq(prng.random() < ready_p)
            yield

    def main():
        last_act = last_wr = -100
        cycle = 0
        prev_req = 0
        def step():
            nonlocal last_act, last_wr, cycle, prev_req
            v, r = (yield dut.cmd.valid), (yield dut.cmd.ready)
            if v and r:
                if (yield dut.cmd.ras) and not (yield dut.cmd.we):
                    last_act = cycle
                if (yield dut.cmd.is_write):
                    last_wr = cycle
            if (yield dut.refresh_gnt):
                # (the REFRESH state is left one cycle after the request is released, as before the change)
                if not (yield dut.refresh_req) and not prev_req:
                    errors.append("bm: grant without request at %d" % cycle)
                if v:
                    errors.append("bm: command presented while granting at %d" % cycle)
                # Precharge All must be legal: tRAS after the activate, tWR after the last write
                if cycle - last_act < 6:
                    errors.append("bm: grant %d cycles after ACT (tRAS=6) at %d" % (cycle - last_act, cycle))
                if cycle - last_wr < precharge_time:
                    errors.append("bm: grant %d cycles after WR (need %d) at %d" % (cycle - last_wr, precharge_time, cycle))
            prev_req = (yield dut.refresh_req)
            yield
            cycle += 1
        while cycle < ncycles:
            for _ in range(prng.randrange(1, 60)):
                yield from step()
            # refresh request, held to the end of the "refresh"
            yield dut.refresh_req.eq(1)
            yield from step()           # the cycle in which the request becomes visible
            t_req = cycle
            waited = 0
            while not (yield dut.refresh_gnt):
                yield from step()
                waited += 1
                if waited > 200:
                    errors.append("bm: refresh never granted (request at %d)" % t_req)
                    return
            stats["grants"] += 1
            stats["early"] += int(waited == 0)
            stats["maxwait"] = max(stats["maxwait"], waited)
            # grant is stable while the request is held, and no command is issued
            for _ in range(prng.randrange(3, 20)):
                if not (yield dut.refresh_gnt):
                    errors.append("bm: grant dropped at %d while the request is held" % cycle)
                yield from step()
            yield dut.refresh_req.eq(0)
            yield from step()
            yield from step()
            if (yield dut.refresh_gnt):
                errors.append("bm: grant still set after the request was released at %d" % cycle)

    run_simulation(dut, [main(), passive(requests)(), passive(acks)()])
    return errors[:5], stats


def precharge_all_legal(events, cfg, tag):
    """On the DFI trace: Precharge All (from the refresher) respects tRAS / write recovery / tRP / tRCD."""
    errors = []
    trp = cfg["trp"]
    nph = cfg.get("nphases", 1)
    wr_to_pre = (1 if nph == 1 else -(-2//nph)) + 2 + 1   # ceil(cwl/nphases) + tWR + tCCD, cwl = cl = 2
    last = {}
    for t, kind in events:
        if kind == "PREA":
            if "ACT" in last and t - last["ACT"] < 4:
                errors.append("%s: PREA at %d only %d after ACT (tRAS=4)" % (tag, t, t - last["ACT"]))
            if "WR" in last and t - last["WR"] < wr_to_pre:
                errors.append("%s: PREA at %d only %d after WR (need %d)" % (tag, t, t - last["WR"], wr_to_pre))
            if "PRE" in last and t - last["PRE"] < 1:
                errors.append("%s: PREA at %d together with PRE" % (tag, t))
        last[kind] = t
    return errors[:3]


def main():
    errors = []
    # A) bank machine alone
    total = dict(grants=0, early=0, maxwait=0)
    for seed in range(6):
        errs, stats = bankmachine_check(seed, 2500, auto_precharge=bool(seed & 1), ready_p=[1.0, 0.7, 0.3][seed % 3])
        errors += errs
        total["grants"] += stats["grants"]; total["early"] += stats["early"]
        total["maxwait"] = max(total["maxwait"], stats["maxwait"])
    print("bank machine: %d refresh handshakes, %d granted in the request cycle, longest wait %d, %d errors"
          % (total["grants"], total["early"], total["maxwait"], len(errors)))
    if total["early"] == 0:
        errors.append("bm: the early grant was never exercised")
    # B) the property on the whole controller, under traffic (+ legality of the earlier Precharge All)
    runs = default_campaign(seed0=202)
    errs, results = run_campaign(runs)
    errors += errs
    for (mode, seed, n, cfg), res in zip(runs, results):
        errors += precharge_all_legal(res[6], cfg, res[0][:60])
    # idle controller: the refresh is served exactly one cycle earlier than the 5+tRP pipeline of the original
    idle = [r for r in results if r[0].startswith("idle")][0]
    P, trefi, trp = 2, 100, 2
    expect = [j*P*trefi + 4 + trp for j in range(1, len(idle[4])//P + 1)]
    if idle[4][0::P][:len(expect)] != expect:
        errors.append("idle: bursts start at %r, expected %r" % (idle[4][0::P], expect))
    for e in errors[:20]:
        print("ERROR:", e)
    print("keep_2:", "FAIL" if errors else "PASS")
    sys.exit(1 if errors else 0)


if __name__ == "__main__":
    main()
