#!/usr/bin/env python3
# Check for keep_1 (dfii.py: two stage DFI mux with an intermediate hardware interface).
#
# Drives the REAL litedram.dfii.DFIInjector in migen simulation with random values on every DFI
# signal of the controller side (slave), the external DFI, the CSR side and the PHY read path,
# with random switches of control.sel / ext_dfi_sel at any cycle, and compares every signal of
# the PHY side (master) and of the read return paths, every cycle, against an independent Python
# model of the documented behaviour:
#   sel=1, ext_dfi_sel=0 : master == slave (cs_n broadcast x2 on clam shell), slave.rddata == master.rddata
#   sel=1, ext_dfi_sel=1 : master == ext_dfi, ext_dfi.rddata == master.rddata, nothing goes back to slave
#   sel=0                : master is a function of the CSRs only (nothing of slave / ext_dfi reaches it)
# Configurations: nphases 1/2/4, nranks 1/2, clam shell on/off.
import os, sys, random
sys.path.insert(0, os.getcwd())

from migen import *
from migen.fhdl import tracer as _tracer

# -- harness shims (the installed LiteX cannot extract CSR names on this Python and has no
#    CSR.wr_stb alias); the code under test is untouched.
import litex.soc.interconnect.csr as _csr
_orig_name = _csr.get_obj_var_name
_cnt = [0]
def _name(override=None, default=None):
    if override:
        return override
    _cnt[0] += 1
    return "csr{}".format(_cnt[0])
_csr.get_obj_var_name = _name
_orig_csr_init = _csr.CSR.__init__
def _csr_init(self, *a, **k):
    _orig_csr_init(self, *a, **k)
    if not hasattr(self, "wr_stb"):
        self.wr_stb = self.re
_csr.CSR.__init__ = _csr_init

from litedram.dfii import DFIInjector

M2S = ["address", "bank", "cas_n", "cs_n", "ras_n", "we_n", "cke", "odt", "reset_n", "act_n",
       "wrdata", "wrdata_en", "wrdata_mask", "rddata_en"]
S2M = ["rddata", "rddata_valid"]


class Top(Module):
    def __init__(self, **kw):
        self.submodules.dfii = DFIInjector(**kw)
        # what a CSR bank does with the compound CSRs (their field decoding lives in the CSR modules)
        for c in self.dfii.get_csrs():
            if isinstance(c, Module):
                c.finalize(32, "big")
                self.submodules += c


def rnd(rng, sig):
    n = len(sig)
    r = rng.random()
    if r < 0.1:
        return 0
    if r < 0.2:
        return (1 << n) - 1
    return rng.getrandbits(n)


def run(addressbits, bankbits, nranks, databits, nphases, clam, ncycles, seed):
    rng = random.Random(seed)
    top = Top(addressbits=addressbits, bankbits=bankbits, nranks=nranks, databits=databits,
              nphases=nphases, is_clam_shell=clam)
    d = top.dfii
    pis = [getattr(d, "pi{}".format(n)) for n in range(nphases)]
    mranks = nranks*2 if clam else nranks
    assert len(d.master.p0.cs_n) == mranks
    stats = dict(hw=0, ext=0, sw=0, switches=0, nonidle_sw=0)
    errors = []

    def mask(v, n):
        return v & ((1 << n) - 1)

    def gen():
        status = [0]*nphases           # model of pi._rddata.status
        prev = None
        last_sel = None
        for cycle in range(ncycles):
            # ---- check outputs resulting from the inputs applied in the previous step
            if prev is not None:
                sel, ext = prev["sel"], prev["ext"]
                for p in range(nphases):
                    exp = {}
                    if sel and not ext:
                        src = prev["slave"][p]
                        for name in M2S:
                            exp[name] = src[name]
                        if clam:
                            exp["cs_n"] = src["cs_n"] | (src["cs_n"] << nranks)
                    elif sel and ext:
                        src = prev["ext_dfi"][p]
                        for name in M2S:
                            exp[name] = src[name]
                    else:
                        cmd, issue = prev["cmd"][p], prev["issue"][p]
                        cs, we, cas, ras, wren, rden, cs_top, cs_bot = [(cmd >> i) & 1 for i in range(8)]
                        if issue:
                            if cs_top:
                                exp["cs_n"] = mask(2, mranks)
                            elif cs_bot:
                                exp["cs_n"] = mask(1, mranks)
                            else:
                                exp["cs_n"] = 0 if cs else (1 << mranks) - 1
                            exp["we_n"], exp["cas_n"], exp["ras_n"] = 1 - we, 1 - cas, 1 - ras
                        else:
                            exp["cs_n"] = (1 << mranks) - 1
                            exp["we_n"] = exp["cas_n"] = exp["ras_n"] = 1
                        exp["address"]     = prev["addr"][p]
                        exp["bank"]        = prev["baddr"][p]
                        exp["wrdata"]      = prev["wrdata"][p]
                        exp["wrdata_mask"] = 0
                        exp["wrdata_en"]   = issue & wren
                        exp["rddata_en"]   = issue & rden
                        ctl = prev["control"]
                        exp["cke"]     = ((1 << nranks) - 1) if (ctl >> 1) & 1 else 0
                        exp["odt"]     = ((1 << nranks) - 1) if (ctl >> 2) & 1 else 0
                        exp["reset_n"] = (ctl >> 3) & 1
                        exp["act_n"]   = 1
                    for name in M2S:
                        got = (yield getattr(d.master.phases[p], name))
                        if got != exp[name]:
                            errors.append("cycle {} sel={} ext={} master.p{}.{} = {:#x}, expected {:#x}".format(
                                cycle, sel, ext, p, name, got, exp[name]))
                    # read return paths
                    for name in S2M:
                        mval = prev["master"][p][name]
                        got_s = (yield getattr(d.slave.phases[p], name))
                        got_e = (yield getattr(d.ext_dfi.phases[p], name))
                        exp_s = mval if (sel and not ext) else 0
                        exp_e = mval if (sel and ext) else 0
                        if got_s != exp_s:
                            errors.append("cycle {} sel={} ext={} slave.p{}.{} = {:#x}, expected {:#x}".format(
                                cycle, sel, ext, p, name, got_s, exp_s))
                        if got_e != exp_e:
                            errors.append("cycle {} sel={} ext={} ext_dfi.p{}.{} = {:#x}, expected {:#x}".format(
                                cycle, sel, ext, p, name, got_e, exp_e))
                    # CSR read data register (captures PHY read data under software control only);
                    # the value visible now was latched from the inputs of the step before `prev`
                    got = (yield pis[p]._rddata.status)
                    if got != status[p]:
                        errors.append("cycle {} pi{}.rddata.status = {:#x}, expected {:#x}".format(cycle, p, got, status[p]))
                    if (not sel) and prev["master"][p]["rddata_valid"]:
                        status[p] = prev["master"][p]["rddata"]
                if sel and not ext: stats["hw"] += 1
                elif sel: stats["ext"] += 1
                else:
                    stats["sw"] += 1
                    if any(prev["issue"]): stats["nonidle_sw"] += 1
                if len(errors) > 10:
                    return

            # ---- new random inputs (mode bits are held for random stretches, switch at any cycle)
            cur = {}
            if prev is None or rng.random() < 0.25:
                cur["sel"] = rng.getrandbits(1)
            else:
                cur["sel"] = prev["sel"]
            if prev is None or rng.random() < 0.2:
                cur["ext"] = rng.getrandbits(1)
            else:
                cur["ext"] = prev["ext"]
            if prev is not None and (cur["sel"], cur["ext"]) != (prev["sel"], prev["ext"]):
                stats["switches"] += 1
            cur["control"] = cur["sel"] | (rng.getrandbits(3) << 1)
            yield d._control.storage.eq(cur["control"])
            yield d.ext_dfi_sel.eq(cur["ext"])
            for key, intf in [("slave", d.slave), ("ext_dfi", d.ext_dfi)]:
                cur[key] = []
                for p in range(nphases):
                    vals = {}
                    for name in M2S:
                        sig = getattr(intf.phases[p], name)
                        vals[name] = rnd(rng, sig)
                        yield sig.eq(vals[name])
                    cur[key].append(vals)
            cur["master"] = []
            for p in range(nphases):
                vals = {}
                for name in S2M:
                    sig = getattr(d.master.phases[p], name)
                    vals[name] = rnd(rng, sig)
                    yield sig.eq(vals[name])
                cur["master"].append(vals)
            cur["cmd"], cur["issue"], cur["addr"], cur["baddr"], cur["wrdata"] = [], [], [], [], []
            for p in range(nphases):
                cmd   = rng.getrandbits(8) if rng.random() < 0.7 else rng.getrandbits(6)
                issue = int(rng.random() < 0.5)
                a, b, w = rng.getrandbits(addressbits), rng.getrandbits(bankbits), rng.getrandbits(databits)
                yield pis[p]._command.storage.eq(cmd)
                yield pis[p]._command_issue.re.eq(issue)
                yield pis[p]._address.storage.eq(a)
                yield pis[p]._baddress.storage.eq(b)
                yield pis[p]._wrdata.storage.eq(w)
                cur["cmd"].append(cmd); cur["issue"].append(issue)
                cur["addr"].append(a); cur["baddr"].append(b); cur["wrdata"].append(w)
            prev = cur
            yield

    run_simulation(top, gen())
    return errors, stats


def main():
    total = dict(hw=0, ext=0, sw=0, switches=0, nonidle_sw=0)
    fail = False
    seed = 1234
    for nphases in [1, 2, 4]:
        for nranks in [1, 2]:
            for clam in [False, True]:
                for (abits, bbits, dbits) in [(13, 3, 16), (17, 2, 32)]:
                    seed += 1
                    errors, stats = run(abits, bbits, nranks, dbits, nphases, clam, ncycles=400, seed=seed)
                    for k in total: total[k] += stats[k]
                    if errors:
                        fail = True
                        print("FAIL nphases={} nranks={} clam={} bits={}".format(nphases, nranks, clam, (abits, bbits, dbits)))
                        for e in errors[:8]:
                            print("   ", e)
    print("cycles checked:", total)
    assert total["hw"] > 500 and total["ext"] > 500 and total["sw"] > 500 and total["switches"] > 300
    if fail:
        print("keep_1: FAIL")
        sys.exit(1)
    print("keep_1: OK")


if __name__ == "__main__":
    main()
