#!/usr/bin/env python3
# Check for keep_2 (bankmachine: an idle bank issues its ACTIVATE straight from REGULAR when tRC allows,
# instead of first spending a cycle to enter the ACTIVATE state; this is the path taken after reset and after
# every refresh / ZQCS, i.e. the one whose only timing protection is the refresher's tRP/tRFC/tZQCS timeline).
#
# Drives the REAL LiteDRAMController (refresher + bank machines + multiplexer) with randomised traffic on
# all bank interfaces for several module / clock / rate / phase-alignment combinations (auto-precharge on and
# off, buffered command FIFO, refresh postponing 1 and 2, refreshes every ~100 cycles and frequent ZQCS so
# that rows are opened right before and right after refreshes all the time), decodes every command on the
# DFI bus (time = sys_cycle*nphases + phase) and checks every pair of commands against the minimum spacings
# computed directly from the module's datasheet numbers (ns and ck, not from the controller's own cycle
# counts): tRCD, tRP, tRAS, tRC, tRRD, tFAW, tCCD, tWR (after write burst), tWTR (after write burst), tRFC,
# tZQCS, for explicit precharge, auto-precharge and refresh precharge-all.
# Also checks protocol sanity (no CAS to a closed bank, no ACT to an open bank, REF/ZQCS only with all banks
# precharged) and that the new path was really exercised (an ACT seen exactly tRFC+1 controller cycles after
# a REF, which the unmodified bank machine cannot do: it needs tRFC+2).
#
# exit 0 = property holds on everything simulated.

import os
import sys
import math
import random

sys.path.insert(0, os.getcwd())

from migen import *

from litedram import modules as M
from litedram.common import PhySettings, burst_lengths
from litedram.core.controller import LiteDRAMController, ControllerSettings

# Datasheet requirement table (DRAM clocks) --------------------------------------------------------

def requirements(module, nphases, cwl, memtype):
    tck = 1e9/(module.clk_freq*nphases)
    def ck(t):
        if t is None:
            return None
        return max(t.ck, math.ceil(t.ns/tck - 1e-6))
    def g(name):
        if name == "tRFC" and memtype == "DDR4":
            return module.get(name, module.timing_settings.fine_refresh_mode)
        return module.get(name)
    r = {name: ck(g(name)) for name in ["tRP", "tRCD", "tWR", "tWTR", "tRFC", "tFAW", "tCCD", "tRRD", "tRAS", "tZQCS"]}
    r["tRC"] = None if g("tRAS") is None else ck(g("tRAS") + g("tRP"))
    if memtype == "SDR":
        r["wburst"] = 0 + 1               # write data on the command edge, single beat
    else:
        r["wburst"] = cwl + burst_lengths[memtype]//2
    return r

# DFI monitor / checker ----------------------------------------------------------------------------

class Checker:
    def __init__(self, req, nbanks, tag):
        self.r      = req
        self.tag    = tag
        self.nbanks = nbanks
        self.errors = []
        self.open     = [False]*nbanks
        self.last_act = [None]*nbanks
        self.last_wr  = [None]*nbanks
        self.pre_eff  = [None]*nbanks
        self.acts     = []
        self.last_cas    = None
        self.last_wr_any = None
        self.last_ref    = None
        self.last_zq     = None
        self.counts = dict(ACT=0, PRE=0, PREA=0, RD=0, WR=0, RDA=0, WRA=0, REF=0, ZQCS=0)
        self.slack  = {}
        self.tfaw_blocked = 0   # cycles in which the tFAW gate was closed
        self.nphases = 1
        self.ref_to_act_sys = None   # minimum REF -> ACT distance seen, in controller cycles

    def err(self, T, msg):
        self.errors.append("%s: T=%d %s" % (self.tag, T, msg))

    def gap(self, T, since, need, name):
        if since is None or need is None:
            return
        d = T - since
        s = d - need
        if name not in self.slack or s < self.slack[name]:
            self.slack[name] = s
        if d < need:
            self.err(T, "%s violated: %d < %d" % (name, d, need))

    def common(self, T):
        self.gap(T, self.last_ref, self.r["tRFC"],  "tRFC")
        self.gap(T, self.last_zq,  self.r["tZQCS"], "tZQCS")

    def cmd(self, T, kind, bank, a10):
        r = self.r
        self.common(T)
        if kind == "ACT":
            self.counts["ACT"] += 1
            if self.open[bank]:
                self.err(T, "ACT to open bank %d" % bank)
            self.gap(T, self.pre_eff[bank],  r["tRP"], "tRP")
            if self.last_ref is not None:
                d = T//self.nphases - self.last_ref//self.nphases
                if self.ref_to_act_sys is None or d < self.ref_to_act_sys:
                    self.ref_to_act_sys = d
            self.gap(T, self.last_act[bank], r["tRC"], "tRC")
            if self.acts:
                self.gap(T, self.acts[-1], r["tRRD"], "tRRD")
            if len(self.acts) >= 4:
                self.gap(T, self.acts[-4], r["tFAW"], "tFAW")
            self.acts.append(T)
            self.acts = self.acts[-4:]
            self.open[bank]     = True
            self.last_act[bank] = T
            self.last_wr[bank]  = None
        elif kind in ["RD", "WR"]:
            self.counts[kind + ("A" if a10 else "")] += 1
            if not self.open[bank]:
                self.err(T, "%s to closed bank %d" % (kind, bank))
            self.gap(T, self.last_act[bank], r["tRCD"], "tRCD")
            self.gap(T, self.last_cas,       r["tCCD"], "tCCD")
            if kind == "RD":
                self.gap(T, self.last_wr_any, r["wburst"] + r["tWTR"], "tWTR")
            else:
                self.last_wr_any   = T
                self.last_wr[bank] = T
            self.last_cas = T
            if a10:
                pe = T
                if self.last_wr[bank] is not None:
                    pe = max(pe, self.last_wr[bank] + r["wburst"] + r["tWR"])
                if r["tRAS"] is not None and self.last_act[bank] is not None:
                    pe = max(pe, self.last_act[bank] + r["tRAS"])
                self.pre_eff[bank] = pe
                self.open[bank]    = False
        elif kind == "PRE":
            self.counts["PREA" if a10 else "PRE"] += 1
            banks = range(self.nbanks) if a10 else [bank]
            for b in banks:
                if self.open[b]:
                    self.gap(T, self.last_act[b], r["tRAS"], "tRAS")
                    self.gap(T, self.last_wr[b],  r["wburst"] + r["tWR"], "tWR")
                    self.open[b]    = False
                    self.pre_eff[b] = T
                elif self.pre_eff[b] is not None and self.pre_eff[b] > T:
                    # Auto-precharge still pending in this bank: an explicit precharge must not cut it short.
                    self.err(T, "PRE while auto-precharge of bank %d pending" % b)
        elif kind in ["REF", "ZQCS"]:
            self.counts[kind] += 1
            for b in range(self.nbanks):
                if self.open[b]:
                    self.err(T, "%s with bank %d open" % (kind, b))
                self.gap(T, self.pre_eff[b], r["tRP"], "tRP(" + kind + ")")
            if kind == "REF":
                self.last_ref = T
            else:
                self.last_zq = T
        else:
            self.err(T, "unexpected command " + kind)

DECODE = {
    (0, 1, 1): "ACT",
    (0, 1, 0): "PRE",
    (0, 0, 1): "REF",
    (1, 0, 1): "RD",
    (1, 0, 0): "WR",
    (1, 1, 0): "ZQCS",
    (0, 0, 0): "MRS",
}

# Simulation ---------------------------------------------------------------------------------------

def phy_settings_for(memtype, nphases, cl, cwl, rdphase, wrphase):
    return PhySettings(
        phytype       = "SIM",
        memtype       = memtype,
        databits      = 16,
        dfi_databits  = 16 if memtype == "SDR" else 32,
        nphases       = nphases,
        rdphase       = rdphase,
        wrphase       = wrphase,
        cl            = cl,
        cwl           = cwl,
        read_latency  = math.ceil(cl/nphases) + 4,
        write_latency = math.ceil(cwl/nphases))

def run_one(modname, clk_freq, rate, speedgrade, cl, cwl, rdphase, wrphase, seed, cycles,
            auto_precharge=True, buffered=False, trefi=None, postponing=1, mode="mixed"):
    cls     = getattr(M, modname)
    nphases = int(rate.split(":")[1])
    module  = cls(clk_freq, rate, speedgrade=speedgrade)
    memtype = module.memtype
    tag = "%s@%gMHz %s sg=%s rd/wr=%d/%d ap=%d seed=%d mode=%s" % (
        modname, clk_freq/1e6, rate, speedgrade, rdphase, wrphase, auto_precharge, seed, mode)

    timing = module.timing_settings
    # Refresh (and ZQCS) far more often than in reality, to get many activate-then-refresh races. tREFI is
    # a maximum, so shortening it never relaxes anything.
    timing.tREFI = trefi if trefi is not None else 100 + 8*(seed % 7)
    cs = ControllerSettings(
        cmd_buffer_depth    = 4,
        cmd_buffer_buffered = buffered,
        read_time           = 12,
        write_time          = 8,
        with_auto_precharge = auto_precharge,
        refresh_zqcs_freq   = clk_freq/(3*timing.tREFI + 17),
        refresh_postponing  = postponing)
    dut = LiteDRAMController(
        phy_settings        = phy_settings_for(memtype, nphases, cl, cwl, rdphase, wrphase),
        geom_settings       = module.geom_settings,
        timing_settings     = timing,
        clk_freq            = clk_freq,
        controller_settings = cs)

    nbanks  = 2**module.geom_settings.bankbits
    req     = requirements(module, nphases, cwl, memtype)
    checker = Checker(req, nbanks, tag)
    checker.nphases  = nphases
    checker.trfc_sys = timing.tRFC
    prng    = random.Random(seed)
    banks   = [getattr(dut.interface, "bank%d" % n) for n in range(nbanks)]
    colbits = module.geom_settings.colbits
    align   = int(math.log2(burst_lengths[memtype] if memtype != "SDR" else nphases))
    split   = colbits - align

    # Flattened observation signals: one simulator read per cycle instead of one per wire.
    top = Module()
    top.submodules.dut = dut
    readys = Signal(nbanks)
    top.comb += readys.eq(Cat(*[b.ready for b in banks]))
    abits  = module.geom_settings.addressbits
    bbits  = module.geom_settings.bankbits
    pw     = 4 + bbits + 1
    flat   = Signal(pw*nphases)
    top.comb += flat.eq(Cat(*[Cat(ph.cs_n[0], ph.ras_n, ph.cas_n, ph.we_n, ph.bank[:bbits], ph.address[10])
        for ph in dut.dfi.phases]))

    def new_request(n, state):
        # row pool of 3 rows per bank: row hits, conflicts and re-opens all happen
        if mode == "conflict":
            row = prng.randrange(4)
        elif mode == "hits":
            row = state["row"] if prng.random() < 0.9 else prng.randrange(3)
        else:
            row = state["row"] if prng.random() < 0.6 else prng.randrange(3)
        state["row"] = row
        if prng.random() < 0.25:
            state["we"] = prng.randrange(2)
        col = prng.randrange(2**split)
        return (row << split) | col, state["we"]

    def traffic():
        states = [dict(row=0, we=prng.randrange(2), idle=prng.randrange(20), valid=0) for _ in range(nbanks)]
        # global activity phases, so that banks go idle / busy together from time to time
        quiet = 0
        for cyc in range(cycles):
            if quiet == 0 and prng.random() < 0.004:
                quiet = prng.randrange(10, 120)
            if quiet:
                quiet -= 1
            rdy = (yield readys)
            for n, (b, s) in enumerate(zip(banks, states)):
                if s["valid"]:
                    if (rdy >> n) & 1:
                        s["valid"] = 0
                        yield b.valid.eq(0)
                        s["idle"] = 0 if prng.random() < 0.7 else prng.randrange(1, 40)
                    else:
                        continue
                if not s["valid"]:
                    if s["idle"] > 0:
                        s["idle"] -= 1
                    elif not quiet:
                        addr, we = new_request(n, s)
                        yield b.addr.eq(addr)
                        yield b.we.eq(we)
                        yield b.valid.eq(1)
                        s["valid"] = 1
            yield

    @passive
    def monitor():
        cyc = 0
        while True:
            v = (yield flat)
            if not (yield dut.multiplexer.tfawcon.ready):
                checker.tfaw_blocked += 1
            for p in range(nphases):
                w = (v >> (p*pw)) & (2**pw - 1)
                if w & 1:
                    continue
                key = ((w >> 1) & 1, (w >> 2) & 1, (w >> 3) & 1)
                if key == (1, 1, 1):
                    continue
                kind = DECODE[key]
                bank = (w >> 4) & (2**bbits - 1)
                a10  = (w >> (4 + bbits)) & 1
                checker.cmd(cyc*nphases + p, kind, bank, a10)
            yield
            cyc += 1

    run_simulation(top, [traffic(), monitor()])
    return checker

EXPECT_FAST_ACTIVATE = True

# Configurations -----------------------------------------------------------------------------------

def configs(quick):
    # (module, clk_freq, rate, speedgrade, cl, cwl)
    base = [
        ("MT48LC16M16",  100e6, "1:1", None,   2, 2),
        ("IS42S16160",    50e6, "1:1", None,   2, 2),
        ("MT46V32M16",   100e6, "1:2", None,   3, 1),   # DDR: write latency 1
        ("MT47H64M16",   125e6, "1:2", None,   4, 3),
        ("MT41K128M16",  100e6, "1:4", "800",  6, 5),
        ("MT41K128M16",  200e6, "1:4", "1600", 11, 8),
        ("MT41J256M16",  125e6, "1:2", "1066", 5, 5),   # DDR3 at half rate (ECP5 style)
        ("MT41K64M16",    75e6, "1:4", "800",  5, 5),
        ("MT40A1G8",     200e6, "1:4", "2400", 11, 9),
        ("EDY4016A",     125e6, "1:4", "2400", 9, 9),
    ]
    out = []
    prng = random.Random(1234)
    for i, (mod, f, rate, sg, cl, cwl) in enumerate(base):
        nph = int(rate.split(":")[1])
        reps = 1 if quick else 3
        for k in range(reps):
            rdphase = prng.randrange(nph)
            wrphase = prng.randrange(nph)
            out.append(dict(modname=mod, clk_freq=f, rate=rate, speedgrade=sg, cl=cl, cwl=cwl,
                rdphase=rdphase, wrphase=wrphase, seed=100*i + k,
                auto_precharge = (k != 1),
                buffered       = (k == 2),
                postponing     = 1 + (k == 2),
                mode           = ["mixed", "conflict", "hits"][k % 3]))
    return out

def work(cfg):
    c = run_one(**cfg)
    return dict(tag=c.tag, errors=c.errors, counts=c.counts, slack=c.slack,
        ref_to_act_sys=c.ref_to_act_sys, trfc_sys=c.trfc_sys)

def main():
    import multiprocessing
    quick  = "--quick" in sys.argv
    cycles = 2000 if quick else 4000
    total  = dict()
    bad    = 0
    slack  = {}
    fast   = 0
    cfgs   = [dict(cycles=cycles, **cfg) for cfg in configs(quick)]
    with multiprocessing.Pool(int(os.environ.get("KEEP_JOBS", "6"))) as pool:
        results = pool.map(work, cfgs, chunksize=1)
    for c in results:
        for k, v in c["counts"].items():
            total[k] = total.get(k, 0) + v
        for k, v in c["slack"].items():
            slack[k] = min(slack.get(k, v), v)
        print("%-75s %s %s ref->act=%s(tRFC=%d)" % (c["tag"], "FAIL" if c["errors"] else "ok  ",
            " ".join("%s=%d" % kv for kv in sorted(c["counts"].items())), c["ref_to_act_sys"], c["trfc_sys"]))
        for e in c["errors"][:10]:
            print("   ", e)
        bad += len(c["errors"])
        if c["counts"]["ACT"] < 50 or c["counts"]["REF"] < 5:
            print("    not enough activity")
            bad += 1
        if c["ref_to_act_sys"] is not None and c["ref_to_act_sys"] == c["trfc_sys"] + 1:
            fast += 1
    print("totals:", total)
    print("minimum slack (DRAM clocks) per rule:", dict(sorted(slack.items())))
    for k in ["ACT", "PRE", "PREA", "RD", "WR", "REF", "ZQCS"]:
        if total.get(k, 0) == 0:
            print("command never seen:", k)
            bad += 1
    if total.get("RDA", 0) + total.get("WRA", 0) == 0:
        print("auto-precharge never seen")
        bad += 1
    if EXPECT_FAST_ACTIVATE and fast == 0:
        print("the activate-from-REGULAR path (ACT tRFC+1 controller cycles after REF) was never taken")
        bad += 1
    print("FAIL" if bad else "PASS")
    sys.exit(1 if bad else 0)

if __name__ == "__main__":
    main()
