"""keep_3 check (bank machine: lock derived from an explicit outstanding-request counter).

Run from the root of a tree with keep_3.diff applied. Drives the REAL code:
 * full system (crossbar + controller with the real bank machines, refresher, multiplexer) on a
   behavioural DFI DRAM model, 12 adversarial / random scenarios: the complete port-level event trace
   must be IDENTICAL to the trace of the unmodified tree (digests recorded with this script on the
   unmodified tree); latency bounds and read data are checked as well;
 * on every cycle and bank, req.lock is compared with the ORIGINAL expression
   (lookahead.source.valid | buffer.source.valid | lookahead.level != 0) and with an independent
   count of accepted-but-unanswered requests;
 * a single real BankMachine under random requests / back-pressure / refresh for cmd_buffer_depth
   0,1,2,3,4,8,16 x buffered/unbuffered: same comparison, and the lock is released after a drain.
Exit status 0 = all good.
"""
# ---- shared harness (inlined in every keep_k.py) ---------------------------------------------------
# Full system: real LiteDRAMCrossbar + real LiteDRAMController (BankMachines, Multiplexer, Refresher)
# on top of a behavioural DFI memory model written as a simulation generator.
import os, sys, random, hashlib, math
sys.path.insert(0, os.getcwd())

from migen import *
from migen.sim import run_simulation

from litedram.common import PhySettings, GeomSettings, TimingSettings, burst_lengths
from litedram.core.controller import ControllerSettings, LiteDRAMController
from litedram.core.crossbar import LiteDRAMCrossbar


class System(Module):
    def __init__(self, nports, nphases=2, memtype="DDR2", depth=4, buffered=False, read_time=16,
                 write_time=8, auto_precharge=True, tccd=1, tfaw=None, read_latency=4,
                 write_latency=1, with_refresh=True, bankbits=2):
        rdphase, wrphase = (0, 0) if nphases == 1 else (nphases - 1, nphases - 2)
        phy = PhySettings(phytype="model", memtype=memtype, databits=8, dfi_databits=16,
            nphases=nphases, rdphase=rdphase, wrphase=wrphase, cl=2, cwl=2,
            read_latency=read_latency, write_latency=write_latency)
        geom   = GeomSettings(bankbits=bankbits, rowbits=13, colbits=10)
        timing = TimingSettings(tRP=2, tRCD=2, tWR=2, tWTR=2, tREFI=128, tRFC=5, tFAW=tfaw,
            tCCD=tccd, tRRD=2, tRC=6, tRAS=4, tZQCS=None)
        cs = ControllerSettings(cmd_buffer_depth=depth, cmd_buffer_buffered=buffered,
            read_time=read_time, write_time=write_time, with_auto_precharge=auto_precharge,
            with_refresh=with_refresh)
        self.phy, self.geom, self.timing, self.cs = phy, geom, timing, cs
        self.submodules.controller = LiteDRAMController(phy, geom, timing, 100e6, cs)
        self.submodules.crossbar   = LiteDRAMCrossbar(self.controller.interface)
        self.ports   = [self.crossbar.get_port() for _ in range(nports)]
        self.align   = int(math.log2(1 if memtype == "SDR" else burst_lengths[memtype])) \
                       if memtype != "SDR" else int(math.log2(nphases))
        self.colbits_p = geom.colbits - self.align
        self.bankbits  = bankbits
        self.dw        = phy.dfi_databits*nphases

    def addr(self, bank, row, col):
        return (row << (self.colbits_p + self.bankbits)) | (bank << self.colbits_p) | col


def default_data(key, dw):
    h = hashlib.md5(repr(key).encode()).digest()
    return int.from_bytes(h, "little") & (2**dw - 1)


def dfi_model(dut, log, ncycles):
    """Behavioural DRAM behind the DFI: open-row tracking + data storage."""
    dfi   = dut.controller.dfi
    phy   = dut.phy
    mem   = {}
    rows  = {}
    wr_q  = {}   # cycle -> key
    rd_q  = {}   # cycle -> key
    nph   = len(dfi.phases)
    dwp   = phy.dfi_databits
    rdv   = False
    for cyc in range(ncycles):
        # 1. capture the write data that is due this cycle
        if cyc in wr_q:
            key  = wr_q.pop(cyc)
            data = 0
            mask = 0
            for i, p in enumerate(dfi.phases):
                data |= (yield p.wrdata) << (i*dwp)
                mask |= (yield p.wrdata_mask) << (i*dwp//8)
            old = mem.get(key, default_data(key, dut.dw))
            new = 0
            for b in range(dut.dw//8):
                src = old if (mask >> b) & 1 else data
                new |= src & (0xff << (8*b))
            mem[key] = new
        # 2. decode commands
        ncas = 0
        for i, p in enumerate(dfi.phases):
            cas = not (yield p.cas_n)
            ras = not (yield p.ras_n)
            if not (cas or ras):
                continue
            we  = not (yield p.we_n)
            if (yield p.cs_n):
                continue
            a   = (yield p.address)
            ba  = (yield p.bank)
            if ras and not cas and not we:      # ACTIVATE
                assert rows.get(ba) is None, "cycle %d: ACTIVATE of bank %d with an open row" % (cyc, ba)
                rows[ba] = a
                log["act"] += 1
            elif ras and not cas and we:        # PRECHARGE
                if a & (1 << 10):
                    rows.clear()
                else:
                    rows.pop(ba, None)
            elif ras and cas and not we:        # REFRESH
                assert not rows, "cycle %d: REFRESH with open rows" % cyc
                log["refresh"] += 1
            elif cas and not ras:               # READ / WRITE
                ncas += 1
                assert rows.get(ba) is not None, "cycle %d: CAS to closed bank %d" % (cyc, ba)
                key = (ba, rows[ba], a & ~(1 << 10))
                if we:
                    assert (yield p.wrdata_en)
                    assert i == phy.wrphase
                    assert (cyc + phy.write_latency) not in wr_q
                    wr_q[cyc + phy.write_latency] = key
                else:
                    assert (yield p.rddata_en)
                    assert i == phy.rdphase
                    rd_q[cyc + phy.read_latency - 1] = key
                if a & (1 << 10):
                    rows.pop(ba, None)
        assert ncas <= 1
        # 3. drive read data (visible next cycle)
        if cyc in rd_q:
            key  = rd_q.pop(cyc)
            data = mem.get(key, default_data(key, dut.dw))
            log["reads"] += 1
            for i, p in enumerate(dfi.phases):
                yield p.rddata.eq((data >> (i*dwp)) & (2**dwp - 1))
                yield p.rddata_valid.eq(1)
            rdv = True
        elif rdv:
            for p in dfi.phases:
                yield p.rddata_valid.eq(0)
            rdv = False
        yield


def wdata_of(pid, seq, dw):
    return default_data(("w", pid, seq), dw)


class PortAgent:
    """Drives one native port from a schedule generator and records per-command timing."""
    def __init__(self, dut, pid, schedule):
        self.dut, self.pid, self.port = dut, pid, dut.ports[pid]
        self.schedule  = schedule      # iterator of (we, addr, gap_before)
        self.shadow    = {}
        self.offer_lat = []            # cycles from first valid to accept
        self.data_lat  = []            # cycles from accept to wdata.ready / rdata.valid
        self.wr_acc    = []            # accept cycle of writes not strobed yet
        self.rd_acc    = []            # (accept cycle, expected data)
        self.events    = []            # (cycle, kind) for the golden digest
        self.pending_since = None
        self.n_done    = 0

    def driver(self, ncycles):
        port, dut = self.port, self.dut
        cyc   = 0
        wseq  = 0      # writes accepted
        sseq  = 0      # strobes seen
        cur   = None
        nxt   = None
        wait  = 0
        exhausted = False
        yield port.wdata.valid.eq(1)
        yield port.wdata.we.eq(2**(dut.dw//8) - 1)
        yield port.wdata.data.eq(wdata_of(self.pid, 0, dut.dw))
        yield port.rdata.ready.eq(1)
        presented = False
        while cyc < ncycles:
            # ---- observe (values of this cycle)
            if presented and (yield port.cmd.ready):
                we, addr = cur
                self.offer_lat.append(cyc - self.pending_since)
                self.events.append((cyc, "A", we, addr))
                if we:
                    self.shadow[addr] = wdata_of(self.pid, wseq, dut.dw)
                    wseq += 1
                    self.wr_acc.append(cyc)
                else:
                    exp = self.shadow.get(addr)
                    self.rd_acc.append((cyc, addr, exp))
                cur, presented, self.pending_since = None, False, None
            if (yield port.wdata.ready):
                assert self.wr_acc, "port %d: wdata.ready without an accepted write (cycle %d)" % (self.pid, cyc)
                t = self.wr_acc.pop(0)
                self.data_lat.append(cyc - t)
                self.events.append((cyc, "W"))
                sseq += 1
                self.n_done += 1
                yield port.wdata.data.eq(wdata_of(self.pid, sseq, dut.dw))
            if (yield port.rdata.valid):
                assert self.rd_acc, "port %d: rdata.valid without an accepted read (cycle %d)" % (self.pid, cyc)
                t, addr, exp = self.rd_acc.pop(0)
                got = (yield port.rdata.data)
                if exp is None:
                    # never written by this port: the model default (address regions are private)
                    pass
                else:
                    assert got == exp, "port %d: read of %x returned %x, expected %x (cycle %d)" % (
                        self.pid, addr, got, exp, cyc)
                self.data_lat.append(cyc - t)
                self.events.append((cyc, "R", got))
                self.n_done += 1
            # ---- drive (takes effect next cycle)
            if cur is None:
                if nxt is None and not exhausted:
                    nxt = next(self.schedule, None)
                    if nxt is None:
                        exhausted = True
                    else:
                        wait = nxt[2]
                if nxt is not None:
                    if wait == 0:
                        cur, nxt = (nxt[0], nxt[1]), None
                    else:
                        wait -= 1
                if cur is not None:
                    yield port.cmd.valid.eq(1)
                    yield port.cmd.we.eq(cur[0])
                    yield port.cmd.addr.eq(cur[1])
                    presented = True
                    self.pending_since = cyc + 1
                else:
                    yield port.cmd.valid.eq(0)
            yield
            cyc += 1
        self.end_cycle = cyc
# ---- traffic schedules + runner (inlined in every keep_k.py) --------------------------------------
def sched(dut, pid, kind, rng, n):
    """Adversarial / random schedules. Every port owns a private set of columns (col % 8 == pid), so
    that the data a port reads back only depends on its own program order."""
    nb = 2**dut.bankbits
    def col():
        return (rng.randrange(8) << 3) | pid
    own = pid % nb
    if kind == "own_w":           # continuous writes to the port's private bank, one row
        for _ in range(n):
            yield 1, dut.addr(own, 1, col()), 0
    elif kind == "own_r":
        for _ in range(n):
            yield 0, dut.addr(own, 1, col()), 0
    elif kind == "own_altrows_w": # continuous writes to the private bank, alternating rows
        for i in range(n):
            yield 1, dut.addr(own, 2 + (i & 1), col()), 0
    elif kind == "own_altrows_r":
        for i in range(n):
            yield 0, dut.addr(own, 2 + (i & 1), col()), 0
    elif kind == "own_random":    # random direction / row / gaps, private bank
        for _ in range(n):
            gap = rng.choice([0, 0, 0, 0, 1, 2, 5, 17])
            yield int(rng.random() < 0.5), dut.addr(own, rng.randrange(3), col()), gap
    elif kind == "own_sparse_r":  # isolated reads on the private bank
        for _ in range(n):
            yield 0, dut.addr(own, rng.randrange(2), col()), rng.randrange(0, 30)
    elif kind == "own_sparse_w":
        for _ in range(n):
            yield 1, dut.addr(own, rng.randrange(2), col()), rng.randrange(0, 30)
    elif kind == "hammer_w":        # continuous writes, one bank, one row
        for _ in range(n):
            yield 1, dut.addr(0, 1, col()), 0
    elif kind == "hammer_r":      # continuous reads, one bank, one row
        for _ in range(n):
            yield 0, dut.addr(0, 1, col()), 0
    elif kind == "altrows_w":     # continuous writes, one bank, alternating rows
        for i in range(n):
            yield 1, dut.addr(0, 2 + (i & 1), col()), 0
    elif kind == "altrows_r":
        for i in range(n):
            yield 0, dut.addr(0, 2 + (i & 1), col()), 0
    elif kind == "sweep_w":       # continuous writes walking over the banks
        for i in range(n):
            yield 1, dut.addr(i % nb, 1, col()), 0
    elif kind == "sweep_r":
        for i in range(n):
            yield 0, dut.addr(i % nb, 1, col()), 0
    elif kind == "bursty":        # bursts to one bank, then a pause that lets the bank drain
        i = 0
        while i < n:
            b, r, we = rng.randrange(nb), rng.randrange(3), rng.random() < 0.5
            ln = rng.randrange(1, 9)
            for k in range(ln):
                yield int(we), dut.addr(b, r, col()), (rng.randrange(0, 40) if k == 0 else 0)
            i += ln
    elif kind == "random":
        for _ in range(n):
            gap = rng.choice([0, 0, 0, 1, 2, 5, 17])
            yield int(rng.random() < 0.5), dut.addr(rng.randrange(nb), rng.randrange(3), col()), gap
    elif kind == "victim_r":      # sparse single reads on its own bank
        for _ in range(n):
            yield 0, dut.addr(nb - 1, rng.randrange(2), col()), rng.randrange(0, 12)
    elif kind == "victim_w":
        for _ in range(n):
            yield 1, dut.addr(nb - 1, rng.randrange(2), col()), rng.randrange(0, 12)
    elif kind == "victim_rw":     # write then read back, own bank
        for _ in range(n):
            a = dut.addr(nb - 1, rng.randrange(2), col())
            yield 1, a, rng.randrange(0, 12)
            yield 0, a, rng.randrange(0, 3)
    else:
        raise ValueError(kind)


def run(cfg, kinds, seed, ncycles, extra_generators=None, n=10**9):
    rng    = random.Random(seed)
    dut    = System(nports=len(kinds), **cfg)
    log    = {"act": 0, "refresh": 0, "reads": 0}
    agents = [PortAgent(dut, i, sched(dut, i, k, random.Random(rng.random()), n)) for i, k in enumerate(kinds)]
    gens   = [dfi_model(dut, log, ncycles)] + [a.driver(ncycles) for a in agents]
    for g in (extra_generators or []):
        gens.append(g(dut, ncycles))
    run_simulation(dut, gens)
    return dut, agents, log


def digest(agents):
    h = hashlib.sha256()
    for a in agents:
        h.update(repr(a.events).encode())
    return h.hexdigest()[:16]
# ---- scenarios -------------------------------------------------------------------------------------
SDR  = dict(nphases=1, memtype="SDR")
DDR3 = dict(nphases=4, memtype="DDR3", buffered=True, tccd=2, tfaw=10)

# (name, cfg, kinds, seed, ncycles, private_banks)
SCENARIOS = [
    ("P1", dict(),                                ["own_w", "own_r", "own_altrows_w", "own_sparse_r"], 11, 1000, True),
    ("P2", dict(SDR, depth=2),                    ["own_r", "own_r", "own_sparse_w"],                  12, 1000, True),
    ("P3", dict(DDR3),                            ["own_altrows_r", "own_w", "own_random"],            13, 1000, True),
    ("P4", dict(depth=1, read_time=4, write_time=4), ["own_random", "own_random", "own_random"],       14, 1000, True),
    ("P5", dict(auto_precharge=False, read_time=8, write_time=24), ["own_w", "own_w", "own_sparse_r"], 15, 1000, True),
    ("P6", dict(DDR3, depth=8, auto_precharge=False), ["own_r", "own_altrows_w", "own_sparse_w", "own_random"], 16, 1000, True),
    ("S1", dict(),                                ["random", "random", "random"],                      21, 1000, False),
    ("S2", dict(buffered=True),                   ["hammer_w", "victim_r", "bursty"],                  22, 1000, False),
    ("S3", dict(SDR),                             ["hammer_r", "victim_w", "bursty"],                  23, 1000, False),
    ("S4", dict(DDR3),                            ["altrows_w", "altrows_r", "random"],                24, 1000, False),
    ("S5", dict(depth=2),                         ["sweep_w", "sweep_r", "victim_rw"],                 25, 1000, False),
    ("S6", dict(depth=0),                         ["random", "bursty", "sweep_r"],                     26, 1000, False),
]


def stats(agents, ncycles):
    offer, data = 0, 0
    for a in agents:
        offer = max([offer] + a.offer_lat)
        data  = max([data] + a.data_lat)
        if a.pending_since is not None:
            offer = max(offer, ncycles - a.pending_since)
        for t in a.wr_acc[:1]:
            data = max(data, ncycles - t)
        for t in a.rd_acc[:1]:
            data = max(data, ncycles - t[0])
    return offer, data, sum(a.n_done for a in agents)
# Digests of the complete port-level event traces (cycle of every cmd accept, wdata.ready, rdata.valid
# and the read data) recorded with this very script on the UNMODIFIED tree.
GOLDEN = {
    "P1": "405eff0d5cda4894", "P2": "b66a84ab7e6c39e3", "P3": "c3aab50c3c60cc2c", "P4": "ff2e50510b175aeb",
    "P5": "47ff68cc419a37ba", "P6": "0e544dd56ef051b7", "S1": "3f43384ce989521a", "S2": "8b10d812d9d8f211",
    "S3": "fbab1bf2fa8a0d21", "S4": "d93947c6af5092da", "S5": "0900ce543cf43802", "S6": "e8a21820d2dc232c",
}
# ---- keep_3 specific: lock == original lock expression, every cycle, every bank --------------------
import traceback
from litex.soc.interconnect import stream as _stream
from litedram.core.bankmachine import BankMachine


def lock_monitor(dut, ncycles):
    bms = [m for _, m in dut.controller._submodules if isinstance(m, BankMachine)]
    assert len(bms) == 2**dut.bankbits
    parts = []
    for bm in bms:
        la  = [m for _, m in bm._submodules if isinstance(m, _stream.SyncFIFO)]
        buf = [m for _, m in bm._submodules if isinstance(m, _stream.Buffer)]
        assert len(la) == 1 and len(buf) == 1
        parts.append((bm, la[0], buf[0]))
    dut.lock_checked = 0
    dut.lock_high    = 0
    inflight = [0]*len(bms)
    for cyc in range(ncycles):
        for i, (bm, la, buf) in enumerate(parts):
            lock = (yield bm.req.lock)
            ref  = (yield la.source.valid) | (yield buf.source.valid) | ((yield la.level) != 0)
            assert lock == ref, "cycle %d bank %d: lock=%d, original expression=%d" % (cyc, i, lock, ref)
            # independent bookkeeping: requests accepted from the crossbar and not answered yet
            if dut.cs.cmd_buffer_depth > 0:
                assert lock == (inflight[i] != 0), "cycle %d bank %d: lock=%d with %d requests in flight" % (
                    cyc, i, lock, inflight[i])
            acc  = (yield bm.req.valid) & (yield bm.req.ready)
            done = (yield bm.req.wdata_ready) | (yield bm.req.rdata_valid)
            inflight[i] += acc - done
            assert 0 <= inflight[i] <= dut.cs.cmd_buffer_depth + 3
            dut.lock_high += lock
        dut.lock_checked += 1
        yield

class BMOnly(Module):
    def __init__(self, depth, buffered):
        phy  = PhySettings(phytype="model", memtype="DDR2", databits=8, dfi_databits=16, nphases=2,
            rdphase=1, wrphase=0, cl=2, cwl=2, read_latency=4, write_latency=1)
        cs   = ControllerSettings(cmd_buffer_depth=depth, cmd_buffer_buffered=buffered)
        cs.phy, cs.geom = phy, GeomSettings(bankbits=2, rowbits=13, colbits=10)
        cs.timing = TimingSettings(tRP=2, tRCD=2, tWR=2, tWTR=2, tREFI=128, tRFC=5, tFAW=None,
            tCCD=1, tRRD=2, tRC=6, tRAS=4, tZQCS=None)
        self.cs = cs
        self.submodules.bm = BankMachine(0, address_width=21, address_align=2, nranks=1, settings=cs)


def bm_only_case(args):
    """A single real BankMachine under random requests, random multiplexer back-pressure and random
    refresh requests: lock must equal the original expression on every cycle and must drop once
    everything has drained."""
    depth, buffered, seed, ncycles = args
    rng = random.Random(seed)
    dut = BMOnly(depth, buffered)
    bm  = dut.bm
    la  = [m for _, m in bm._submodules if isinstance(m, _stream.SyncFIFO)][0]
    buf = [m for _, m in bm._submodules if isinstance(m, _stream.Buffer)][0]
    res = {"n": 0, "max": 0, "high": 0, "acc": 0}
    def gen():
        inflight = 0
        pv       = rng.choice([0.3, 0.7, 0.95])
        for cyc in range(ncycles):
            drain = cyc > ncycles - 150        # stop offering: the lock has to go away
            lock = (yield bm.req.lock)
            ref  = (yield la.source.valid) | (yield buf.source.valid) | ((yield la.level) != 0)
            assert lock == ref, "cycle %d: lock=%d, original expression=%d" % (cyc, lock, ref)
            if depth > 0:
                assert lock == (inflight != 0), "cycle %d: lock=%d, %d in flight" % (cyc, lock, inflight)
            acc  = (yield bm.req.valid) & (yield bm.req.ready)
            done = (yield bm.req.wdata_ready) | (yield bm.req.rdata_valid)
            inflight += acc - done
            res["acc"] += acc
            res["max"]  = max(res["max"], inflight)
            res["high"] += lock
            res["n"]   += 1
            if cyc % 97 == 0:
                pv = rng.choice([0.3, 0.7, 0.95])
            # a native port holds valid until accepted
            if not (yield bm.req.valid) or acc:
                yield bm.req.valid.eq(int(rng.random() < pv and not drain))
                yield bm.req.we.eq(rng.randrange(2))
                yield bm.req.addr.eq((rng.randrange(3) << 8) | rng.randrange(16))
            yield bm.cmd.ready.eq(int(rng.random() < 0.6 or drain))
            if (yield bm.refresh_req):
                if (yield bm.refresh_gnt) and rng.random() < 0.3:
                    yield bm.refresh_req.eq(0)
            elif rng.random() < 0.01 and not drain:
                yield bm.refresh_req.eq(1)
            yield
        assert inflight == 0 and not (yield bm.req.lock), "lock still held after the drain"
    try:
        run_simulation(dut, [gen()])
    except Exception:
        return False, "bankmachine-only depth=%d buffered=%d: %s" % (depth, buffered, traceback.format_exc())
    ok = res["n"] == ncycles and res["acc"] > 100 and res["max"] >= min(depth, 2)
    return ok, "bankmachine-only depth=%d buffered=%d: lock == original expression on %d cycles (%d high, %d requests, max %d in flight), released after drain" % (
        depth, buffered, res["n"], res["high"], res["acc"], res["max"])


EXTRA_JOBS  = [(bm_only_case, (d, b, 900 + 2*d + b, 3000)) for d in (0, 1, 2, 3, 4, 8, 16) for b in (False, True)]
MONITOR     = lock_monitor
MONITORED   = {"P2", "P3", "P4", "S1", "S2", "S4", "S6"}
MONITOR_MSG = lambda dut: "lock == original expression on %d cycles x banks (%d with lock high)" % (
    dut.lock_checked, dut.lock_high)
# ---- main ------------------------------------------------------------------------------------------
import multiprocessing, time, traceback


def system_case(sc):
    name, cfg, kinds, seed, n, private = sc
    try:
        extra = [MONITOR] if name in MONITORED else []
        dut, agents, log = run(cfg, kinds, seed, n, extra_generators=extra)
    except Exception:
        return False, "system %s: %s" % (name, traceback.format_exc())
    offer, data, done = stats(agents, n)
    per = dut.cs.read_time + dut.cs.write_time + 40
    data_bound  = (dut.cs.cmd_buffer_depth + 3)*per
    offer_bound = 2*per
    d  = digest(agents)
    ok = data <= data_bound and done > 50 and log["refresh"] >= 5
    if private:
        # with private banks nothing but the multiplexer can delay a port: both latencies are bounded
        ok = ok and offer <= offer_bound and all(a.n_done > 8 for a in agents)
    same = d == GOLDEN[name]
    ok   = ok and same
    msg = "system %s: trace %s unmodified tree (%s); done=%d max offer->accept=%d%s max accept->data=%d (<=%d)" % (
        name, "IDENTICAL to" if same else "DIFFERS from", d, done, offer,
        " (<=%d)" % offer_bound if private else "", data, data_bound)
    if name in MONITORED:
        msg += "; " + MONITOR_MSG(dut)
    return ok, msg


def _dispatch(job):
    return job[0](job[1])


if __name__ == "__main__":
    t0   = time.time()
    bad  = 0
    jobs = [(system_case, sc) for sc in SCENARIOS] + EXTRA_JOBS
    with multiprocessing.Pool(min(8, os.cpu_count() or 2)) as pool:
        for ok, msg in pool.imap(_dispatch, jobs):
            print("ok  " if ok else "FAIL", msg, flush=True)
            bad += not ok
    print("%d jobs, %d failed, %.0f s" % (len(jobs), bad, time.time() - t0))
    sys.exit(1 if bad else 0)
