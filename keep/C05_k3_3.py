# ---- shared harness: real LiteDRAMController + LiteDRAMCrossbar under adversarial / random traffic ----
import os, sys, random, hashlib, itertools
sys.path.insert(0, os.getcwd())

from migen import *
from litedram.common import PhySettings, GeomSettings, TimingSettings
from litedram.core.controller import ControllerSettings, LiteDRAMController
from litedram.core.crossbar import LiteDRAMCrossbar


class DUT(Module):
    def __init__(self, memtype="DDR2", nphases=2, rdphase=0, wrphase=1, read_latency=5, write_latency=1,
                 cl=3, cwl=3, bankbits=2, rowbits=4, colbits=6, nports=3,
                 timing=None, **ctrl):
        phy = PhySettings(phytype="sim", memtype=memtype, databits=8, dfi_databits=16, nphases=nphases,
                          rdphase=rdphase, wrphase=wrphase, cl=cl, cwl=cwl,
                          read_latency=read_latency, write_latency=write_latency)
        geom = GeomSettings(bankbits=bankbits, rowbits=rowbits, colbits=colbits)
        t = dict(tRP=2, tRCD=2, tWR=2, tWTR=2, tREFI=110, tRFC=5, tFAW=None, tCCD=1, tRRD=None,
                 tRC=6, tRAS=4, tZQCS=None)
        t.update(timing or {})
        cs = dict(cmd_buffer_depth=4, read_time=8, write_time=6)
        cs.update(ctrl)
        self.submodules.controller = LiteDRAMController(phy, geom, TimingSettings(**t), clk_freq=100e6,
                                                        controller_settings=ControllerSettings(**cs))
        self.submodules.crossbar = LiteDRAMCrossbar(self.controller.interface)
        self.ports = [self.crossbar.get_port() for _ in range(nports)]
        self.nbanks = 2**bankbits
        self.bankbits = bankbits
        self.colbits_port = colbits - self.controller.interface.address_align
        self.rowbits = rowbits


def mkaddr(dut, bank, row, col):
    # ROW_BANK_COL mapping of the crossbar
    cb = dut.colbits_port
    return (col & (2**cb - 1)) | (bank << cb) | (row << (cb + dut.bankbits))


# traffic patterns: function(port index, n-th command, rng, dut) -> (we, bank, row, col) or None (idle cycle)
def pat_random(p, n, rng, dut):
    if rng.random() < 0.25:
        return None
    return (rng.random() < 0.5, rng.randrange(dut.nbanks), rng.randrange(3), rng.randrange(8))

def pat_same_bank_same_row(p, n, rng, dut):
    # everyone hammers bank 0 row 1; port 0 is the (only) reader, the others write continuously
    return (p != 0, 0, 1, n)

def pat_alternating_rows(p, n, rng, dut):
    # port 0: reads bank 0 row 0; others: writes to bank 0 alternating rows -> continuous row misses
    if p == 0:
        return (False, 0, 0, n)
    return (True, 0, 1 + (n & 1), n)

def pat_write_stream_vs_read(p, n, rng, dut):
    # last port: single reader on its own bank, all the other ports: write stream over all banks
    if p == len(dut.ports) - 1:
        return (False, dut.nbanks - 1, 2, n)
    return (True, (n + p) % dut.nbanks, 0, n)

def pat_read_stream_vs_write(p, n, rng, dut):
    if p == len(dut.ports) - 1:
        return (True, 0, 2, n)
    return (False, (n + p) % dut.nbanks, 0, n)

def pat_bank_hopping(p, n, rng, dut):
    # each port hops over banks (exercises the cross-bank lock), mixed direction
    return ((n + p) & 1 == 0, (n * (p + 1)) % dut.nbanks, p % 3, n)

PATTERNS = [pat_random, pat_same_bank_same_row, pat_alternating_rows, pat_write_stream_vs_read,
            pat_read_stream_vs_write, pat_bank_hopping]


def run(cfg, pattern, seed, cycles=1500, drain=400, trace=True):
    """Returns dict(max_accept, max_strobe, digest, naccepted). Raises AssertionError on lost strobes."""
    dut = DUT(**cfg)
    rng = random.Random(seed)
    np_ = len(dut.ports)
    res = dict(max_accept=0, max_strobe=0, naccepted=0)
    h = hashlib.sha256()
    dfi_sigs = []
    for ph in dut.controller.dfi.phases:
        dfi_sigs += [ph.cas_n, ph.ras_n, ph.we_n, ph.bank, ph.address, ph.rddata_en, ph.wrdata_en]

    def gen():
        pending = [None]*np_        # (we, offered_at)
        count = [0]*np_
        outstanding = [[] for _ in range(np_)]   # per port list of (we, accepted_at), in order
        for port in dut.ports:
            yield port.wdata.valid.eq(1)
            yield port.rdata.ready.eq(1)
        for cyc in range(cycles + drain):
            row = []
            for p, port in enumerate(dut.ports):
                rdy = (yield port.cmd.ready)
                wr = (yield port.wdata.ready)
                rv = (yield port.rdata.valid)
                row += [rdy, wr, rv]
                # strobes: in-order per direction
                if wr:
                    idx = next((i for i, o in enumerate(outstanding[p]) if o[0]), None)
                    assert idx is not None, "spurious wdata.ready on port %d @%d" % (p, cyc)
                    res["max_strobe"] = max(res["max_strobe"], cyc - outstanding[p].pop(idx)[1])
                if rv:
                    idx = next((i for i, o in enumerate(outstanding[p]) if not o[0]), None)
                    assert idx is not None, "spurious rdata.valid on port %d @%d" % (p, cyc)
                    res["max_strobe"] = max(res["max_strobe"], cyc - outstanding[p].pop(idx)[1])
                if pending[p] is not None and rdy:
                    we, t0 = pending[p]
                    res["max_accept"] = max(res["max_accept"], cyc - t0)
                    res["naccepted"] += 1
                    outstanding[p].append((we, cyc))
                    pending[p] = None
                    yield port.cmd.valid.eq(0)
                if pending[p] is None and cyc < cycles:
                    c = pattern(p, count[p], rng, dut)
                    if c is not None:
                        we, bank, r, col = c
                        count[p] += 1
                        pending[p] = (we, cyc + 1)
                        yield port.cmd.valid.eq(1)
                        yield port.cmd.we.eq(int(we))
                        yield port.cmd.addr.eq(mkaddr(dut, bank, r, col))
            if trace:
                for s in dfi_sigs:
                    row.append((yield s))
                h.update(repr(row).encode())
            yield
        for p in range(np_):
            # everything offered before the end must have been accepted and answered during the drain
            assert pending[p] is None, "port %d: command offered never accepted (deadlock/starvation)" % p
            assert not outstanding[p], "port %d: %d accepted commands never got a strobe" % (p, len(outstanding[p]))
            res["still_waiting_%d" % p] = 0

    run_simulation(dut, gen())
    res["digest"] = h.hexdigest()[:16]
    return res


CONFIGS = {
    "sdr1": dict(memtype="SDR", nphases=1, rdphase=0, wrphase=0, read_latency=4, write_latency=0, cl=2, cwl=None, nports=3),
    "ddr2": dict(memtype="DDR2", nphases=2, rdphase=0, wrphase=1, read_latency=5, write_latency=1, nports=3,
                 timing=dict(tCCD=2, tRRD=2, tFAW=8)),
    "ddr3": dict(memtype="DDR3", nphases=4, rdphase=2, wrphase=3, read_latency=6, write_latency=2, cl=6, cwl=5, nports=4,
                 cmd_buffer_depth=8, cmd_buffer_buffered=True, read_time=4, write_time=4),
    "noap": dict(memtype="DDR2", nphases=2, rdphase=1, wrphase=0, read_latency=2, write_latency=0, nports=2,
                 with_auto_precharge=False, read_time=5, write_time=3, bankbits=1),
}


# unmodified-tree reference, cycles=1200, seed 1: (config, pattern index, seed) -> (max offer->accept wait,
# max accept->strobe wait, number of accepted commands, sha256 of the per-cycle trace of every port's
# cmd.ready / wdata.ready / rdata.valid and of all DFI command pins)
REF = {('sdr1', 0, 1): (56, 44, 213, '8c3ddfe91e408425'), ('sdr1', 1, 1): (1230, 24, 1057, '27e2bd6144e83a2a'), ('sdr1', 2, 1): (1233, 27, 1057, '3615b4ada29e591d'), ('sdr1', 3, 1): (1215, 27, 1026, 'a12adbba519046b8'), ('sdr1', 4, 1): (1206, 29, 951, '3ffca8f92cd42f4f'), ('sdr1', 5, 1): (60, 50, 162, '90f9e7c206829c54'), ('ddr2', 0, 1): (81, 71, 185, '71e638befc56b78c'), ('ddr2', 1, 1): (1231, 29, 533, '3b0cdfdcc1c56bbb'), ('ddr2', 2, 1): (1231, 29, 533, '1580ee9fc9e3691d'), ('ddr2', 3, 1): (1211, 48, 517, '0b6e338afd3558f9'), ('ddr2', 4, 1): (1190, 39, 471, '7248c8291b696df3'), ('ddr2', 5, 1): (60, 61, 145, '0c940ce95e278d7d'), ('ddr3', 0, 1): (94, 72, 204, '472d2346898e47c8'), ('ddr3', 1, 1): (1237, 30, 1063, '2ea1a2e7cd40ab83'), ('ddr3', 2, 1): (1237, 30, 1063, '5aba9bc9e7887fd6'), ('ddr3', 3, 1): (1235, 58, 1026, '67c5a3d495cf23d0'), ('ddr3', 4, 1): (1218, 62, 920, '8cf8669dc100a538'), ('ddr3', 5, 1): (1249, 94, 169, '29000dae5d8168d2'), ('noap', 0, 1): (55, 50, 185, 'a7929b1a0b0f8d00'), ('noap', 1, 1): (1205, 21, 1056, 'fffea45eaaf88808'), ('noap', 2, 1): (1205, 25, 1056, 'a63361fd96e38d66'), ('noap', 3, 1): (1204, 25, 1048, '09aaa2ccfae54143'), ('noap', 4, 1): (1194, 25, 995, '3d515ab340bc1520'), ('noap', 5, 1): (1225, 42, 240, '8b26f6a28475b159')}

MODE = "bounded"   # "identical": cycle-exact trace equality with the unmodified tree;  "bounded": liveness bounds only
STROBE_BOUND = 200     # accept -> wdata.ready / rdata.valid (unmodified tree: max 94 over all scenarios)

def job(k):
    cn, pi, seed = k
    r = run(CONFIGS[cn], PATTERNS[pi], seed, cycles=1200)   # asserts: nothing offered/accepted is left unanswered
    return k, (r["max_accept"], r["max_strobe"], r["naccepted"], r["digest"])

if __name__ == "__main__":
    from multiprocessing import Pool
    with Pool(min(8, os.cpu_count() or 1)) as p:
        out = p.map(job, sorted(REF))
    bad = 0
    for k, v in out:
        ref = REF[k]
        ok = v[1] <= STROBE_BOUND
        if MODE == "identical":
            ok = ok and v == ref
        else:
            # a port must never wait longer for acceptance / answer than on the unmodified tree (+ small slack),
            # and the throughput (accepted commands in the window) must not collapse
            # (scenarios where the unmodified tree already keeps one port waiting for the whole window - the
            # per-bank grant does not rotate under a continuous stream - are compared with the unmodified tree;
            # the others, whose schedule is perturbed by the change, against an absolute bound)
            ACCEPT_BOUND = 200
            if ref[0] < ACCEPT_BOUND:
                ok = ok and v[0] <= ACCEPT_BOUND and v[2] >= ref[2] - 16
            else:
                ok = ok and v[0] <= ref[0] + 8 and v[1] <= ref[1] + 8 and v[2] >= ref[2] - 4
        print(k, v, "ref", ref, "OK" if ok else "FAIL")
        bad += not ok
    pass
    print("FAILED" if bad else "PASSED")
    sys.exit(1 if bad else 0)
