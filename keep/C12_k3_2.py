import os, sys, random, subprocess, types
sys.path.insert(0, os.getcwd())

from migen import *
from litedram.common import LiteDRAMNativePort
from litedram.frontend.axi import LiteDRAMAXIPort
import litedram.frontend.dma as dma_new


def load_original():
    """The unmodified dma.py (from git HEAD) as a module, or None."""
    try:
        src = subprocess.check_output(["git", "show", "HEAD:litedram/frontend/dma.py"],
                                      stderr=subprocess.DEVNULL).decode()
    except Exception:
        return None
    m = types.ModuleType("dma_orig")
    exec(compile(src, "dma_orig.py", "exec"), m.__dict__)
    return m


def make_port(kind, mode):
    if kind == "native":
        return LiteDRAMNativePort(mode, address_width=16, data_width=32)
    return LiteDRAMAXIPort(data_width=32, address_width=16)


def fdata(addr, salt):
    return (addr * 0x9E3779B1 + salt * 0x1234567 + 0xABCDEF) & 0xFFFFFFFF


def stall_gen(rng, style):
    """Generator of ready bits: style in 'fast', 'rand', 'bursty' (long stalls), 'slow'."""
    while True:
        if style == "fast":
            yield 1
        elif style == "rand":
            yield rng.randrange(2)
        elif style == "slow":
            yield int(rng.random() < 0.15)
        else:
            for _ in range(rng.randrange(1, 60)):
                yield 0
            for _ in range(rng.randrange(1, 40)):
                yield int(rng.random() < 0.9)


# Reader ---------------------------------------------------------------------------------------------

def run_reader(mod, kind, depth, buffered, seed, n=120, styles=("rand", "rand", "rand", "rand"),
               toggle_enable=False, kwargs=None, max_out=None, check=True):
    """Drives a LiteDRAMDMAReader against a random-latency memory and a stalling consumer.
    Returns the per-cycle trace. Checks the property when check is set (and enable is not toggled)."""
    rng  = random.Random(seed)
    port = make_port(kind, "read")
    made = [mod.LiteDRAMDMAReader(port, fifo_depth=depth, fifo_buffered=buffered, **(kwargs or {}))]
    dut  = made[0]
    if kind == "native":
        cmd, rdata = port.cmd, port.rdata
    else:
        cmd, rdata = port.ar, port.r
    bound = depth if max_out is None else max_out

    addrs = [(rng.randrange(1 << 16), int(rng.random() < 0.2)) for _ in range(n)]
    s_sink, s_cmd, s_mem, s_src = [stall_gen(random.Random(seed * 7 + i), st) for i, st in enumerate(styles)]
    trace = []
    log   = dict(sink=[], cmd=[], src=[], lost=0, maxout=0)

    def tb():
        i        = 0          # next address to offer
        offering = False
        inflight = []         # [addr, remaining latency]
        mem_valid = False
        cycles   = 0
        idle     = 0
        en       = 1
        while cycles < 20000:
            # observe ------------------------------------------------------------------------------
            sv, sr = (yield dut.sink.valid), (yield dut.sink.ready)
            cv, cr = (yield cmd.valid), (yield cmd.ready)
            ca, cl = (yield cmd.addr), (yield cmd.last)
            rv, rr = (yield rdata.valid), (yield rdata.ready)
            ov, orr = (yield dut.source.valid), (yield dut.source.ready)
            od, ol = (yield dut.source.data), (yield dut.source.last)
            trace.append((sv, sr, cv, cr, ca if cv else 0, cl if cv else 0, rv, rr, ov, orr,
                          od if ov else 0, ol if ov else 0))
            if sv and sr:
                log["sink"].append(addrs[i]); i += 1; offering = False
            if cv and cr:
                log["cmd"].append((ca, cl))
                inflight.append([ca, rng.choice([0, 0, 1, 2, 5, 17])])
            if rv and not rr:
                log["lost"] += 1       # a returned word the DMA could not take this cycle
            if rv and rr:
                inflight.pop(0); mem_valid = False
            if ov and orr:
                log["src"].append((od, ol))
            out = len(log["cmd"]) - len(log["src"])
            if en:
                log["maxout"] = max(log["maxout"], out)
            # drive --------------------------------------------------------------------------------
            if toggle_enable and rng.random() < 0.01:
                en ^= 1
                yield dut.enable.eq(en)
            if not offering and i < n and next(s_sink):
                offering = True
                yield dut.sink.address.eq(addrs[i][0])
                yield dut.sink.last.eq(addrs[i][1])
            yield dut.sink.valid.eq(int(offering))
            yield cmd.ready.eq(next(s_cmd))
            for e in inflight:
                e[1] = max(0, e[1] - 1)
            if not mem_valid and inflight and inflight[0][1] == 0 and next(s_mem):
                mem_valid = True
                yield rdata.data.eq(fdata(inflight[0][0], seed))
            yield rdata.valid.eq(int(mem_valid))
            yield dut.source.ready.eq(next(s_src))
            cycles += 1
            if i >= n and not inflight and not offering:
                idle += 1
                if idle > 200:
                    break
            yield
        log["cycles"] = cycles

    run_simulation(dut, tb())
    if check and not toggle_enable:
        tag = (kind, depth, buffered, seed, styles)
        assert log["sink"] == addrs, ("not all addresses accepted", tag, len(log["sink"]))
        assert log["cmd"] == addrs, ("commands differ from accepted addresses", tag)
        exp = [(fdata(a, seed), l) for a, l in addrs]
        assert log["src"] == exp, ("source stream wrong", tag, len(log["src"]))
        assert log["lost"] == 0, ("returned word refused (overrun)", tag, log["lost"])
        assert log["maxout"] <= bound, ("too many outstanding reads", tag, log["maxout"], bound)
    return trace, log


# Writer ---------------------------------------------------------------------------------------------

def run_writer(mod, kind, depth, buffered, seed, n=120, styles=("rand", "rand", "rand"), kwargs=None,
               check=True):
    rng  = random.Random(seed)
    port = make_port(kind, "write")
    made = [mod.LiteDRAMDMAWriter(port, fifo_depth=depth, fifo_buffered=buffered, **(kwargs or {}))]
    dut  = made[0]
    if kind == "native":
        cmd, wdata = port.cmd, port.wdata
    else:
        cmd, wdata = port.aw, port.w
    items = [(rng.randrange(1 << 16), rng.randrange(1 << 32), int(rng.random() < 0.2)) for _ in range(n)]
    s_sink, s_cmd, s_w = [stall_gen(random.Random(seed * 11 + i), st) for i, st in enumerate(styles)]
    trace = []
    log   = dict(sink=[], cmd=[], w=[])

    def tb():
        i = 0
        offering = False
        cycles = 0
        idle = 0
        while cycles < 20000:
            sv, sr = (yield dut.sink.valid), (yield dut.sink.ready)
            cv, cr = (yield cmd.valid), (yield cmd.ready)
            ca, cl = (yield cmd.addr), (yield cmd.last)
            wv, wr = (yield wdata.valid), (yield wdata.ready)
            wd     = (yield wdata.data)
            we     = (yield wdata.we) if kind == "native" else (yield wdata.strb)
            cwe    = (yield cmd.we) if kind == "native" else 1
            trace.append((sv, sr, cv, cr, ca if cv else 0, cl if cv else 0, wv, wr, wd if wv else 0))
            if sv and sr:
                log["sink"].append(items[i]); i += 1; offering = False
            if cv and cr:
                assert cwe == 1
                log["cmd"].append((ca, cl))
            if wv and wr:
                assert we == 0xF
                log["w"].append(wd)
            assert len(log["w"]) <= len(log["cmd"]), "data written before its command"
            if not offering and i < n and next(s_sink):
                offering = True
                yield dut.sink.address.eq(items[i][0])
                yield dut.sink.data.eq(items[i][1])
                yield dut.sink.last.eq(items[i][2])
            yield dut.sink.valid.eq(int(offering))
            yield cmd.ready.eq(next(s_cmd))
            yield wdata.ready.eq(next(s_w))
            cycles += 1
            if i >= n and not offering:
                idle += 1
                if idle > 300:
                    break
            yield

    run_simulation(dut, tb())
    if check:
        tag = (kind, depth, buffered, seed, styles)
        assert log["sink"] == items, ("not all pairs accepted", tag, len(log["sink"]))
        assert log["cmd"] == [(a, l) for a, d, l in items], ("commands wrong", tag)
        assert log["w"] == [d for a, d, l in items], ("data wrong / not paired", tag, len(log["w"]))
    return trace, log

STYLES = ["fast", "rand", "bursty", "slow"]

# keep_2: LiteDRAMDMAReader max_outstanding parameter ---------------------------------------------------
if __name__ == "__main__":
    orig = load_original()
    rng  = random.Random(2)
    runs = 0
    # illegal values are refused at build time (more reads than FIFO slots would allow overrun)
    for bad in [0, 5, 17]:
        try:
            dma_new.LiteDRAMDMAReader(make_port("native", "read"), fifo_depth=4, max_outstanding=bad)
        except AssertionError:
            pass
        else:
            raise SystemExit("max_outstanding=%d accepted with fifo_depth=4" % bad)
    for kind in ["native", "axi"]:
        for depth in [1, 2, 3, 4, 8, 16]:
            for buffered in [False, True]:
                if depth == 1 and buffered:
                    continue
                # default: identical to the unmodified reader, cycle by cycle
                seed   = rng.randrange(1 << 30)
                styles = tuple(rng.choice(STYLES) for _ in range(3)) + (rng.choice(["bursty", "slow", "rand"]),)
                tr, log = run_reader(dma_new, kind, depth, buffered, seed, n=70, styles=styles)
                runs += 1
                if orig is not None:
                    tr0, _ = run_reader(orig, kind, depth, buffered, seed, n=70, styles=styles)
                    assert tr == tr0, ("default differs from unmodified reader", kind, depth, buffered, seed)
                    tr1, _ = run_reader(dma_new, kind, depth, buffered, seed, n=70, styles=styles,
                                        kwargs=dict(max_outstanding=depth))
                    assert tr1 == tr0
                # every legal bound (sampled for the deep FIFOs)
                mos = list(range(1, depth + 1)) if depth <= 4 else sorted({1, 2, depth // 2, depth - 1, depth})
                for mo in mos:
                    seed   = rng.randrange(1 << 30)
                    styles = tuple(rng.choice(STYLES) for _ in range(3)) + (rng.choice(["bursty", "slow", "rand"]),)
                    tr, log = run_reader(dma_new, kind, depth, buffered, seed, n=70, styles=styles,
                                         kwargs=dict(max_outstanding=mo), max_out=mo)
                    runs += 1
                    # the bound is reached when the consumer stalls long enough (it is not over-conservative)
                    if styles[3] == "bursty" and styles[0] != "slow" and styles[1] != "slow":
                        assert log["maxout"] == mo, (kind, depth, buffered, mo, log["maxout"], styles)
    print("keep_2 OK, %d property runs%s" % (runs, "" if orig is not None else " (no git: comparison skipped)"))
