#!/usr/bin/env python3
# Check for change 2: LPDDR4 RL / WL / nWR mode register fields encoded by the index of a single
# speed-bin table instead of three separate {value: opcode} dictionaries.
import os, sys, inspect
sys.path.insert(0, os.getcwd())

from litedram import init
from litedram.common import PhySettings
from litedram.init import get_sdram_phy_init_sequence, get_sdram_phy_py_header, cmds

assert "speed_bin" in inspect.getsource(init.get_lpddr4_phy_init_sequence), "change 2 not applied"

# JEDEC JESD209-4 decode tables, written out independently of the generator.
RL_DEC  = {0b000: 6, 0b001: 10, 0b010: 14, 0b011: 20, 0b100: 24, 0b101: 28, 0b110: 32, 0b111: 36}  # MR2 OP[2:0], DBI off
WL_DEC  = {0b000: 4, 0b001: 6, 0b010: 8, 0b011: 10, 0b100: 12, 0b101: 14, 0b110: 16, 0b111: 18}    # MR2 OP[5:3], set A
NWR_DEC = {0b000: 6, 0b001: 10, 0b010: 16, 0b011: 20, 0b100: 24, 0b101: 30, 0b110: 34, 0b111: 40}  # MR1 OP[6:4]
# Table 28 rows (RL, WL set A, nWR)
TABLE28 = [(6, 4, 6), (10, 6, 10), (14, 8, 16), (20, 10, 20), (24, 12, 24), (28, 14, 30), (32, 16, 34), (36, 18, 40)]
VALID = {(rl, wl): nwr for rl, wl, nwr in TABLE28}

# Values the unmodified generator produced for the default electrical settings (golden).
GOLD_OTHER = {3: 0x11, 11: 0x22, 12: 0x55, 13: 0, 14: 0x55}

def mk(cl, cwl, **extra):
    ps = PhySettings(phytype="LPDDR4SimPHY", memtype="LPDDR4", databits=16, dfi_databits=32,
        nphases=8, rdphase=1, wrphase=2, cl=cl, cwl=cwl, read_latency=8, write_latency=2,
        write_leveling=True, read_leveling=True, bitslips=16, delays=8)
    for k, v in extra.items():
        setattr(ps, k, v)
    return ps

def check(ps):
    cl, cwl = ps.cl, ps.cwl
    seq, mr = get_sdram_phy_init_sequence(ps, None)
    assert sorted(mr) == [1, 2, 3, 11, 12, 13, 14]
    for v in mr.values():
        assert 0 <= v < 256
    mr1, mr2 = mr[1], mr[2]
    assert mr1 & 0b11 == 0                 # BL16
    assert (mr1 >> 2) & 1 == 1 and (mr1 >> 3) & 1 == 0 and (mr1 >> 7) == 0
    assert RL_DEC[mr2 & 7] == cl
    assert WL_DEC[(mr2 >> 3) & 7] == cwl
    assert (mr2 >> 6) == 0                 # WL set A, write leveling off
    assert NWR_DEC[(mr1 >> 4) & 7] == VALID[(cl, cwl)]
    # golden full value (what the dictionaries produced)
    idx = [r[0] for r in TABLE28].index(cl)
    assert mr1 == 0b100 | (idx << 4) and mr2 == idx | (idx << 3)
    # sequence carries exactly these registers, sorted, as MRW a=op ba=ma
    mrw = [(ba, a) for c, a, ba, cmd, d in seq if cmd == cmds["MODE_REGISTER"]]
    assert mrw == sorted(mr.items())
    assert [s[0] for s in seq[:3]] == ["Assert reset", "Release reset", "Bring CKE high"]
    # python header describes the same sequence
    env = {}
    exec(get_sdram_phy_py_header(ps, None), env)
    assert [(c, a, ba, d) for c, a, ba, _, d in env["init_sequence"]] == [(c, a, ba, d) for c, a, ba, _, d in seq]
    assert env["ddrx_mr1"] == mr1
    return mr

# 1) exhaustive (cl, cwl) grid: valid pairs encode correctly, everything else is rejected.
ok = bad = 0
for cl in range(0, 48):
    for cwl in range(0, 40):
        ps = mk(cl, cwl)
        if (cl, cwl) in VALID:
            mr = check(ps)
            for k, v in GOLD_OTHER.items():
                assert mr[k] == v, (k, hex(mr[k]))
            ok += 1
        else:
            try:
                get_sdram_phy_init_sequence(ps, None)
            except (AssertionError, ValueError, KeyError):
                bad += 1
            else:
                raise SystemExit("invalid pair accepted: %r" % ((cl, cwl),))
assert ok == 8 and bad == 48*40 - 8

# 2) electrical options do not disturb MR1/MR2.
for odt in ["disable", "RZQ/1", "RZQ/3", "RZQ/6"]:
    for (cl, cwl) in VALID:
        check(mk(cl, cwl, dq_odt=odt, ca_odt=odt, pull_down_drive_strength="RZQ/6" if odt == "disable" else odt,
                 vref_ca_range=0, vref_ca=20.0, vref_dq_range=1, vref_dq=42.0))

# 3) every (cl, cwl) pair the real LPDDR4 PHY can select (its table is local to BasePHY.__init__, and the
#    PHY itself cannot be instantiated with this LiteX/Python combination, so read the table from the source).
import re
import litedram.phy.lpddr4.basephy as basephy
src = inspect.getsource(basephy)
seen = {(int(a), int(b)) for a, b in re.findall(r"f_to_cl_cwl\[\s*[0-9.e]+\]\s*=\s*\(\s*(\d+),\s*(\d+)\)", src)}
assert len(seen) == 8, seen
for cl, cwl in sorted(seen):
    check(mk(cl, cwl))

print("keep_2 OK:", ok, "valid pairs,", bad, "rejected,", len(seen), "PHY-selected pairs")
