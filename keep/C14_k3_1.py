import os, sys
sys.path.insert(0, os.getcwd())
from functools import reduce
from operator import xor
import random

from migen import *
from litedram.frontend.bist import LFSR, Generator


class RefLFSR(Module):
    """Verbatim copy of the unmodified LFSR."""
    def __init__(self, n_out, n_state, taps):
        self.o = Signal(n_out)
        state  = Signal(n_state)
        curval = [state[i] for i in range(n_state)]
        curval += [0]*(n_out - n_state)
        for i in range(n_out):
            nv = ~reduce(xor, [curval[tap] for tap in taps])
            curval.insert(0, nv)
            curval.pop()
        self.sync += state.eq(Cat(*curval[:n_state]))
        self.comb += self.o.eq(Cat(*curval))


def py_lfsr(n_out, n_state, taps, steps):
    state, out = [0]*n_state, []
    for _ in range(steps):
        cur = state + [0]*(n_out - n_state)
        for _ in range(n_out):
            nv = 1
            for t in taps:
                nv ^= cur[t]
            cur.insert(0, nv)
            cur.pop()
        out.append(sum(b << i for i, b in enumerate(cur[:n_out])))
        state = cur[:n_state]
    return out


def check(n_out, n_state, taps, steps=300):
    class DUT(Module):
        def __init__(self):
            self.submodules.new = LFSR(n_out, n_state, taps)
            self.submodules.ref = RefLFSR(n_out, n_state, taps)
    dut = DUT()
    exp = py_lfsr(n_out, n_state, taps, steps)
    def gen():
        for i in range(steps):
            a, b = (yield dut.new.o), (yield dut.ref.o)
            assert a == b == exp[i], (n_out, n_state, taps, i, a, b, exp[i])
            yield
    run_simulation(dut, [gen()])


def check_generator(steps=400):
    # the BIST instance (PRBS31), through Generator with ce gaps and both modes
    dut = Generator(31, n_state=31, taps=[27, 30])
    exp = py_lfsr(31, 31, [27, 30], steps)
    prng = random.Random(1)
    def gen():
        yield dut.random_enable.eq(1)
        n = 0
        while n < steps - 1:
            ce = prng.randrange(2)
            yield dut.ce.eq(ce)
            yield
            assert (yield dut.o) == exp[n]
            n += ce
        yield dut.random_enable.eq(0)
        yield dut.ce.eq(0)
        yield
        assert (yield dut.o) == n   # counter advanced by the same number of enables
    run_simulation(dut, [gen()])


if __name__ == "__main__":
    check(31, 31, [27, 30])
    check(23, 23, [17, 22])
    check(8, 31, [27, 30])
    check(40, 31, [27, 30], steps=100)
    check(16, 15, [13, 14])
    check(7, 7, [5, 6])
    check_generator()
    print("keep_1 OK")
