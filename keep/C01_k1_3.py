# ---- whole-core harness (crossbar + controller + SDRAMPHYModel), shared by the keep_*.py scripts ----
import os, sys, random, types, math
from collections import deque
sys.path.insert(0, os.getcwd())

from migen import *
from migen.fhdl.specials import Memory

from litedram.common import *
from litedram.phy.model import SDRAMPHYModel, BankModel, get_sdram_phy_settings
from litedram.core.controller import ControllerSettings, LiteDRAMController
from litedram.core.crossbar import LiteDRAMCrossbar


class CheckError(Exception):
    pass


class Core(Module):
    """Real crossbar + real controller (bank machines, multiplexer, refresher) + DFI level DRAM model."""
    def __init__(self, memtype, nports, bankbits=2, rowbits=5, colextra=2, databits=8,
                 timing=None, clk_freq=100e6, rng=None, **ctrl_kwargs):
        phy_settings = get_sdram_phy_settings(memtype, databits, clk_freq)
        align        = log2_int(phy_settings.nphases if memtype == "SDR" else burst_lengths[memtype])
        colbits      = align + colextra
        geom         = GeomSettings(bankbits=bankbits, rowbits=rowbits, colbits=colbits)
        geom.addressbits = max(geom.addressbits, 11)   # keep A10 (auto-precharge / precharge-all) on the bus, small array
        t = dict(tRP=2, tRCD=2, tWR=2, tWTR=2, tREFI=128, tRFC=6, tFAW=None, tCCD=1, tRRD=2, tRC=7, tRAS=4, tZQCS=None)
        t.update(timing or {})
        self.timing  = timing_settings = TimingSettings(**t)
        self.align, self.colbits, self.bankbits, self.rowbits = align, colbits, bankbits, rowbits
        module = types.SimpleNamespace(memtype=memtype, geom_settings=geom, timing_settings=timing_settings)

        self.submodules.phy = phy = SDRAMPHYModel(module, settings=phy_settings, clk_freq=clk_freq)
        self.submodules.controller = controller = LiteDRAMController(
            phy_settings, geom, timing_settings, clk_freq,
            controller_settings=ControllerSettings(**ctrl_kwargs))
        self.comb += controller.dfi.connect(phy.dfi)
        self.submodules.crossbar = crossbar = LiteDRAMCrossbar(controller.interface)
        self.ports = [crossbar.get_port() for _ in range(nports)]
        self.data_width = controller.interface.data_width
        self.nbytes     = self.data_width//8
        self.aw         = self.ports[0].address_width
        self.cba_shift  = colbits - align
        self.nbanks     = 2**bankbits

        # Direct access to the DRAM array of each bank (initial contents / final comparison).
        self.mems = []
        for _, m in phy._submodules:
            if isinstance(m, BankModel):
                mem = [s for s in m._fragment.specials if isinstance(s, Memory)][0]
                self.mems.append(mem)
        assert len(self.mems) == self.nbanks
        rng = rng or random.Random(0)
        self.init = []
        for mem in self.mems:
            init = [rng.getrandbits(self.data_width) for _ in range(mem.depth)]
            mem.init = init
            self.init.append(init)

    # port address -> (bank, index in the bank array)
    def split(self, addr):
        lo   = addr & ((1 << self.cba_shift) - 1)
        bank = (addr >> self.cba_shift) & (self.nbanks - 1)
        hi   = addr >> (self.cba_shift + self.bankbits)
        return bank, (hi << self.cba_shift) | lo

    def join(self, bank, rca):
        lo = rca & ((1 << self.cba_shift) - 1)
        hi = rca >> self.cba_shift
        return (hi << (self.cba_shift + self.bankbits)) | (bank << self.cba_shift) | lo


def apply_be(old, data, be, nbytes):
    for i in range(nbytes):
        if (be >> i) & 1:
            m = 0xff << (8*i)
            old = (old & ~m) | (data & m)
    return old


class Bench:
    """Random traffic on all ports against a byte-accurate reference; checks C01 end to end."""
    def __init__(self, dut, seed, nops=60, hot_rows=3, idle_pct=30, hot_banks=None, burst_pct=50):
        self.dut   = dut
        self.rng   = rng = random.Random(seed)
        self.cycle = 0
        self.errors = []
        self.extra = {}
        # reference contents, indexed by port address
        self.ref = {}
        for b in range(dut.nbanks):
            for i, v in enumerate(dut.init[b]):
                self.ref[dut.join(b, i)] = v
        self.nreads = self.nwrites = 0
        self.done  = [False]*len(dut.ports)
        # address pool: a few hot rows per bank -> row hits, row misses, same-address races
        r0    = rng.randrange(2**dut.rowbits)
        rows  = [r0, r0 ^ (1 << (dut.rowbits - 1)), r0 ^ (1 << rng.randrange(dut.rowbits - 1))]   # rows one bit apart
        while len(rows) < hot_rows:
            r = rng.randrange(2**dut.rowbits)
            if r not in rows:
                rows.append(r)
        rows  = rows[:max(hot_rows, 1)]
        banks = list(range(dut.nbanks)) if hot_banks is None else rng.sample(range(dut.nbanks), hot_banks)
        pool  = []
        for b in banks:
            for r in rows:
                for c in range(2**dut.cba_shift):
                    pool.append(dut.join(b, (r << dut.cba_shift) | c))
        self.pool = pool
        self.ops = []
        full = (1 << dut.nbytes) - 1
        for p in range(len(dut.ports)):
            ops  = []
            last = rng.choice(pool)
            for _ in range(nops):
                r = rng.random()
                if r < 0.35:
                    addr = last                                     # same address again (RAW / WAW / WAR)
                elif r < 0.5:
                    addr = rng.choice(pool[:4])                     # address contended by all ports
                elif r < 0.55:
                    addr = rng.getrandbits(dut.aw)                  # anywhere
                else:
                    addr = rng.choice(pool)
                last = addr
                we   = rng.random() < 0.5
                be   = rng.choice([full, full, rng.getrandbits(dut.nbytes), 0, 1 << rng.randrange(dut.nbytes)])
                idle = 0 if rng.randrange(100) < burst_pct else (rng.randrange(1, 12) if rng.randrange(100) < idle_pct else rng.randrange(1, 3))
                ops.append((we, addr, rng.getrandbits(dut.data_width), be, idle))
            self.ops.append(ops)

    def err(self, msg):
        self.errors.append("cycle %d: %s" % (self.cycle, msg))
        raise CheckError(self.errors[-1])

    @passive
    def clock(self):
        while True:
            yield
            self.cycle += 1

    def port_proc(self, n):
        dut, port, ops = self.dut, self.dut.ports[n], self.ops[n]
        idx, cmd_on, idle = 0, False, ops[0][4]
        wq, expq = deque(), deque()
        w_on = False
        yield port.rdata.ready.eq(1)
        drain = 0
        while True:
            # -- sample this cycle (handshakes complete at the coming clock edge)
            if cmd_on and (yield port.cmd.ready):
                we, addr, data, be, _ = ops[idx]
                if we:
                    self.ref[addr] = apply_be(self.ref[addr], data, be, dut.nbytes)
                    self.nwrites += 1
                else:
                    expq.append((addr, self.ref[addr]))
                    self.nreads += 1
                cmd_on = False
                idx += 1
                idle = ops[idx][4] if idx < len(ops) else 0
                yield port.cmd.valid.eq(0)
            if (yield port.wdata.ready):
                if not w_on:
                    self.err("port %d: wdata.ready without pending write data" % n)
                wq.popleft()
                w_on = False
            if (yield port.rdata.valid):
                if not expq:
                    self.err("port %d: unexpected read data" % n)
                addr, exp = expq.popleft()
                got = (yield port.rdata.data)
                if got != exp:
                    self.err("port %d: read @0x%x returned 0x%x, expected 0x%x" % (n, addr, got, exp))
            # -- drive next cycle
            if not cmd_on and idx < len(ops):
                if idle:
                    idle -= 1
                else:
                    we, addr, data, be, _ = ops[idx]
                    yield port.cmd.valid.eq(1)
                    yield port.cmd.we.eq(we)
                    yield port.cmd.addr.eq(addr)
                    cmd_on = True
                    if we:
                        wq.append((data, be))     # data offered together with the command
            if not w_on:
                if wq:
                    yield port.wdata.valid.eq(1)
                    yield port.wdata.data.eq(wq[0][0])
                    yield port.wdata.we.eq(wq[0][1])
                    w_on = True
                else:
                    yield port.wdata.valid.eq(0)
                    # garbage on the data lines while nothing is offered
                    yield port.wdata.data.eq(self.rng.getrandbits(dut.data_width))
                    yield port.wdata.we.eq(self.rng.getrandbits(dut.nbytes))
            if idx >= len(ops) and not cmd_on and not wq and not expq:
                drain += 1
                self.done[n] = True
                if drain > 40 and all(self.done):
                    break
            yield
        # all ports idle and drained: compare the complete DRAM array with the reference
        if n == 0:
            for b, mem in enumerate(dut.mems):
                for i in range(mem.depth):
                    got = (yield mem[i])
                    exp = self.ref[dut.join(b, i)]
                    if got != exp:
                        self.err("DRAM bank %d word %d = 0x%x, reference 0x%x" % (b, i, got, exp))

    @passive
    def dfi_monitor(self):
        """DRAM protocol rules the data integrity depends on (per-bank row state, command spacing)."""
        dut  = self.dut
        t    = dut.timing
        phases = dut.phy.dfi.phases
        nb   = dut.nbanks
        row  = [None]*nb
        last = [dict(ACT=-100, PRE=-100, WR=-100, RD=-100) for _ in range(nb)]
        ap_pending = [False]*nb
        last_ref = -100
        self.dfi_counts = dict(ACT=0, PRE=0, REF=0, RD=0, WR=0, AP=0, ZQ=0)
        cwl_sys = math.ceil(dut.phy.settings.cwl / dut.phy.settings.nphases)
        while True:
            ncas = 0
            for ph in phases:
                if (yield ph.cs_n):
                    continue
                ras, cas, we = (1 - (yield ph.ras_n)), (1 - (yield ph.cas_n)), (1 - (yield ph.we_n))
                if not (ras or cas or we):
                    continue
                b, a, now = (yield ph.bank), (yield ph.address), self.cycle
                if ras and not cas and not we:        # ACT
                    self.dfi_counts["ACT"] += 1
                    if row[b] is not None:
                        self.err("ACT on bank %d with row %d still open" % (b, row[b]))
                    if now - last[b]["PRE"] < t.tRP:
                        self.err("tRP violated on bank %d" % b)
                    if now - last[b]["ACT"] < t.tRC:
                        self.err("tRC violated on bank %d" % b)
                    if now - last_ref < t.tRP + t.tRFC - 1:
                        self.err("ACT too early after refresh")
                    row[b] = a
                    last[b]["ACT"] = now
                elif ras and not cas and we:          # PRE
                    self.dfi_counts["PRE"] += 1
                    for bb in (range(nb) if (a >> 10) & 1 else [b]):
                        if row[bb] is not None:
                            if now - last[bb]["ACT"] < t.tRAS:
                                self.err("tRAS violated on bank %d" % bb)
                            if now - last[bb]["WR"] < t.tWR + cwl_sys:
                                self.err("write recovery violated on bank %d" % bb)
                        row[bb] = None
                        last[bb]["PRE"] = now
                elif ras and cas and not we:          # REF
                    self.dfi_counts["REF"] += 1
                    if any(r is not None for r in row):
                        self.err("REF with open rows")
                    last_ref = now
                elif cas and not ras:                 # RD / WR
                    ncas += 1
                    kind = "WR" if we else "RD"
                    self.dfi_counts[kind] += 1
                    if row[b] is None:
                        self.err("%s on bank %d without open row" % (kind, b))
                    if now - last[b]["ACT"] < t.tRCD:
                        self.err("tRCD violated on bank %d" % b)
                    last[b][kind] = now
                    if (a >> 10) & 1:                 # auto-precharge: row closes by itself
                        self.dfi_counts["AP"] += 1
                        row[b] = None
                        # precharge starts once tRAS / write recovery allow it
                        start = max(now, last[b]["ACT"] + t.tRAS, (now + t.tWR + cwl_sys) if we else now)
                        last[b]["PRE"] = start
                elif we and not ras and not cas:
                    self.dfi_counts["ZQ"] += 1
            if ncas > 1:
                self.err("two column commands in one cycle")
            yield

    def run(self, timeout=20000, monitors=()):
        def watchdog():
            for _ in range(timeout):
                yield
            raise CheckError("timeout (deadlock?) at cycle %d, done=%s" % (self.cycle, self.done))
        wd = passive(watchdog)
        gens = [self.port_proc(n) for n in range(len(self.dut.ports))]
        gens += [self.clock(), self.dfi_monitor(), wd()]
        gens += [passive(m)(self) for m in monitors]
        run_simulation(self.dut, gens)
        return self


def run_config(seed, memtype, nports, nops=60, verbose=True, bench_kwargs=None, monitors=(), **kw):
    rng = random.Random(seed)
    dut = Core(memtype, nports, rng=rng, **kw)
    b   = Bench(dut, seed, nops=nops, **(bench_kwargs or {}))
    b.run(monitors=monitors)
    if verbose:
        print("ok seed=%d %s ports=%d %s cycles=%d rd=%d wr=%d dfi=%s" % (
            seed, memtype, nports, {k: v for k, v in kw.items() if k != "timing"}, b.cycle, b.nreads, b.nwrites, b.dfi_counts))
        sys.stdout.flush()
    return b


# ---- bank machine alone, arbitrary request / grant / refresh schedules, DRAM command rules checked ----
from litedram.core.bankmachine import BankMachine
from litex.soc.interconnect import stream


class _S(Settings):
    def __init__(self, **kw):
        self.set_attributes(kw)


def bm_settings(depth, buffered, auto_precharge, timing=None, nphases=2, cwl=2):
    s        = _S(cmd_buffer_depth=depth, cmd_buffer_buffered=buffered, with_auto_precharge=auto_precharge)
    s.phy    = _S(cwl=cwl, nphases=nphases, nranks=1, memtype="DDR2", dfi_databits=32)
    s.geom   = _S(bankbits=2, rowbits=4, colbits=4, addressbits=11)
    t = dict(tRAS=5, tRC=8, tCCD=1, tRCD=2, tRP=2, tWR=2)
    t.update(timing or {})
    s.timing = _S(**t)
    return s


def bm_unit(seed, depth, buffered, auto_precharge, timing=None, nreq=80, ready_pct=50, monitors=(), verbose=True):
    rng   = random.Random(seed)
    s     = bm_settings(depth, buffered, auto_precharge, timing)
    align = log2_int(burst_lengths["DDR2"])
    split = s.geom.colbits - align
    aw    = s.geom.rowbits + s.geom.colbits - align
    dut   = BankMachine(n=1, address_width=aw, address_align=align, nranks=1, settings=s)
    t     = s.timing
    twtp  = math.ceil(s.phy.cwl/s.phy.nphases) + t.tWR + t.tCCD
    t     = _S(**{k: (v or 0) for k, v in vars(t).items()})   # None = timing not enforced
    rows  = rng.sample(range(2**s.geom.rowbits), 3)
    reqs  = []
    for _ in range(nreq):
        r = rows[0] if rng.random() < 0.5 else rng.choice(rows)
        if reqs and rng.random() < 0.4:
            r = reqs[-1][1] >> split
        reqs.append((rng.randrange(2), (r << split) | rng.randrange(2**split), rng.choice([0, 0, 0, 1, 2, 9])))
    st = dict(extra={}, cycle=0, queue=deque(), executed=0, accepted=0, refreshing=False, stats=dict(ACT=0, PRE=0, RD=0, WR=0, AP=0, REFGNT=0))

    def fail(msg):
        raise CheckError("bm_unit seed=%d depth=%d buffered=%s ap=%s cycle %d: %s" % (seed, depth, buffered, auto_precharge, st["cycle"], msg))

    def requester():
        for we, addr, idle in reqs:
            for _ in range(idle):
                yield
            yield dut.req.valid.eq(1)
            yield dut.req.we.eq(we)
            yield dut.req.addr.eq(addr)
            yield
            while not (yield dut.req.ready):
                yield
            yield dut.req.valid.eq(0)
        while st["executed"] < len(reqs):
            yield
        for _ in range(20):
            yield

    @passive
    def granter():
        while True:
            yield dut.cmd.ready.eq(rng.randrange(100) < ready_pct)
            yield

    @passive
    def refresher():
        while True:
            for _ in range(rng.randrange(20, 90)):
                yield
            yield dut.refresh_req.eq(1)
            yield
            while not (yield dut.refresh_gnt):
                yield
            st["refreshing"] = True
            for _ in range(1 + (s.timing.tRP or 0) + rng.randrange(2, 10)):   # precharge all, tRP, refresh, ...
                yield
            yield dut.refresh_req.eq(0)
            st["refreshing"] = False
            yield

    @passive
    def checker():
        row  = None
        last = dict(ACT=-100, PRE=-100, WR=-100)
        gnt_d = 0
        while True:
            now = st["cycle"]
            # requests entering the bank machine
            lock_ref = (st["accepted"] - st["executed"]) != 0
            lock     = (yield dut.req.lock)
            if depth == 0:
                # pass-through "FIFO": the original expression also contained req.valid itself
                if lock not in (lock_ref, lock_ref or (yield dut.req.valid)):
                    fail("lock=%d with %d outstanding requests" % (lock, st["accepted"] - st["executed"]))
            elif lock != lock_ref:
                fail("lock=%d with %d outstanding requests" % (lock, st["accepted"] - st["executed"]))
            if (yield dut.req.valid) and (yield dut.req.ready):
                st["queue"].append(((yield dut.req.we), (yield dut.req.addr)))
                st["accepted"] += 1
            gnt = (yield dut.refresh_gnt)
            if gnt:
                if now - last["ACT"] < t.tRAS or now - last["WR"] < twtp:
                    fail("refresh granted before tRAS / write recovery elapsed")
                if row is not None:
                    st["stats"]["REFGNT"] += 1
                if not gnt_d:
                    last["PRE"] = now + 1 # the refresher precharges all banks once every bank machine granted
                row = None
            gnt_d = gnt
            wr, rv = (yield dut.req.wdata_ready), (yield dut.req.rdata_valid)
            fire = (yield dut.cmd.valid) and (yield dut.cmd.ready)
            if (yield dut.cmd.valid) and gnt:
                fail("command presented while refresh is granted")
            if not fire:
                if wr or rv:
                    fail("data strobe without an accepted command")
            else:
                cas, ras, we, a = (yield dut.cmd.cas), (yield dut.cmd.ras), (yield dut.cmd.we), (yield dut.cmd.a)
                if (yield dut.cmd.ba) != 1:
                    fail("wrong bank")
                if not st["queue"]:
                    fail("command without a pending request")
                hwe, haddr = st["queue"][0]
                hrow, hcol = haddr >> split, (haddr & (2**split - 1)) << align
                if ras and not cas and not we:
                    st["stats"]["ACT"] += 1
                    if row is not None:            fail("ACT with row open")
                    if a != hrow:                  fail("ACT row %d, request row %d" % (a, hrow))
                    if now - last["PRE"] < t.tRP:  fail("tRP")
                    if now - last["ACT"] < t.tRC:  fail("tRC")
                    if wr or rv:                   fail("data strobe on ACT")
                    row, last["ACT"] = a, now
                elif ras and not cas and we:
                    st["stats"]["PRE"] += 1
                    if (a >> 10) & 1:              fail("PRE with A10 high (would precharge all banks)")
                    if row is None:                fail("PRE with no row open")
                    if row == hrow:                fail("PRE although the pending request hits the open row")
                    if now - last["ACT"] < t.tRAS: fail("tRAS")
                    if now - last["WR"] < twtp:    fail("write to precharge")
                    if wr or rv:                   fail("data strobe on PRE")
                    row, last["PRE"] = None, now
                elif cas and not ras:
                    st["stats"]["WR" if we else "RD"] += 1
                    if row is None:                fail("column command with no row open")
                    if row != hrow:                fail("column command on row %d, request row %d" % (row, hrow))
                    if (a & 0x3ff) != hcol:        fail("column %d, request column %d" % (a & 0x3ff, hcol))
                    if we != hwe:                  fail("read/write mismatch")
                    if (wr, rv) != (we, 1 - we):   fail("wdata_ready/rdata_valid = %d/%d on %s" % (wr, rv, "WR" if we else "RD"))
                    if (yield dut.cmd.is_write) != we or (yield dut.cmd.is_read) != 1 - we: fail("is_read/is_write")
                    if now - last["ACT"] < t.tRCD: fail("tRCD")
                    if we:
                        last["WR"] = now
                    st["queue"].popleft()
                    st["executed"] += 1
                    if (a >> 10) & 1:
                        st["stats"]["AP"] += 1
                        if not auto_precharge:     fail("auto-precharge although disabled")
                        row = None
                        last["PRE"] = max(now, last["ACT"] + t.tRAS, last["WR"] + twtp)
                else:
                    fail("unknown command cas=%d ras=%d we=%d" % (cas, ras, we))
            yield
            st["cycle"] += 1

    @passive
    def watchdog():
        for _ in range(30000):
            yield
        fail("timeout, %d of %d requests executed" % (st["executed"], len(reqs)))

    run_simulation(dut, [requester(), granter(), refresher(), checker(), watchdog()] + [passive(m)(dut, st) for m in monitors])
    if st["executed"] != len(reqs) or st["queue"]:
        fail("requests lost")
    if verbose:
        print("ok bm_unit seed=%d depth=%d buffered=%s ap=%s timing=%s cycles=%d %s" % (
            seed, depth, buffered, auto_precharge, timing, st["cycle"], st["stats"]))
        sys.stdout.flush()
    return st


# ---- job runner ----------------------------------------------------------------------------------------
import multiprocessing, traceback

def _job(job):
    kind, kw = job
    try:
        if kind == "core":
            return (None, run_config(**kw).extra)
        else:
            return (None, bm_unit(**kw)["extra"])
    except Exception as e:
        return ("%s %r\n  -> %s: %s" % (kind, {k: v for k, v in kw.items() if k != "monitors"}, type(e).__name__, e), {})


def run_jobs(jobs):
    nproc = max(1, min(6, (os.cpu_count() or 2)//2, len(jobs)))
    try:
        ctx = multiprocessing.get_context("fork")
        with ctx.Pool(nproc) as pool:
            results = pool.map(_job, jobs, chunksize=1)
    except (OSError, ValueError):
        results = [_job(j) for j in jobs]
    totals, failures = {}, []
    for err, extra in results:
        if err:
            failures.append(err)
        for k, v in extra.items():
            totals[k] = totals.get(k, 0) + v
    return failures, totals


# ---- keep_3: bank machine presents the PRECHARGE of a row miss directly from REGULAR when timings are met --
from litedram.core.bankmachine import BankMachine as _BM


def _is_pre_accept(bm):
    return ((yield bm.cmd.valid) and (yield bm.cmd.ready) and (yield bm.cmd.ras) and (yield bm.cmd.we) and not (yield bm.cmd.cas))


def shortcut_unit(dut, st):
    """Counts precharges accepted in the REGULAR state (the saved cycle) / in the PRECHARGE state, and checks
    that the open-row bookkeeping follows the accepted commands only."""
    regular, precharge = dut.fsm.encoding["REGULAR"], dut.fsm.encoding["PRECHARGE"]
    st["extra"].update(unit_pre_regular=0, unit_pre_state=0)
    while True:
        if (yield from _is_pre_accept(dut)):
            s = (yield dut.fsm.state)
            if s == regular:
                st["extra"]["unit_pre_regular"] += 1
            elif s == precharge:
                st["extra"]["unit_pre_state"] += 1
            else:
                raise CheckError("precharge accepted in FSM state %d" % s)
        yield


def shortcut_core(bench):
    dut = bench.dut
    bms = [m for _, m in dut.controller._submodules if isinstance(m, _BM)]
    bench.extra.update(core_pre_regular=0, core_pre_state=0)
    while True:
        for bm in bms:
            if (yield from _is_pre_accept(bm)):
                s = (yield bm.fsm.state)
                if s == bm.fsm.encoding["REGULAR"]:
                    bench.extra["core_pre_regular"] += 1
                elif s == bm.fsm.encoding["PRECHARGE"]:
                    bench.extra["core_pre_state"] += 1
                else:
                    bench.err("precharge accepted in FSM state %d" % s)
        yield


def main():
    jobs = []
    timings = [
        None,
        dict(tRAS=None, tRC=None),
        dict(tRAS=9, tRC=14, tWR=5, tCCD=3, tRP=4, tRCD=4),
        dict(tRAS=3, tRC=4, tWR=1, tCCD=1, tRP=1, tRCD=1),
        dict(tRAS=12, tRC=13, tWR=8, tCCD=2, tRP=2, tRCD=3),
    ]
    seed = 0
    for timing in timings:
        for depth, buffered in [(0, False), (1, False), (4, False), (8, True)]:
            for ap in [True, False]:
                for ready_pct in [15, 50, 100]:
                    seed += 1
                    jobs.append(("bm", dict(seed=seed, depth=depth, buffered=buffered, auto_precharge=ap, ready_pct=ready_pct,
                                            timing=timing, nreq=60, monitors=[shortcut_unit], verbose=False)))
    slow = dict(tRP=3, tRCD=3, tWR=3, tWTR=3, tRFC=9, tFAW=10, tCCD=2, tRRD=3, tRC=10, tRAS=6, tZQCS=8, tREFI=113)
    fast = dict(tRP=1, tRCD=1, tWR=1, tWTR=1, tRFC=3, tFAW=None, tCCD=1, tRRD=1, tRC=3, tRAS=2, tZQCS=None, tREFI=101)
    long = dict(tRP=2, tRCD=3, tWR=6, tWTR=2, tRFC=7, tFAW=12, tCCD=1, tRRD=2, tRC=14, tRAS=11, tZQCS=None, tREFI=150)
    seed = 500
    combos = [  # nports, depth, buffered, auto precharge, timing
        (2, 8, False, False, None), (3, 4, True, True, slow), (1, 8, False, False, fast), (4, 2, False, False, long), (3, 8, False, True, None),
    ]
    for j, mt in enumerate(["SDR", "DDR", "LPDDR", "DDR2", "DDR3", "DDR4"]):
        for i, (np_, d, buf, ap, tm) in enumerate(combos):
            if mt in ("DDR", "LPDDR", "DDR2") and (i + j) % 2:
                continue
            seed += 1
            kw = dict(seed=seed, memtype=mt, nports=np_, nops=40 if np_ < 4 else 30, monitors=[shortcut_core],
                      cmd_buffer_depth=d, cmd_buffer_buffered=buf, with_auto_precharge=ap)
            kw["timing"] = dict(tm) if tm else dict(tREFI=100 + (seed*7) % 60)
            if kw["timing"].get("tZQCS"):
                kw["refresh_zqcs_freq"] = 100e6/350
            jobs.append(("core", kw))
    jobs += [
        ("core", dict(seed=601, memtype="DDR3", nports=6, nops=25, monitors=[shortcut_core], with_auto_precharge=False, bankbits=3)),
        ("core", dict(seed=602, memtype="SDR",  nports=4, nops=40, monitors=[shortcut_core], with_auto_precharge=False,
                      bench_kwargs=dict(hot_banks=1, burst_pct=100))),
        ("core", dict(seed=603, memtype="DDR4", nports=2, nops=70, monitors=[shortcut_core], with_auto_precharge=True,
                      bench_kwargs=dict(burst_pct=0, idle_pct=70))),
    ]
    failures, totals = run_jobs(jobs)
    print("totals:", totals)
    if not failures and (totals.get("unit_pre_regular", 0) < 200 or totals.get("core_pre_regular", 0) < 200):
        failures.append("the direct precharge path was not exercised enough: %s" % totals)
    for f in failures:
        print("FAIL:", f)
    print("keep_3: %d runs, %d failures" % (len(jobs), len(failures)))
    sys.exit(1 if failures else 0)


if __name__ == "__main__":
    main()
