#!/usr/bin/env python3
# keep_3.py - check for change 3 (litedram/core/multiplexer.py: the read-to-write turnaround RTW is one FSM
# state with a down-counter instead of a chain of read_latency-1 anonymous states from delayed_enter).
#
# What is run (real code, migen run_simulation):
#  1. lock-step equivalence: the tree's Multiplexer against an embedded verbatim copy of the unmodified
#     Multiplexer class.  Both get identical random stimulus (bank machine command streams with reads,
#     writes, activates, precharges; refresh requests/grants; read data) for read_latency 1..9 (i.e. RTW
#     lengths 0..8, covering the alias / single state / counter variants), 1/2/4 phases.  All DFI outputs,
#     all bank machine / refresher handshakes, rdata and the FSM state (anonymous states mapped to "RTW") are
#     compared every cycle, and every RTW visit must last exactly read_latency-1 cycles between READ and
#     WRITE.
#  2. whole core (ports -> crossbar -> controller -> DFI -> strict behavioural DRAM): the C01 property is
#     checked on-line for 12 configurations (SDR/DDR/LPDDR/DDR2/DDR3/DDR4, 1..8 ports, buffered or not,
#     auto-precharge on/off, refresh + ZQCS running), the event trace (DFI commands/data, port handshakes)
#     must be bit- and cycle-identical to the one of the unmodified tree (GOLDEN hashes), and the RTW
#     length is monitored there as well.
# Exit status 0 = all checks pass.  Run from the root of the tree:  python keep_3.py

# Whole-core test bench: native ports -> LiteDRAMCrossbar -> LiteDRAMController (bank machines,
# multiplexer, refresher) -> DFI -> strict behavioural DRAM (python), with a per-port reference model.
#
# Checked while running (property C01):
#   * every accepted read returns exactly one word, in command order per port, every byte equal to the
#     byte most recently written (in command-acceptance order over all ports) to that address with the
#     byte enabled, or the initial contents;
#   * write data is taken exactly once per accepted write (never more than accepted writes);
#   * a write changes only the enabled bytes at the one named address (DRAM contents == reference at end);
#   * the DRAM only sees legal command sequences (ACT on idle bank, RD/WR on active bank, REF with all
#     banks idle) and the basic timings of the controller (tRP/tRCD/tRAS/tRC/tWTP/tWTR/tCCD/tRRD/tRFC);
#   * liveness: all commands complete within the cycle budget.
# A sha256 over all externally visible events (DFI commands + data, port handshakes) is returned so that
# cycle-exact equivalence with the unmodified tree can be asserted.

import os, sys, math, random, hashlib, traceback
sys.path.insert(0, os.getcwd())

from migen import *

from litedram.common import *
from litedram.phy.model import get_sdram_phy_settings
from litedram.core.controller import ControllerSettings, LiteDRAMController
from litedram.core.crossbar import LiteDRAMCrossbar


class TBError(Exception):
    pass


def mix(*xs):
    h = 0x9e3779b97f4a7c15
    for x in xs:
        h ^= (x + 0x7f4a7c15 + (h << 6) + (h >> 2)) & 0xffffffffffffffff
        h = (h * 0xbf58476d1ce4e5b9) & 0xffffffffffffffff
        h ^= h >> 29
    return h


class Cfg:
    def __init__(self, **kw):
        self.memtype = "DDR3"; self.nports = 2; self.depth = 8; self.buffered = False
        self.auto_precharge = True; self.bankbits = 2; self.rowbits = 3; self.colwords_bits = 3
        self.big_col = False; self.seed = 1; self.ncmds = 120; self.postponing = 1
        self.tREFI = 110; self.rand_phases = False; self.read_time = 32; self.write_time = 16
        self.pool = 20; self.gap = 3; self.max_cycles = 40000
        self.__dict__.update(kw)

    def name(self):
        return "%s p%d d%d%s ap%d bb%d s%d%s%s" % (self.memtype, self.nports, self.depth,
            "b" if self.buffered else "", self.auto_precharge, self.bankbits, self.seed,
            " bigcol" if self.big_col else "", " rph" if self.rand_phases else "")


class DUT(Module):
    def __init__(self, cfg):
        rng = random.Random(mix(cfg.seed, 12345))
        memtype = cfg.memtype
        data_width = 16 if memtype == "SDR" else 8
        phy = get_sdram_phy_settings(memtype, data_width, 100e6)
        if cfg.rand_phases and phy.nphases > 1:
            phy.rdphase = rng.randrange(phy.nphases)
            phy.wrphase = rng.randrange(phy.nphases)
        self.phy = phy
        burst_length = phy.nphases if memtype == "SDR" else burst_lengths[memtype]
        self.align = align = log2_int(burst_length)
        colbits = (11 if cfg.big_col else align + cfg.colwords_bits)
        geom = GeomSettings(bankbits=cfg.bankbits, rowbits=cfg.rowbits, colbits=colbits)
        geom.addressbits = 13  # keep A10 (auto-precharge / precharge-all) on the DFI address bus
        self.geom = geom
        ddr34 = memtype in ["DDR3", "DDR4"]
        timing = TimingSettings(
            tRP   = rng.choice([1, 2, 3]),
            tRCD  = rng.choice([1, 2, 3]),
            tWR   = rng.choice([1, 2, 3]),
            tWTR  = rng.choice([1, 2, 3]),
            tREFI = cfg.tREFI,
            tRFC  = rng.choice([4, 7]),
            tFAW  = rng.choice([None, 6, 9]),
            tCCD  = rng.choice([1, 2]) if not ddr34 else 1,
            tRRD  = rng.choice([None, 1, 2, 3]),
            tRC   = rng.choice([None, 5, 8]),
            tRAS  = rng.choice([None, 3, 5]),
            tZQCS = (rng.choice([4, 9]) if ddr34 else None))
        self.timing = timing
        cs = ControllerSettings(
            cmd_buffer_depth    = cfg.depth,
            cmd_buffer_buffered = cfg.buffered,
            with_auto_precharge = cfg.auto_precharge,
            refresh_postponing  = cfg.postponing,
            read_time           = cfg.read_time,
            write_time          = cfg.write_time)
        self.submodules.controller = LiteDRAMController(phy, geom, timing, clk_freq=450,
            controller_settings=cs)
        self.submodules.crossbar = LiteDRAMCrossbar(self.controller.interface)
        self.ports = [self.crossbar.get_port() for _ in range(cfg.nports)]
        self.dfi = self.controller.dfi
        self.colw_bits = colbits - align
        self.nbanks = 2**cfg.bankbits


def run_cfg(cfg, extra_gens=None):
    dut = DUT(cfg)
    rng = random.Random(mix(cfg.seed, 777))
    phy, timing, geom = dut.phy, dut.timing, dut.geom
    nph = phy.nphases
    dfi_w = phy.dfi_databits
    word_w = dfi_w*nph
    nbytes = word_w//8
    word_mask = (1 << word_w) - 1
    align = dut.align
    cwb, bb = dut.colw_bits, cfg.bankbits
    nbanks = dut.nbanks
    rl, wl = phy.read_latency, phy.write_latency
    ctrl_wl = math.ceil(phy.cwl/nph)
    tWTP = ctrl_wl + timing.tWR + timing.tCCD
    tWTRc = timing.tWTR + ctrl_wl + timing.tCCD
    hsh = hashlib.sha256()
    stats = dict(acts=0, pres=0, refs=0, reads=0, writes=0, autopre=0, zqcs=0, cycles=0)

    def init_word(bank, row, col):
        return mix(bank, row, col, 99) & word_mask if word_w <= 64 else \
            (mix(bank, row, col, 99) | (mix(bank, row, col, 98) << 64)) & word_mask

    def decompose(addr):
        colw = addr & ((1 << cwb) - 1)
        bank = (addr >> cwb) & (nbanks - 1)
        row  = addr >> (cwb + bb)
        return bank, row, colw << align

    # address pool (forces same-address / same-row / row-conflict traffic) ---------------------------
    aw = dut.ports[0].address_width
    assert aw == cfg.rowbits + cwb + bb, (aw, cfg.rowbits, cwb, bb)
    pool = [rng.randrange(1 << aw) for _ in range(cfg.pool)]
    # add row neighbours (same bank + row, other column) and row conflicts (same bank, other row)
    for a in list(pool[:cfg.pool//2]):
        pool.append(a ^ rng.randrange(1, 1 << cwb))
        pool.append(a ^ (rng.randrange(1, 1 << cfg.rowbits) << (cwb + bb)))

    def rand_we():
        r = rng.random()
        if r < 0.5:
            return (1 << nbytes) - 1
        if r < 0.6:
            return 0
        return rng.randrange(1 << nbytes)

    class PortState:
        pass
    pstates = []
    for i, port in enumerate(dut.ports):
        ps = PortState()
        ps.port = port; ps.i = i
        ps.todo = cfg.ncmds
        ps.cur = None            # command currently presented (we, addr, data, be)
        ps.wq = []               # write beats offered (presented commands), oldest first
        ps.acc_writes = 0; ps.taken = 0
        ps.exp = []              # expected read words (in acceptance order)
        ps.gap = rng.randrange(4)
        ps.mode_bias = rng.random()  # per-port read/write mix
        ps.burst = 0
        pstates.append(ps)

    ref = {}      # port address -> word (reference, command-acceptance order)
    mem = {}      # (bank,row,col) -> word (DRAM contents)

    def ref_get(addr):
        if addr in ref:
            return ref[addr]
        return init_word(*decompose(addr))

    def merge(old, data, be):
        for b in range(nbytes):
            if (be >> b) & 1:
                m = 0xff << (8*b)
                old = (old & ~m) | (data & m)
        return old

    # DRAM state ---------------------------------------------------------------------------------------
    class Bank:
        pass
    banks = []
    for b in range(nbanks):
        bk = Bank(); bk.row = None; bk.t_act = -100; bk.t_pre = -100; bk.t_wr = -100; bk.t_rdwr = -100
        banks.append(bk)
    glob = dict(t_ref=-100, ref_busy=0, t_lastwr=-100, t_lastcas=-100, t_lastact=-100, acts=[])
    wr_sched = {}   # cycle -> (bank,row,col)
    rd_sched = {}   # cycle -> word

    def err(msg):
        raise TBError("[%s] cycle %d: %s" % (cfg.name(), stats["cycles"], msg))

    def dram_precharge(t, b, auto=False):
        bk = banks[b]
        if bk.row is not None:
            if not auto:
                if timing.tRAS is not None and t - bk.t_act < timing.tRAS:
                    err("tRAS violated on bank %d" % b)
                if t - bk.t_wr < tWTP:
                    err("tWTP violated on bank %d" % b)
            bk.row = None
            bk.t_pre = t
            # an auto-precharge happens inside the DRAM after tRAS/tWR: the controller waits for it in
            # AUTOPRECHARGE + tRP; account it at the earliest legal instant
            if auto:
                t_eff = t
                if timing.tRAS is not None:
                    t_eff = max(t_eff, bk.t_act + timing.tRAS)
                t_eff = max(t_eff, bk.t_wr + tWTP)
                bk.t_pre = t_eff

    def gen():
        for ps in pstates:
            yield ps.port.rdata.ready.eq(1)
        phases = dut.dfi.phases
        t = 0
        done_at = None
        junk = 0
        while True:
            stats["cycles"] = t
            ev = []
            # ---------------- DRAM side: sample DFI -------------------------------------------------
            any_rd = any_wr = False
            cmds = []
            for pi, p in enumerate(phases):
                cs_n = (yield p.cs_n); ras_n = (yield p.ras_n); cas_n = (yield p.cas_n); we_n = (yield p.we_n)
                rden = (yield p.rddata_en); wren = (yield p.wrdata_en)
                if cs_n == 0 and not (ras_n and cas_n and we_n):
                    cmds.append((pi, ras_n, cas_n, we_n, (yield p.bank), (yield p.address)))
                if rden: any_rd = True
                if wren: any_wr = True
            saw_rd = saw_wr = False
            for (pi, ras_n, cas_n, we_n, b, a) in cmds:
                ev.append(("c", pi, ras_n, cas_n, we_n, b, a))
                if glob["ref_busy"] > t:
                    err("command during tRFC/tZQCS")
                if not ras_n and cas_n and we_n:          # ACTIVATE
                    bk = banks[b]
                    if bk.row is not None:
                        err("ACTIVATE on bank %d with open row" % b)
                    if t - bk.t_pre < timing.tRP:
                        err("tRP violated on bank %d" % b)
                    if timing.tRC is not None and t - bk.t_act < timing.tRC:
                        err("tRC violated on bank %d" % b)
                    if timing.tRRD is not None and t - glob["t_lastact"] < timing.tRRD:
                        err("tRRD violated")
                    if timing.tFAW is not None:
                        recent = [x for x in glob["acts"] if t - x < timing.tFAW]
                        if len(recent) >= 4:
                            err("tFAW violated")
                    glob["acts"] = (glob["acts"] + [t])[-8:]
                    glob["t_lastact"] = t
                    if a >= (1 << cfg.rowbits):
                        err("row address out of range")
                    bk.row = a; bk.t_act = t
                    stats["acts"] += 1
                elif not ras_n and cas_n and not we_n:    # PRECHARGE
                    stats["pres"] += 1
                    if a & (1 << 10):
                        for bb_ in range(nbanks):
                            dram_precharge(t, bb_)
                    else:
                        dram_precharge(t, b)
                elif not ras_n and not cas_n and we_n:    # REFRESH
                    for bb_ in range(nbanks):
                        if banks[bb_].row is not None:
                            err("REFRESH with bank %d active" % bb_)
                        if t - banks[bb_].t_pre < timing.tRP:
                            err("tRP violated before REFRESH")
                    glob["ref_busy"] = t + timing.tRFC
                    stats["refs"] += 1
                elif ras_n and not cas_n:                 # READ / WRITE
                    bk = banks[b]
                    if bk.row is None:
                        err("%s on idle bank %d" % ("WRITE" if not we_n else "READ", b))
                    if t - bk.t_act < timing.tRCD:
                        err("tRCD violated on bank %d" % b)
                    if t - glob["t_lastcas"] < timing.tCCD:
                        err("tCCD violated")
                    glob["t_lastcas"] = t
                    col = (a & 0x3ff) | ((a >> 11) << 10)
                    if col & ((1 << align) - 1) or col >= (1 << geom.colbits):
                        err("bad column address %x" % a)
                    key = (b, bk.row, col)
                    if not we_n:
                        saw_wr = True
                        if (t + wl) in wr_sched:
                            err("two write data phases in one cycle")
                        wr_sched[t + wl] = key
                        bk.t_wr = t; glob["t_lastwr"] = t
                        stats["writes"] += 1
                    else:
                        saw_rd = True
                        if t - glob["t_lastwr"] < tWTRc:
                            err("tWTR violated")
                        if (t + rl) in rd_sched:
                            err("two read data phases in one cycle")
                        rd_sched[t + rl] = mem.get(key, None)
                        if rd_sched[t + rl] is None:
                            rd_sched[t + rl] = init_word(*key)
                        stats["reads"] += 1
                    if a & (1 << 10):
                        stats["autopre"] += 1
                        dram_precharge(t, b, auto=True)
                elif ras_n and cas_n and not we_n:        # ZQCS
                    for bb_ in range(nbanks):
                        if banks[bb_].row is not None:
                            err("ZQCS with bank %d active" % bb_)
                    glob["ref_busy"] = t + timing.tZQCS
                    stats["zqcs"] += 1
                else:
                    err("unexpected DFI command ras_n=%d cas_n=%d we_n=%d" % (ras_n, cas_n, we_n))
            if any_rd != saw_rd or any_wr != saw_wr:
                err("rddata_en/wrdata_en not aligned with READ/WRITE command")
            # write data phase due now (applied after this cycle's commands: same-cycle read sees old)
            if t in wr_sched:
                key = wr_sched.pop(t)
                data = 0; mask = 0
                for pi, p in enumerate(phases):
                    data |= (yield p.wrdata) << (pi*dfi_w)
                    mask |= (yield p.wrdata_mask) << (pi*dfi_w//8)
                ev.append(("w", key, data, mask))
                old = mem.get(key, None)
                if old is None:
                    old = init_word(*key)
                mem[key] = merge(old, data, ~mask & ((1 << nbytes) - 1))
            # read data to be visible next cycle
            nxt = rd_sched.pop(t + 1, None)
            junk = mix(t, 5) & word_mask if word_w <= 64 else (mix(t, 5) | (mix(t, 6) << 64)) & word_mask
            val = junk if nxt is None else nxt
            for pi, p in enumerate(phases):
                yield p.rddata.eq((val >> (pi*dfi_w)) & ((1 << dfi_w) - 1))
                yield p.rddata_valid.eq(0 if nxt is None else 1)

            # ---------------- port side ---------------------------------------------------------------
            all_done = True
            for ps in pstates:
                port = ps.port
                cmd_ready = (yield port.cmd.ready)
                wready    = (yield port.wdata.ready)
                rvalid    = (yield port.rdata.valid)
                ev.append(("p", ps.i, 1 if ps.cur else 0, cmd_ready if ps.cur else 0, wready, rvalid))
                if ps.cur is not None and cmd_ready:
                    we, addr, data, be = ps.cur
                    if we:
                        ref[addr] = merge(ref_get(addr), data, be)
                        ps.acc_writes += 1
                    else:
                        ps.exp.append((addr, ref_get(addr)))
                    ps.cur = None
                    ps.gap = 0 if rng.random() < 0.5 else rng.randrange(1, cfg.gap + 2)
                    if rng.random() < 0.03:
                        ps.gap = rng.randrange(20, 60)
                if wready:
                    ps.taken += 1
                    if ps.taken > ps.acc_writes:
                        err("port %d: write data taken for a write that was not accepted" % ps.i)
                    if not ps.wq:
                        err("port %d: write data taken but none offered" % ps.i)
                    ps.wq.pop(0)
                if rvalid:
                    if not ps.exp:
                        err("port %d: unexpected read data" % ps.i)
                    addr, want = ps.exp.pop(0)
                    got = (yield port.rdata.data)
                    if got != want:
                        err("port %d: read @%x returned %x, expected %x" % (ps.i, addr, got, want))
                # next command
                if ps.cur is None and ps.todo > 0:
                    if ps.gap > 0:
                        ps.gap -= 1
                    else:
                        ps.todo -= 1
                        if ps.burst > 0:
                            ps.burst -= 1
                            addr = (ps.last_addr & ~((1 << cwb) - 1)) | rng.randrange(1 << cwb)
                        else:
                            r = rng.random()
                            addr = rng.choice(pool) if r < 0.9 else rng.randrange(1 << aw)
                            if rng.random() < 0.3:
                                ps.burst = rng.randrange(1, 6)
                        ps.last_addr = addr
                        we = 1 if rng.random() < ps.mode_bias else 0
                        if rng.random() < 0.02:
                            ps.mode_bias = rng.random()
                        data = rng.getrandbits(word_w); be = rand_we()
                        ps.cur = (we, addr, data, be)
                        if we:
                            ps.wq.append((data, be))
                        yield port.cmd.addr.eq(addr)
                        yield port.cmd.we.eq(we)
                yield port.cmd.valid.eq(1 if ps.cur is not None else 0)
                if ps.wq:
                    yield port.wdata.valid.eq(1)
                    yield port.wdata.data.eq(ps.wq[0][0])
                    yield port.wdata.we.eq(ps.wq[0][1])
                else:
                    yield port.wdata.valid.eq(0)
                    yield port.wdata.data.eq(mix(t, ps.i) & word_mask)
                    yield port.wdata.we.eq((1 << nbytes) - 1)
                if ps.cur is not None or ps.todo > 0 or ps.exp or ps.taken < ps.acc_writes:
                    all_done = False
            hsh.update(repr(ev).encode())
            if all_done and done_at is None:
                done_at = t
            if done_at is not None and t > done_at + wl + 8:
                break
            if t > cfg.max_cycles:
                err("timeout: commands still outstanding (todo=%s exp=%s)" % (
                    [ps.todo for ps in pstates], [len(ps.exp) for ps in pstates]))
            yield
            t += 1
        # end of run: DRAM contents == reference
        if wr_sched:
            err("write data phase still pending at end")
        for addr, want in ref.items():
            key = decompose(addr)
            got = mem.get(key, None)
            if got is None:
                got = init_word(*key)
            if got != want:
                err("final DRAM contents @%x = %x, reference %x" % (addr, got, want))
        touched = set(decompose(a) for a in ref)
        for key in mem:
            if key not in touched:
                err("DRAM location %r written but never addressed by a write" % (key,))

    run_simulation(dut, [gen()] + (extra_gens(dut, cfg, stats) if extra_gens else []))
    return hsh.hexdigest()[:16], stats


def make_cfgs():
    T = [
        # memtype nports depth buffered ap bankbits extra
        ("SDR",   1,  8, False, True,  2, dict()),
        ("SDR",   3,  4, True,  False, 1, dict(big_col=True)),
        ("DDR",   2,  2, False, True,  2, dict(rand_phases=True)),
        ("DDR",   4, 16, True,  False, 1, dict()),
        ("LPDDR", 2,  8, True,  True,  2, dict()),
        ("LPDDR", 1,  4, False, False, 3, dict(postponing=2)),
        ("DDR2",  4,  4, False, True,  2, dict(big_col=True, read_time=8, write_time=4)),
        ("DDR2",  8,  8, True,  False, 1, dict()),
        ("DDR3",  2,  8, False, True,  3, dict()),
        ("DDR3",  3, 16, True,  True,  2, dict(rand_phases=True, read_time=0, write_time=0)),
        ("DDR4",  2,  4, True,  False, 2, dict(big_col=True)),
        ("DDR4",  4,  8, False, True,  2, dict(postponing=2)),
    ]
    cfgs = []
    for i, (mt, np_, d, buf, ap, bbits, extra) in enumerate(T):
        ncmds = {1: 90, 2: 70, 3: 50, 4: 45, 8: 25}[np_]
        cfgs.append(Cfg(memtype=mt, nports=np_, depth=d, buffered=buf, auto_precharge=ap, bankbits=bbits,
            seed=200 + i, ncmds=ncmds, **extra))
    return cfgs


def _worker(cfg):
    try:
        h, st = run_cfg(cfg)
        return cfg.name(), h, st, None
    except Exception as e:
        return cfg.name(), None, None, "%s\n%s" % (e, traceback.format_exc())


def run_all(cfgs, nproc=8):
    import multiprocessing as mp
    with mp.Pool(nproc) as pool:
        return pool.map(_worker, cfgs, chunksize=1)



# sha256[:16] of the event trace of each configuration on the UNMODIFIED tree
GOLDEN = {
    'SDR p1 d8 ap1 bb2 s200': '34b36f917e490e50',
    'SDR p3 d4b ap0 bb1 s201 bigcol': 'dbf44e25f50a5b10',
    'DDR p2 d2 ap1 bb2 s202 rph': 'ecf674612b2edfe0',
    'DDR p4 d16b ap0 bb1 s203': 'de6459653a3471e0',
    'LPDDR p2 d8b ap1 bb2 s204': '0f8a7c00bc9f582c',
    'LPDDR p1 d4 ap0 bb3 s205': '48f101aacd9b803a',
    'DDR2 p4 d4 ap1 bb2 s206 bigcol': '1016717f0d348a06',
    'DDR2 p8 d8b ap0 bb1 s207': '6b654b62eb7fb19e',
    'DDR3 p2 d8 ap1 bb3 s208': '0e1bc75fbf2effe4',
    'DDR3 p3 d16b ap1 bb2 s209 rph': 'cf3bc56c33b4f8d5',
    'DDR4 p2 d4b ap0 bb2 s210 bigcol': 'c92627f57c14dd7b',
    'DDR4 p4 d8 ap1 bb2 s211': '102fbbc2f5df6726',
}

# ---- verbatim copy of the unmodified Multiplexer class of litedram/core/multiplexer.py (docstring removed) ----
import math
from functools import reduce
from operator import or_, and_
from litex.soc.interconnect import stream
from litex.soc.interconnect.csr import AutoCSR
from litedram.core.multiplexer import _CommandChooser, _Steerer, STEER_NOP, STEER_CMD, STEER_REQ, STEER_REFRESH
from litedram.core.bandwidth import Bandwidth

class RefMultiplexer(Module, AutoCSR):
    def __init__(self,
            settings,
            bank_machines,
            refresher,
            dfi,
            interface):
        assert(settings.phy.nphases == len(dfi.phases))

        ras_allowed = Signal(reset=1)
        cas_allowed = Signal(reset=1)

        # Read/Write Cmd/Dat phases ----------------------------------------------------------------
        nphases = settings.phy.nphases
        rdphase = settings.phy.rdphase
        wrphase = settings.phy.wrphase
        if isinstance(rdphase, Signal):
            rdcmdphase = Signal.like(rdphase)
            self.comb += rdcmdphase.eq(rdphase - 1) # Implicit %nphases.
        else:
            rdcmdphase = (rdphase - 1)%nphases
        if isinstance(rdphase, Signal):
            wrcmdphase = Signal.like(wrphase)
            self.comb += wrcmdphase.eq(wrphase - 1) # Implicit %nphases.
        else:
            wrcmdphase = (wrphase - 1)%nphases

        # Command choosing -------------------------------------------------------------------------
        requests = [bm.cmd for bm in bank_machines]
        self.submodules.choose_cmd = choose_cmd = _CommandChooser(requests)
        self.submodules.choose_req = choose_req = _CommandChooser(requests)
        if settings.phy.nphases == 1:
            # When only 1 phase, use choose_req for all requests
            choose_cmd = choose_req
            self.comb += choose_req.want_cmds.eq(1)
            self.comb += choose_req.want_activates.eq(ras_allowed)

        # Command steering -------------------------------------------------------------------------
        nop = Record(cmd_request_layout(settings.geom.addressbits,
                                        log2_int(len(bank_machines))))
        # nop must be 1st
        commands = [nop, choose_cmd.cmd, choose_req.cmd, refresher.cmd]
        steerer = _Steerer(commands, dfi)
        self.submodules += steerer

        # tRRD timing (Row to Row delay) -----------------------------------------------------------
        self.submodules.trrdcon = trrdcon = tXXDController(settings.timing.tRRD)
        self.comb += trrdcon.valid.eq(choose_cmd.accept() & choose_cmd.activate())

        # tFAW timing (Four Activate Window) -------------------------------------------------------
        self.submodules.tfawcon = tfawcon = tFAWController(settings.timing.tFAW)
        self.comb += tfawcon.valid.eq(choose_cmd.accept() & choose_cmd.activate())

        # RAS control ------------------------------------------------------------------------------
        self.comb += ras_allowed.eq(trrdcon.ready & tfawcon.ready)

        # tCCD timing (Column to Column delay) -----------------------------------------------------
        self.submodules.tccdcon = tccdcon = tXXDController(settings.timing.tCCD)
        self.comb += tccdcon.valid.eq(choose_req.accept() & (choose_req.write() | choose_req.read()))

        # CAS control ------------------------------------------------------------------------------
        self.comb += cas_allowed.eq(tccdcon.ready)

        # tWTR timing (Write to Read delay) --------------------------------------------------------
        write_latency = math.ceil(settings.phy.cwl / settings.phy.nphases)
        self.submodules.twtrcon = twtrcon = tXXDController(
            settings.timing.tWTR + write_latency +
            # tCCD must be added since tWTR begins after the transfer is complete
            settings.timing.tCCD if settings.timing.tCCD is not None else 0)
        self.comb += twtrcon.valid.eq(choose_req.accept() & choose_req.write())

        # Read/write turnaround --------------------------------------------------------------------
        read_available = Signal()
        write_available = Signal()
        reads = [req.valid & req.is_read for req in requests]
        writes = [req.valid & req.is_write for req in requests]
        self.comb += [
            read_available.eq(reduce(or_, reads)),
            write_available.eq(reduce(or_, writes))
        ]

        # Anti Starvation --------------------------------------------------------------------------

        def anti_starvation(timeout):
            en = Signal()
            max_time = Signal()
            if timeout:
                t = timeout - 1
                time = Signal(max=t+1)
                self.comb += max_time.eq(time == 0)
                self.sync += If(~en,
                        time.eq(t)
                    ).Elif(~max_time,
                        time.eq(time - 1)
                    )
            else:
                self.comb += max_time.eq(0)
            return en, max_time

        read_time_en,   max_read_time = anti_starvation(settings.read_time)
        write_time_en, max_write_time = anti_starvation(settings.write_time)

        # Refresh ----------------------------------------------------------------------------------
        self.comb += [bm.refresh_req.eq(refresher.cmd.valid) for bm in bank_machines]
        go_to_refresh = Signal()
        bm_refresh_gnts = [bm.refresh_gnt for bm in bank_machines]
        self.comb += go_to_refresh.eq(reduce(and_, bm_refresh_gnts))

        # Datapath ---------------------------------------------------------------------------------
        all_rddata = [p.rddata for p in dfi.phases]
        all_wrdata = [p.wrdata for p in dfi.phases]
        all_wrdata_mask = [p.wrdata_mask for p in dfi.phases]
        self.comb += [
            interface.rdata.eq(Cat(*all_rddata)),
            Cat(*all_wrdata).eq(interface.wdata),
            Cat(*all_wrdata_mask).eq(~interface.wdata_we)
        ]

        def steerer_sel(steerer, access):
            assert access in ["read", "write"]
            r = []
            for i in range(nphases):
                r.append(steerer.sel[i].eq(STEER_NOP))
                if access == "read":
                    r.append(If(i == rdphase,    steerer.sel[i].eq(STEER_REQ)))
                    r.append(If(i == rdcmdphase, steerer.sel[i].eq(STEER_CMD)))
                if access == "write":
                    r.append(If(i == wrphase,    steerer.sel[i].eq(STEER_REQ)))
                    r.append(If(i == wrcmdphase, steerer.sel[i].eq(STEER_CMD)))
            return r

        # Control FSM ------------------------------------------------------------------------------
        self.submodules.fsm = fsm = FSM()
        fsm.act("READ",
            read_time_en.eq(1),
            choose_req.want_reads.eq(1),
            If(settings.phy.nphases == 1,
                choose_req.cmd.ready.eq(cas_allowed & (~choose_req.activate() | ras_allowed))
            ).Else(
                choose_cmd.want_activates.eq(ras_allowed),
                choose_cmd.cmd.ready.eq(~choose_cmd.activate() | ras_allowed),
                choose_req.cmd.ready.eq(cas_allowed)
            ),
            steerer_sel(steerer, access="read"),
            If(write_available,
                # TODO: switch only after several cycles of ~read_available?
                If(~read_available | max_read_time,
                    NextState("RTW")
                )
            ),
            If(go_to_refresh,
                NextState("REFRESH")
            )
        )
        fsm.act("WRITE",
            write_time_en.eq(1),
            choose_req.want_writes.eq(1),
            If(settings.phy.nphases == 1,
                choose_req.cmd.ready.eq(cas_allowed & (~choose_req.activate() | ras_allowed))
            ).Else(
                choose_cmd.want_activates.eq(ras_allowed),
                choose_cmd.cmd.ready.eq(~choose_cmd.activate() | ras_allowed),
                choose_req.cmd.ready.eq(cas_allowed),
            ),
            steerer_sel(steerer, access="write"),
            If(read_available,
                If(~write_available | max_write_time,
                    NextState("WTR")
                )
            ),
            If(go_to_refresh,
                NextState("REFRESH")
            )
        )
        fsm.act("REFRESH",
            steerer.sel[0].eq(STEER_REFRESH),
            refresher.cmd.ready.eq(1),
            If(refresher.cmd.last,
                NextState("READ")
            )
        )
        fsm.act("WTR",
            If(twtrcon.ready,
                NextState("READ")
            )
        )
        # TODO: reduce this, actual limit is around (cl+1)/nphases
        fsm.delayed_enter("RTW", "WRITE", settings.phy.read_latency-1)

        if settings.with_bandwidth:
            data_width = settings.phy.dfi_databits*settings.phy.nphases
            self.submodules.bandwidth = Bandwidth(self.choose_req.cmd, data_width)

# ======================================================================================================
# keep_3 specific
# ======================================================================================================

class _S(Settings):
    def __init__(self, **kw):
        self.set_attributes(kw)


class _BMStub:
    def __init__(self, babits, abits):
        self.cmd = stream.Endpoint(cmd_request_rw_layout(a=abits, ba=babits))
        self.refresh_req = Signal()
        self.refresh_gnt = Signal()


class _RefresherStub:
    def __init__(self, babits, abits):
        self.cmd = stream.Endpoint(cmd_request_rw_layout(a=abits, ba=babits))


def _state_name(fsm, v):
    n = fsm.decoding[v]
    return n if isinstance(n, str) else "RTW"   # anonymous states of delayed_enter


class _MuxDUT(Module):
    def __init__(self, cls, mk_settings):
        from litedram.phy import dfi as dfi_mod
        s = mk_settings()
        abits, babits = s.geom.addressbits, s.geom.bankbits
        self.bms = [_BMStub(babits, abits) for _ in range(2**babits)]
        self.refresher = _RefresherStub(babits, abits)
        self.dfi = dfi_mod.Interface(addressbits=abits, bankbits=babits, nranks=1,
            databits=s.phy.dfi_databits, nphases=s.phy.nphases)
        self.interface = LiteDRAMInterface(address_align=0, settings=s)
        self.submodules.mux = cls(s, self.bms, self.refresher, self.dfi, self.interface)

    def outputs(self):
        o = []
        for p in self.dfi.phases:
            o += [p.address, p.bank, p.cas_n, p.ras_n, p.we_n, p.cs_n, p.rddata_en, p.wrdata_en,
                  p.wrdata, p.wrdata_mask]
        for bm in self.bms:
            o += [bm.cmd.ready, bm.refresh_req]
        o += [self.refresher.cmd.ready, self.interface.rdata]
        return o


def lockstep_multiplexer(seed):
    from litedram.core.multiplexer import Multiplexer
    rng = random.Random(mix(seed, 2718))
    read_latency = 1 + (seed % 9)          # 1..9 -> RTW length 0..8
    nphases = rng.choice([1, 2, 4])
    rdphase = rng.randrange(nphases); wrphase = rng.randrange(nphases)
    cwl = rng.choice([2, 3, 5])
    timing = dict(tWTR=rng.choice([1, 2, 4]), tFAW=rng.choice([None, 6]), tCCD=rng.choice([1, 2]),
                  tRRD=rng.choice([None, 2]))
    read_time = rng.choice([0, 6, 32]); write_time = rng.choice([0, 5, 16])
    def mk():
        s = _S(read_time=read_time, write_time=write_time, with_bandwidth=False)
        s.phy    = _S(nphases=nphases, rdphase=rdphase, wrphase=wrphase, read_latency=read_latency, cwl=cwl,
                      nranks=1, databits=8, dfi_databits=16, memtype="DDR2")
        s.geom   = _S(bankbits=2, rowbits=13, colbits=10, addressbits=13)
        s.timing = _S(**timing)
        return s
    class Pair(Module):
        def __init__(self):
            self.submodules.new = _MuxDUT(Multiplexer, mk)
            self.submodules.ref = _MuxDUT(RefMultiplexer, mk)
    dut = Pair()
    o_new = dut.new.outputs(); o_ref = dut.ref.outputs()
    nb = 4
    ncycles = 2500
    stats = dict(rtw=0, accepted=0, refresh=0)
    p_new = rng.choice([0.15, 0.4, 0.8])
    wbias = [rng.random() for _ in range(nb)]

    def gen():
        cur = [None]*nb                    # request presented by each bank machine stub
        refresh = 0; ref_seq = 0; gnt_delay = [0]*nb
        hist = []
        for t in range(ncycles):
            vn = []; vr = []
            for s in o_new: vn.append((yield s))
            for s in o_ref: vr.append((yield s))
            sn = _state_name(dut.new.mux.fsm, (yield dut.new.mux.fsm.state))
            sr = _state_name(dut.ref.mux.fsm, (yield dut.ref.mux.fsm.state))
            if vn != vr or sn != sr:
                raise TBError("multiplexer lock-step seed %d (read_latency %d) cycle %d: new != ref (%s/%s)\n%r\n%r" % (
                    seed, read_latency, t, sn, sr, vn, vr))
            hist.append(sn)
            base = len(dut.new.dfi.phases)*10
            readys = [vr[base + 2*i] for i in range(nb)]
            refresh_req = vr[base + 1]
            ref_ready = vr[base + 2*nb]
            # bank machine stubs: hold a request until accepted; withdraw when asked to refresh
            for i in range(nb):
                if cur[i] is not None and readys[i]:
                    cur[i] = None; stats["accepted"] += 1
                if refresh_req:
                    if gnt_delay[i] > 0:
                        gnt_delay[i] -= 1
                    if gnt_delay[i] == 0 and (cur[i] is None or rng.random() < 0.5):
                        cur[i] = None; gnt = 1
                    else:
                        gnt = 0
                else:
                    gnt = 0; gnt_delay[i] = rng.randrange(0, 4)
                    if cur[i] is None and rng.random() < p_new:
                        r = rng.random()
                        if r < 0.7:
                            w = rng.random() < wbias[i]
                            cur[i] = dict(cas=1, ras=0, we=int(w), is_cmd=0, is_read=int(not w), is_write=int(w))
                        elif r < 0.85:
                            cur[i] = dict(cas=0, ras=1, we=0, is_cmd=1, is_read=0, is_write=0)   # ACT
                        else:
                            cur[i] = dict(cas=0, ras=1, we=1, is_cmd=1, is_read=0, is_write=0)   # PRE
                        cur[i]["a"] = rng.randrange(1 << 13)
                    if rng.random() < 0.02:
                        wbias[i] = rng.random()
                for d in (dut.new, dut.ref):
                    c = d.bms[i].cmd
                    yield d.bms[i].refresh_gnt.eq(gnt)
                    yield c.valid.eq(1 if cur[i] else 0)
                    req = cur[i] or dict(cas=0, ras=0, we=0, is_cmd=0, is_read=0, is_write=0, a=mix(t, i) & 0x1fff)
                    for k, v in req.items():
                        yield getattr(c, k).eq(v)
                    yield c.ba.eq(i)
            # refresher stub
            last = 0
            if refresh == 0:
                if rng.random() < 0.01:
                    refresh = 1; ref_seq = 0
            elif ref_ready:
                ref_seq += 1
                if ref_seq >= 4:
                    last = 1
            if refresh and last and ref_seq > 4:
                refresh = 0; last = 0; stats["refresh"] += 1
            for d in (dut.new, dut.ref):
                rc = d.refresher.cmd
                yield rc.valid.eq(1 if (refresh and not last) else 0)
                yield rc.last.eq(last)
                yield rc.ras.eq(1 if ref_seq in (1, 3) else 0); yield rc.cas.eq(1 if ref_seq == 3 else 0)
                yield rc.we.eq(1 if ref_seq == 1 else 0); yield rc.a.eq(1 << 10)
            # data
            rdata = rng.getrandbits(16*nphases); wdata = rng.getrandbits(16*nphases); wwe = rng.getrandbits(2*nphases)
            for d in (dut.new, dut.ref):
                for pi, p in enumerate(d.dfi.phases):
                    yield p.rddata.eq((rdata >> (16*pi)) & 0xffff)
                yield d.interface.wdata.eq(wdata); yield d.interface.wdata_we.eq(wwe)
            yield
        # RTW visits: exactly read_latency-1 cycles, READ before, WRITE after
        i = 0
        while i < len(hist):
            if hist[i] == "RTW":
                j = i
                while j < len(hist) and hist[j] == "RTW":
                    j += 1
                if j < len(hist):
                    if j - i != read_latency - 1 or hist[i-1] != "READ" or hist[j] != "WRITE":
                        raise TBError("seed %d: RTW visit %s..%s wrong (len %d, expected %d)" % (seed, hist[i-1], hist[j], j-i, read_latency-1))
                    stats["rtw"] += 1
                i = j
            else:
                if i > 0 and hist[i-1] == "READ" and hist[i] == "WRITE":
                    if read_latency - 1 != 0:
                        raise TBError("seed %d: READ->WRITE without RTW" % seed)
                    stats["rtw"] += 1
                i += 1
    run_simulation(dut, gen())
    return stats


def rtw_monitor(dut, cfg, stats):
    # whole-core monitor: RTW lasts exactly read_latency-1 cycles between READ and WRITE
    fsm = dut.controller.multiplexer.fsm
    want = dut.phy.read_latency - 1
    stats["rtw"] = 0
    @passive
    def mon():
        prev = None; run = 0
        while True:
            s = _state_name(fsm, (yield fsm.state))
            if s == "RTW":
                if run == 0 and prev != "READ":
                    raise TBError("[%s] RTW entered from %s" % (cfg.name(), prev))
                run += 1
            else:
                if run:
                    if run != want or s != "WRITE":
                        raise TBError("[%s] RTW lasted %d cycles (expected %d), then %s" % (cfg.name(), run, want, s))
                    stats["rtw"] += 1
                run = 0
            prev = s
            yield
    return [mon()]


def _ls_worker(seed):
    try:
        return seed, lockstep_multiplexer(seed), None
    except Exception as e:
        return seed, None, "%s\n%s" % (e, traceback.format_exc())


def _worker3(cfg):
    try:
        h, st = run_cfg(cfg, extra_gens=rtw_monitor)
        return cfg.name(), h, st, None
    except Exception as e:
        return cfg.name(), None, None, "%s\n%s" % (e, traceback.format_exc())


def main():
    import multiprocessing as mp
    bad = 0
    nproc = min(8, os.cpu_count() or 1)
    with mp.Pool(nproc) as pool:
        ls = pool.map_async(_ls_worker, range(1, 19), chunksize=1)
        wc = pool.map_async(_worker3, make_cfgs(), chunksize=1)
        ls = ls.get(); wc = wc.get()
    tot = dict(rtw=0, accepted=0, refresh=0)
    for seed, c, e in ls:
        if e:
            bad += 1; print("FAIL lock-step seed", seed, e)
        else:
            print("lock-step seed %2d read_latency %d: %r" % (seed, 1 + seed % 9, c))
            for k in tot: tot[k] += c[k]
            if c["rtw"] < 3:
                bad += 1; print("FAIL: too few read->write turnarounds in seed", seed)
    print("multiplexer lock-step vs unmodified copy: 18 runs x 2500 cycles:", tot)
    for name, h, st, e in wc:
        if e:
            bad += 1; print("FAIL", name, e)
        elif GOLDEN.get(name) != h:
            bad += 1; print("FAIL", name, "property checks pass but trace differs from unmodified tree", h)
        else:
            print("ok  ", name, "(C01 checks pass, cycle-exact = unmodified)", st)
    print("RESULT:", "FAIL" if bad else "PASS")
    sys.exit(1 if bad else 0)


if __name__ == "__main__":
    main()
