#!/usr/bin/env python3
# Check script for the C15 property (ECC port: SECDED + byte-enable granularity), driving the real
# litedram/frontend/ecc.py through migen.sim. Run from the root of the tree under test.
import os, sys, random, itertools
sys.path.insert(0, os.getcwd())

from migen import *
import litex.soc.interconnect.csr as csrmod
import litex.soc.cores.ecc as lxecc
from litex.soc.cores.ecc import compute_m_n, compute_data_positions

# The installed litex cannot derive CSR names under this python and has no CSR.wr_stb: thin shims
# (only naming / strobe alias, no behaviour) so that LiteDRAMNativePortECC can be instantiated.
_cnt = [0]
def _name():
    _cnt[0] += 1
    return "csr%d" % _cnt[0]
class _CSR(csrmod.CSR):
    def __init__(self, size=1, name=None, **kw):
        csrmod.CSR.__init__(self, size, name=name or _name(), **kw)
        if not hasattr(self, "wr_stb"):
            self.wr_stb = self.re
class _CSRStorage(csrmod.CSRStorage):
    def __init__(self, size=1, name=None, **kw):
        csrmod.CSRStorage.__init__(self, size, name=name or _name(), **kw)
class _CSRStatus(csrmod.CSRStatus):
    def __init__(self, size=1, name=None, **kw):
        csrmod.CSRStatus.__init__(self, size, name=name or _name(), **kw)

import litedram.frontend.ecc as eccmod
eccmod.CSR, eccmod.CSRStorage, eccmod.CSRStatus = _CSR, _CSRStorage, _CSRStatus
from litedram.common import LiteDRAMNativePort

CHANGE = int(os.environ.get("KEEP_CHANGE", "1"))

def lane_to_width(k):
    _, n = compute_m_n(k)
    return ((n + 1 + 7)//8)*8

class DUT(Module):
    def __init__(self, k, bc, **kw):
        self.k, self.bc, self.wt = k, bc, lane_to_width(k)
        self.pf = LiteDRAMNativePort("both", 8, k*bc)
        self.pt = LiteDRAMNativePort("both", 8, self.wt*bc)
        self.submodules.ecc = eccmod.LiteDRAMNativePortECC(self.pf, self.pt, burst_cycles=bc,
            with_error_injection=True, with_we_error_detection=True, **kw)

def find_we_error(ecc):
    # we_error of the (possibly wrapped) write module.
    for _, sm in ecc._submodules:
        for cand in (sm, getattr(sm, "submodules", None)):
            pass
    found = []
    def walk(m, depth=0):
        if hasattr(m, "we_error") and isinstance(getattr(m, "we_error"), Signal):
            found.append(m.we_error)
        if depth < 4 and hasattr(m, "_submodules"):
            for _, s in m._submodules:
                walk(s, depth + 1)
    walk(ecc)
    assert found
    return found[0]

def run_config(k, bc, items, inject_lane=None, seed=0, timeout=40):
    """items: list of (data, we, [flipmask per lane]) ; returns nothing, asserts."""
    kw = {}
    if inject_lane is not None:
        kw["flip_lane"] = inject_lane
    dut = DUT(k, bc, **kw)
    wt  = dut.wt
    _, n = compute_m_n(k)
    ecc = dut.ecc
    prng = random.Random(seed)
    stored_log, rd_log = [], []
    done = [False]

    def monitor():
        while not done[0]:
            if (yield dut.pt.wdata.valid) and (yield dut.pt.wdata.ready):
                stored_log.append(((yield dut.pt.wdata.data), (yield dut.pt.wdata.we)))
            if (yield dut.pf.rdata.valid) and (yield dut.pf.rdata.ready):
                rd_log.append((yield dut.pf.rdata.data))
            yield

    def counters():
        return ((yield ecc.sec_errors.status), (yield ecc.ded_errors.status), (yield ecc.we_errors.status),
                (yield ecc.sec_detected), (yield ecc.ded_detected))

    def main():
        we_error = find_we_error(ecc)
        yield dut.pt.wdata.ready.eq(1)
        yield dut.pf.rdata.ready.eq(1)
        yield ecc.enable.storage.eq(1)
        yield
        cum_sec = cum_ded = 0
        for idx, (data, we, flips) in enumerate(items):
            use_csr_flip = False
            c0 = yield from counters()
            # ---- write
            nst, nrd = len(stored_log), len(rd_log)
            yield dut.pf.wdata.valid.eq(1)
            yield dut.pf.wdata.data.eq(data)
            yield dut.pf.wdata.we.eq(we)
            yield
            t = 0
            while not (yield dut.pf.wdata.ready):
                yield; t += 1; assert t < timeout
            lane_we   = [(we >> (i*k//8)) & (2**(k//8) - 1) for i in range(bc)]
            partial   = any(w != 2**(k//8) - 1 for w in lane_we)
            assert (yield we_error) == int(partial), ("we_error flag", k, bc, hex(we))
            yield dut.pf.wdata.valid.eq(0)
            t = 0
            while len(stored_log) == nst:
                yield; t += 1; assert t < timeout, "write never reached port_to"
            yield; yield
            assert len(stored_log) == nst + 1
            sdata, swe = stored_log[-1]
            for i in range(bc):
                exp = (2**(wt//8) - 1) if lane_we[i] else 0
                assert (swe >> (i*wt//8)) & (2**(wt//8) - 1) == exp, ("stored we", k, bc, i, hex(we), hex(swe))
            c1 = yield from counters()
            assert c1[2] - c0[2] == int(partial), ("we_errors count", c0, c1, partial)
            assert c1[:2] == c0[:2]
            # ---- read back with flips
            mask = 0
            for i, f in enumerate(flips):
                assert f < 2**(n + 1)
                mask |= f << (i*wt)
            yield dut.pt.rdata.valid.eq(1)
            yield dut.pt.rdata.data.eq(sdata ^ mask)
            yield
            t = 0
            while not (yield dut.pt.rdata.ready):
                yield; t += 1; assert t < timeout
            yield dut.pt.rdata.valid.eq(0)
            t = 0
            while len(rd_log) == nrd:
                yield; t += 1; assert t < timeout, "read never reached port_from"
            yield; yield; yield
            assert len(rd_log) == nrd + 1
            rdata = rd_log[-1]
            nflips = [bin(f).count("1") for f in flips]
            assert all(c <= 2 for c in nflips)
            for i in range(bc):
                if nflips[i] <= 1:
                    got = (rdata >> (i*k)) & (2**k - 1)
                    exp = (data  >> (i*k)) & (2**k - 1)
                    assert got == exp, ("data", k, bc, i, hex(flips[i]), hex(got), hex(exp))
            exp_sec = int(any(c == 1 and f != 1 for c, f in zip(nflips, flips)))
            exp_ded = int(any(c == 2 for c in nflips))
            c2 = yield from counters()
            assert c2[0] - c1[0] == exp_sec, ("sec count", k, bc, [hex(f) for f in flips], c1, c2)
            assert c2[1] - c1[1] == exp_ded, ("ded count", k, bc, [hex(f) for f in flips], c1, c2)
            assert c2[2] == c1[2]
            cum_sec += exp_sec; cum_ded += exp_ded
            assert c2[3] == int(cum_sec > 0) and c2[4] == int(cum_ded > 0), ("sticky", c2, cum_sec, cum_ded)
            assert c2[0] == cum_sec and c2[1] == cum_ded
            # ---- occasional clear
            if prng.random() < 0.02:
                yield from ecc.clear.write(1)
                yield
                c3 = yield from counters()
                assert c3 == (0, 0, 0, 0, 0), ("clear", c3)
                cum_sec = cum_ded = 0
        done[0] = True
        yield

    run_simulation(dut, [main(), monitor()])

def flip_items(k, bc, prng, max_pairs=None):
    """All single flips and all (or max_pairs sampled) double flips, spread over the lanes."""
    _, n = compute_m_n(k)
    singles = [1 << p for p in range(n + 1)]
    doubles = [(1 << a) | (1 << b) for a, b in itertools.combinations(range(n + 1), 2)]
    if max_pairs is not None and len(doubles) > max_pairs:
        doubles = prng.sample(doubles, max_pairs)
    full = 2**(k*bc//8) - 1
    items = [(prng.getrandbits(k*bc), full, [0]*bc)]
    # singles: one lane at a time (so that sec/parity-bit distinction is exact), other lanes clean.
    for j, s in enumerate(singles):
        fl = [0]*bc; fl[j % bc] = s
        items.append((prng.getrandbits(k*bc), full, fl))
    # doubles: different pair in every lane; sometimes one lane gets a single or stays clean.
    for j in range(0, len(doubles), bc):
        fl = doubles[j:j + bc]
        fl = fl + [0]*(bc - len(fl))
        if prng.random() < 0.2:
            fl[prng.randrange(bc)] = prng.choice(singles + [0])
            if not any(bin(f).count("1") == 2 for f in fl):
                fl[0] = doubles[j]
        items.append((prng.choice([0, 2**(k*bc) - 1, prng.getrandbits(k*bc)]), full, fl))
    return items

def we_items(k, bc, prng, count):
    items = []
    nb = k*bc//8
    full = 2**nb - 1
    pats = [0, full, 1, full >> 1, full & ~1] + [prng.getrandbits(nb) for _ in range(count)]
    lane_full = 2**(k//8) - 1
    for _ in range(count):   # whole lanes on/off: still partial unless everything is on
        w = 0
        for i in range(bc):
            if prng.random() < 0.7:
                w |= lane_full << (i*k//8)
        pats.append(w)
    for w in pats:
        items.append((prng.getrandbits(k*bc), w, [0]*bc))
    return items

def main():
    prng = random.Random(1234)
    quick = os.environ.get("KEEP_FULL") != "1"
    configs = [(8, 2, None), (16, 2, None), (32, 2, 300), (64, 2, 400)] if not quick else [(8, 2, None), (32, 2, None), (64, 2, None)]
    for k, bc, max_pairs in configs:
        if quick:
            max_pairs = 24
        items = flip_items(k, bc, prng, max_pairs) + we_items(k, bc, prng, 20)
        prng.shuffle(items)
        run_config(k, bc, items, seed=k*bc)
        print("ok: lane %d bits x %d lanes, %d transactions" % (k, bc, len(items)))
    extra()
    print("PASS")


def extra():
    # Equivalence with the stock litex decoder on arbitrary (not only <=2 flips) stored words.
    prng = random.Random(7)
    for k in (8, 16, 32, 64):
        m, n = compute_m_n(k)
        class T(Module):
            def __init__(self):
                self.submodules.a = eccmod._ECCDataDecoder(k)
                self.submodules.b = lxecc.ECCDecoder(k)
                self.submodules.e = lxecc.ECCEncoder(k)
        t = T()
        def gen():
            for it in range(400 if k <= 16 else 150):
                d = prng.getrandbits(k)
                yield t.e.i.eq(d)
                yield
                cw = (yield t.e.o)
                r = prng.random()
                if r < 0.3:   w = prng.getrandbits(n + 1)
                elif r < 0.5: w = cw ^ (1 << prng.randrange(n + 1))
                elif r < 0.8: w = cw ^ (1 << prng.randrange(n + 1)) ^ (1 << prng.randrange(n + 1))
                else:         w = cw ^ prng.getrandbits(n + 1) & prng.getrandbits(n + 1)
                en = int(prng.random() < 0.85)
                for x in (t.a, t.b):
                    yield x.i.eq(w)
                    yield x.enable.eq(en)
                yield
                ra = ((yield t.a.o), (yield t.a.sec), (yield t.a.ded))
                rb = ((yield t.b.o), (yield t.b.sec), (yield t.b.ded))
                assert ra == rb, (k, hex(w), en, ra, rb)
        run_simulation(t, gen())
        print("ok: decoder equivalence k=%d" % k)

if __name__ == "__main__":
    main()
