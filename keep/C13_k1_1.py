import os, sys, random
sys.path.insert(0, os.getcwd())

from migen import *
from litedram.common import LiteDRAMNativeWritePort, LiteDRAMNativeReadPort
from litedram.frontend.fifo import LiteDRAMFIFO, _LiteDRAMFIFO


class FIFODUT(Module):
    def __init__(self, data_width, ratio, base_words, depth_words, with_bypass, core=False, fifo_cls=None, **kwargs):
        pdw = data_width*ratio
        self.pdw = pdw
        self.write_port = LiteDRAMNativeWritePort(address_width=32, data_width=pdw)
        self.read_port  = LiteDRAMNativeReadPort(address_width=32,  data_width=pdw)
        self.base_words  = base_words
        self.depth_words = depth_words
        if core:
            # DRAM FIFO proper (ctrl + writer + reader on the DMA engines), without the pre/post FIFOs.
            assert ratio == 1 and not with_bypass
            self.submodules.fifo = (fifo_cls or _LiteDRAMFIFO)(data_width, base_words, depth_words,
                self.write_port, self.read_port, **kwargs)
            self.ctrl = self.fifo.ctrl
            return
        self.submodules.fifo = (fifo_cls or LiteDRAMFIFO)(
            data_width  = data_width,
            base        = base_words*(pdw//8),
            depth       = depth_words*(pdw//8),
            write_port  = self.write_port,
            read_port   = self.read_port,
            with_bypass = with_bypass,
            **kwargs)
        self.ctrl = self.fifo.dram_fifo.ctrl


class Violation(Exception):
    pass


def env(dut, prng, n_words, cfg, log):
    """One generator = producer + consumer + linearizable DRAM model on both native ports.

    The DRAM model executes commands in the order they were accepted (a read accepted after a
    write observes it, a write accepted after a read does not disturb it), with random command
    stalls, random write-data stalls and random read latency.
    """
    fifo = dut.fifo
    wp, rp = dut.write_port, dut.read_port
    data_mask = 2**len(fifo.sink.data) - 1
    we_full   = 2**(dut.pdw//8) - 1
    lo, hi = dut.base_words, dut.base_words + dut.depth_words

    mem     = {}      # addr -> data
    unread  = set()   # addresses holding data not read yet
    ops     = []      # accepted commands in order: ["w", addr, data|None] / ["r", addr]
    wnodata = []      # write ops waiting for their data (in order)
    rret    = []      # [ready_cycle, data] read returns in order

    sent, recv = [], log["recv"]
    log["sent"] = sent
    next_val = 0
    cycle = 0
    idle = 0
    max_level = 0

    # phase handling: (p_sink_valid, p_source_ready) change from time to time
    def new_phase():
        kind = prng.choice(cfg["phases"])
        return kind, prng.randrange(*cfg["phase_len"])
    (p_w, p_r), phase_left = new_phase()

    sink_valid = 0
    rdata_valid = 0
    lenient = cfg.get("lenient", False)   # record violations instead of raising (trace comparison runs)
    trace   = log.get("trace")            # per-cycle record of everything the FIFO drives
    def violation(msg):
        if not lenient:
            raise Violation(msg)
        log.setdefault("violations", []).append(msg)
    while True:
        if trace is not None:
            trace.append((
                (yield fifo.sink.ready), (yield fifo.source.valid), (yield fifo.source.data),
                (yield wp.cmd.valid), (yield wp.cmd.we), (yield wp.cmd.addr),
                (yield wp.wdata.valid), (yield wp.wdata.data), (yield wp.wdata.we),
                (yield rp.cmd.valid), (yield rp.cmd.we), (yield rp.cmd.addr), (yield rp.rdata.ready),
                (yield dut.ctrl.level), (yield dut.ctrl.write_address), (yield dut.ctrl.read_address),
                (yield fifo.sink.valid)))
        # ---- sample this cycle ----
        if (yield fifo.sink.valid) and (yield fifo.sink.ready):
            sent.append((yield fifo.sink.data))
            sink_valid = 0
        if (yield fifo.source.valid) and (yield fifo.source.ready):
            d = (yield fifo.source.data)
            recv.append(d)
            if len(recv) > len(sent) or d != sent[len(recv)-1]:
                violation("cycle %d: output word #%d = %#x, expected %s" % (
                    cycle, len(recv)-1, d,
                    hex(sent[len(recv)-1]) if len(recv) <= len(sent) else "nothing (never sent)"))
            idle = 0
        if (yield wp.cmd.valid) and (yield wp.cmd.ready):
            if not (yield wp.cmd.we):
                violation("read command on the write port")
            a = (yield wp.cmd.addr)
            if not lo <= a < hi:
                violation("write address %d outside [%d,%d)" % (a, lo, hi))
            op = ["w", a, None]
            ops.append(op); wnodata.append(op)
        if (yield wp.wdata.valid) and (yield wp.wdata.ready):
            if (yield wp.wdata.we) != we_full:
                violation("partial write strobe")
            if not wnodata:
                violation("write data without command")
            else:
                wnodata.pop(0)[2] = (yield wp.wdata.data)
        if (yield rp.cmd.valid) and (yield rp.cmd.ready):
            if (yield rp.cmd.we):
                violation("write command on the read port")
            a = (yield rp.cmd.addr)
            if not lo <= a < hi:
                violation("read address %d outside [%d,%d)" % (a, lo, hi))
            ops.append(["r", a])
        if rdata_valid and (yield rp.rdata.ready):
            rret.pop(0)
            rdata_valid = 0
        # execute commands in acceptance order
        while ops:
            op = ops[0]
            if op[0] == "w":
                if op[2] is None:
                    break
                if op[1] in unread:
                    violation("cycle %d: address %d overwritten before being read" % (cycle, op[1]))
                mem[op[1]] = op[2]
                unread.add(op[1])
            else:
                if op[1] not in unread:
                    violation("cycle %d: address %d read while holding no unread data" % (cycle, op[1]))
                unread.discard(op[1])
                rret.append([cycle + prng.randrange(*cfg["rd_lat"]), mem.get(op[1], 0)])
            ops.pop(0)
        lvl = (yield dut.ctrl.level)
        max_level = max(max_level, lvl)
        if lvl > dut.depth_words:
            violation("cycle %d: level %d > depth %d" % (cycle, lvl, dut.depth_words))
        if len(unread) > dut.depth_words:
            violation("more unread words in DRAM than depth")

        # ---- drive next cycle ----
        phase_left -= 1
        if phase_left <= 0:
            (p_w, p_r), phase_left = new_phase()
        draining = len(sent) + sink_valid >= n_words
        if not sink_valid and not draining and prng.random() < p_w:
            sink_valid = 1
            next_val = prng.getrandbits(len(fifo.sink.data)) if cfg.get("rand_data", True) else (len(sent)+1) & data_mask
            yield fifo.sink.data.eq(next_val)
        yield fifo.sink.valid.eq(sink_valid)
        yield fifo.source.ready.eq(1 if (draining and not sink_valid and cfg.get("fast_drain", False)) else prng.random() < p_r)
        yield wp.cmd.ready.eq(prng.random() < cfg["p_wcmd"])
        yield wp.wdata.ready.eq(prng.random() < cfg["p_wdata"])
        yield rp.cmd.ready.eq(prng.random() < cfg["p_rcmd"])
        if not rdata_valid and rret and rret[0][0] <= cycle:
            rdata_valid = 1
            yield rp.rdata.data.eq(rret[0][1])
        yield rp.rdata.valid.eq(rdata_valid)

        if len(sent) >= n_words and len(recv) == len(sent):
            break
        if cycle >= cfg.get("max_cycles", 10**9):
            break
        idle += 1
        if idle > cfg.get("idle_limit", 4000):
            violation("cycle %d: no output for %d cycles (sent %d, received %d) - words lost / deadlock" % (
                cycle, idle, len(sent), len(recv)))
        cycle += 1
        yield
    log["cycles"] = cycle
    log["max_level"] = max_level
    # a few more cycles: nothing more may come out
    yield fifo.source.ready.eq(1)
    yield fifo.sink.valid.eq(0)
    for _ in range(64):
        yield
        if (yield fifo.source.valid):
            violation("extra word after the stream ended (duplicate)")


PHASES_DEFAULT = [(1.0, 1.0), (1.0, 0.0), (0.0, 1.0), (0.9, 0.1), (0.1, 0.9), (0.5, 0.5), (0.3, 0.3), (1.0, 0.5), (0.5, 1.0)]

def make_cfg(prng):
    return dict(
        phases    = PHASES_DEFAULT,
        phase_len = (5, 400),
        rd_lat    = prng.choice([(1, 2), (1, 8), (4, 30)]),
        p_wcmd    = prng.choice([1.0, 0.7, 0.3]),
        p_wdata   = prng.choice([1.0, 0.7, 0.3]),
        p_rcmd    = prng.choice([1.0, 0.7, 0.3]),
    )


def run_one(seed, data_width, ratio, depth_words, with_bypass, n_words, base_words=3, cfg=None, core=False, trace=False, dut_cls=None, **kwargs):
    prng = random.Random(seed)
    cfg = cfg or make_cfg(prng)
    dut = FIFODUT(data_width, ratio, base_words, depth_words, with_bypass, core=core, fifo_cls=dut_cls, **kwargs)
    log = {"recv": []}
    if trace:
        log["trace"] = []
    run_simulation(dut, env(dut, prng, n_words, cfg, log))
    if not cfg.get("lenient", False):
        assert log["recv"] == log["sent"] and len(log["sent"]) == n_words
    return log



# ---------------------------------------------------------------------------------------------------
# keep_1: _LiteDRAMFIFOCtrl with registered writable/readable flags (computed from the next level).
# ---------------------------------------------------------------------------------------------------
from litedram.frontend.fifo import _LiteDRAMFIFOCtrl


def ctrl_check(depth, seed, cycles, gated):
    """Cycle-exact comparison of the controller with a plain Python model of a circular buffer."""
    prng = random.Random(seed)
    dut = _LiteDRAMFIFOCtrl(base=5, depth=depth)
    nbits = len(dut.level)
    errors = []

    def step(state, inputs):
        level, produce, consume = state
        wr, rd = inputs
        if wr: produce = (produce + 1) % depth
        if rd: consume = (consume + 1) % depth
        return ((level + wr - rd) % 2**nbits, produce, consume)

    def gen():
        state  = (0, 0, 0)   # level, produce, consume visible in this cycle
        cur_in = (0, 0)      # write, read strobes visible in this cycle
        seen = set()
        p_w, p_r = 0.5, 0.5
        for cycle in range(cycles):
            if cycle % 64 == 0:
                p_w, p_r = prng.choice([(0.9, 0.1), (0.1, 0.9), (0.5, 0.5), (1.0, 1.0), (1.0, 0.0), (0.0, 1.0)])
            level, produce, consume = state
            got = ((yield dut.level), (yield dut.write_address), (yield dut.read_address),
                   (yield dut.writable), (yield dut.readable), (yield dut.write), (yield dut.read))
            exp = (level, produce, consume, int(level < depth), int(level > 0)) + cur_in
            if got != exp:
                errors.append("depth %d cycle %d: got %s expected %s" % (depth, cycle, got, exp))
                return
            seen.add(level)
            if gated:
                # the pointers never overtake each other
                assert level <= depth and (consume + level) % depth == produce
            nxt = step(state, cur_in)
            # strobes of the next cycle (a generator write becomes visible after the next edge); when
            # gated they respect writable/readable of that cycle as the FIFO writer/reader do.
            wr = int(prng.random() < p_w)
            rd = int(prng.random() < p_r)
            if gated:
                wr &= int(nxt[0] < depth)
                rd &= int(nxt[0] > 0)
            yield dut.write.eq(wr)
            yield dut.read.eq(rd)
            yield
            state, cur_in = nxt, (wr, rd)
        if gated and seen != set(range(depth+1)):
            errors.append("depth %d: not all levels visited: %s" % (depth, sorted(seen)))

    run_simulation(dut, gen())
    return errors


def prop_job(args):
    kind, seed, depth, extra = args
    try:
        if kind == "core":
            log = run_one(seed, 16, 1, depth, False, extra["n"], core=True, **extra.get("kw", {}))
        elif kind == "full":
            log = run_one(seed, 16, 1, depth, False, extra["n"], **extra.get("kw", {}))
        elif kind == "bypass1":
            log = run_one(seed, 16, 1, depth, True, extra["n"], **extra.get("kw", {}))
        return (args, None, log["cycles"], log["max_level"])
    except Violation as e:
        return (args, str(e), 0, 0)


def ctrl_job(args):
    return (args, ctrl_check(*args))


if __name__ == "__main__":
    from multiprocessing import Pool
    scale = float(os.environ.get("KEEP_SCALE", "1"))
    nproc = int(os.environ.get("KEEP_NPROC", "8"))
    fail = 0
    with Pool(nproc) as pool:
        # A. controller alone against the model: every depth 2..12, 16, 17, 32; gated and ungated strobes.
        jobs = [(d, 1000*d + g, int(3000*scale), bool(g)) for d in list(range(2, 13)) + [16, 17, 32] for g in (1, 0)]
        for args, errors in pool.imap_unordered(ctrl_job, jobs):
            if errors:
                fail += 1
                print("CTRL MISMATCH", args, errors[0])
        print("ctrl model comparison done (%d runs)" % len(jobs), flush=True)

        # B. stream property on the real FIFO: lossless / ordered / bounded under random stalls.
        prng = random.Random(2024)
        jobs = []
        for seed in range(int(40*scale)):
            depth = prng.choice([2, 3, 4, 5, 7, 8, 16])
            jobs.append(("core", seed, depth, dict(n=max(400, 40*depth))))
        for seed in range(int(8*scale)):
            depth = prng.choice([2, 3, 5, 8])
            jobs.append(("full", 500 + seed, depth, dict(n=300, kw=dict(pre_fifo_depth=prng.choice([2, 4, 16]), post_fifo_depth=prng.choice([2, 4, 16])))))
        for seed in range(int(8*scale)):
            depth = prng.choice([2, 3, 5, 8])
            jobs.append(("bypass1", 900 + seed, depth, dict(n=300, kw=dict(pre_fifo_depth=prng.choice([2, 4, 16]), post_fifo_depth=prng.choice([2, 4, 16])))))
        total = 0
        full_seen = 0
        for args, err, cycles, max_level in pool.imap_unordered(prop_job, jobs):
            total += cycles
            if err:
                fail += 1
                print("VIOLATION", args, err, flush=True)
            elif max_level == args[2]:
                full_seen += 1
        print("stream property: %d runs, %d cycles, %d runs reached level == depth" % (len(jobs), total, full_seen))
        if full_seen < len(jobs)//3:
            print("WEAK: the full condition was rarely exercised"); fail += 1
    print("FAIL" if fail else "PASS")
    sys.exit(1 if fail else 0)
