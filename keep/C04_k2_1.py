# ---- common harness: full LiteDRAMController under random traffic, REF/PRE/ZQC times observed on DFI ----
import os, sys, random
sys.path.insert(0, os.getcwd())

from migen import *

from litedram.common import PhySettings, GeomSettings, TimingSettings
from litedram.core.controller import ControllerSettings, LiteDRAMController

TRAFFIC_MODES = ["idle", "saturate", "single-bank", "all-write", "all-read", "random", "bursty", "row-thrash"]


def build_controller(cfg, refresh_cls=None):
    nphases = cfg["nphases"]
    memtype = "SDR" if nphases == 1 else cfg.get("memtype", "DDR3")
    phy = PhySettings(
        phytype       = "SIM",
        memtype       = memtype,
        databits      = 8,
        dfi_databits  = 16,
        nphases       = nphases,
        rdphase       = cfg.get("rdphase", 0),
        wrphase       = cfg.get("wrphase", nphases - 1),
        cl            = cfg.get("cl", 3),
        cwl           = cfg.get("cwl", 2),
        read_latency  = cfg.get("read_latency", 5),
        write_latency = 1,
        nranks        = cfg.get("nranks", 1),
    )
    geom   = GeomSettings(bankbits=cfg["bankbits"], rowbits=11, colbits=10)  # addressbits must hold A10
    timing = TimingSettings(
        tRP   = cfg["tRP"],  tRCD = cfg["tRCD"], tWR  = cfg["tWR"], tWTR = cfg["tWTR"],
        tREFI = cfg["tREFI"], tRFC = cfg["tRFC"], tFAW = cfg["tFAW"], tCCD = cfg["tCCD"],
        tRRD  = cfg["tRRD"], tRC  = cfg["tRC"],  tRAS = cfg["tRAS"], tZQCS = cfg["tZQCS"])
    kwargs = dict(
        cmd_buffer_depth    = cfg.get("cmd_buffer_depth", 4),
        cmd_buffer_buffered = cfg.get("cmd_buffer_buffered", False),
        read_time           = cfg.get("read_time", 32),
        write_time          = cfg.get("write_time", 16),
        refresh_postponing  = cfg["postponing"],
        refresh_zqcs_freq   = 1,
        with_auto_precharge = cfg.get("with_auto_precharge", True),
    )
    if refresh_cls is not None:
        kwargs["refresh_cls"] = refresh_cls
    settings = ControllerSettings(**kwargs)
    # int(clk_freq/zqcs_freq) == zqcs period in cycles
    return LiteDRAMController(phy, geom, timing, clk_freq=cfg.get("zqcs_period", 1000),
        controller_settings=settings)


def random_cfg(prng, **force):
    tRP  = prng.randint(1, 4)
    tRAS = prng.randint(2, 8)
    cfg = dict(
        nphases    = prng.choice([1, 2, 4]),
        bankbits   = prng.choice([1, 2, 3]),
        tRP        = tRP,
        tRCD       = prng.randint(1, 4),
        tWR        = prng.randint(1, 4),
        tWTR       = prng.randint(1, 4),
        tREFI      = prng.randint(100, 180),
        tRFC       = prng.randint(2, 14),
        tFAW       = prng.choice([None, 6, 10]),
        tCCD       = prng.choice([1, 2]),
        tRRD       = prng.choice([None, 2, 3]),
        tRAS       = tRAS,
        tRC        = tRAS + tRP,
        tZQCS      = prng.choice([None, prng.randint(4, 20)]),
        zqcs_period= prng.randint(500, 1500),
        postponing = prng.randint(1, 8),
        read_latency = prng.randint(3, 7),
        read_time  = prng.choice([0, 8, 32]),
        write_time = prng.choice([0, 8, 16]),
        with_auto_precharge = prng.choice([True, False]),
        cmd_buffer_depth    = prng.choice([4, 8]),
        cmd_buffer_buffered = prng.choice([False, True]),
        nranks     = 1,
    )
    if cfg["nphases"] > 1:
        cfg["rdphase"] = prng.randrange(cfg["nphases"])
        cfg["wrphase"] = prng.randrange(cfg["nphases"])
    cfg.update(force)
    return cfg


def traffic_generator(ctrl, bank, mode, prng, stats):
    """Drives one bank port (the crossbar side of a bank machine)."""
    port     = getattr(ctrl.interface, "bank" + str(bank))
    nbanks   = ctrl.interface.nbanks
    colshift = len(port.addr) - 11  # rowbits = 11 (only 16 rows are used)
    yield "passive"  # the simulation ends with the DFI monitor
    if mode == "idle" or (mode == "single-bank" and bank != nbanks - 1):
        return
    burst_left = 0
    row = prng.randrange(16)
    while True:
        # idle gap
        if mode == "random":
            gap = prng.choice([0, 0, 0, 1, 2, 5, 20])
        elif mode == "bursty":
            if burst_left == 0:
                gap = prng.randint(50, 400)
                burst_left = prng.randint(5, 60)
            else:
                gap = 0
            burst_left -= 1
        else:
            gap = 0
        for _ in range(gap):
            yield
        if mode == "all-write":
            we = 1
        elif mode == "all-read":
            we = 0
        else:
            we = prng.randrange(2)
        if mode == "row-thrash":
            row = (row + 1) % 16
        elif prng.random() < 0.15:
            row = prng.randrange(16)
        addr = (row << colshift) | prng.randrange(1 << colshift)
        yield port.we.eq(we)
        yield port.addr.eq(addr)
        yield port.valid.eq(1)
        yield
        while not (yield port.ready):
            yield
        stats["accepted"] += 1
        yield port.valid.eq(0)


def dfi_monitor(ctrl, ncycles, events):
    """Records every command seen on the DFI: (cycle, phase, kind, bank, a10)."""
    phases = ctrl.dfi.phases
    for cycle in range(ncycles):
        for p, phase in enumerate(phases):
            cas = 1 - (yield phase.cas_n)
            ras = 1 - (yield phase.ras_n)
            we  = 1 - (yield phase.we_n)
            if not (cas or ras or we):
                continue
            if (yield phase.cs_n) == (1 << len(phase.cs_n)) - 1:
                continue
            kind = {
                (1, 1, 0): "REF", (0, 1, 1): "PRE", (0, 1, 0): "ACT",
                (1, 0, 1): "WR",  (1, 0, 0): "RD",  (0, 0, 1): "ZQC", (1, 1, 1): "MRS",
            }[(cas, ras, we)]
            a10  = ((yield phase.address) >> 10) & 1
            events.append((cycle, p, kind, (yield phase.bank), a10))
        yield


def run_controller(cfg, mode, ncycles, seed, refresh_cls=None, extra=None):
    prng   = random.Random(seed)
    ctrl   = build_controller(cfg, refresh_cls)
    events = []
    stats  = {"accepted": 0}
    gens   = [dfi_monitor(ctrl, ncycles, events)]
    if extra is not None:
        gens += extra(ctrl, ncycles, stats)  # additional (passive) monitors
    for b in range(ctrl.interface.nbanks):
        gens.append(traffic_generator(ctrl, b, mode, random.Random(prng.random()), stats))
    run_simulation(ctrl, gens)
    return events, stats


def service_latency_bound(cfg):
    """Generous fixed bound on (refresh requested) -> (first Precharge All on the DFI)."""
    wl   = -(-cfg.get("cwl", 2)//cfg["nphases"])
    twtp = wl + cfg["tWR"] + (cfg["tCCD"] or 0)
    twtr = cfg["tWTR"] + wl + (cfg["tCCD"] or 0)
    per_bank = twtp + cfg["tRP"] + (cfg["tRC"] or 0) + cfg["tRCD"] + (cfg["tRAS"] or 0) + 8
    nbanks   = 2**cfg["bankbits"]
    faw      = cfg["tFAW"] or 0
    rrd      = cfg["tRRD"] or 0
    return 16 + 2*per_bank + nbanks*(2 + rrd + faw) + twtr + cfg["read_latency"]


def check_refresh_property(cfg, mode, events, stats, ncycles, trefi_datasheet=None, verbose=True):
    """Checks property C04 on a DFI trace. Returns the list of REF times."""
    N     = cfg["postponing"]
    tREFI = trefi_datasheet if trefi_datasheet is not None else cfg["tREFI"]
    L     = service_latency_bound(cfg)
    seq   = cfg["tRP"] + cfg["tRFC"] + 1
    tag   = "cfg=%r mode=%s" % (cfg, mode)

    refs = [e[0] for e in events if e[2] == "REF"]
    zqcs = [e[0] for e in events if e[2] == "ZQC"]

    # 1) never starved: k-th refresh (1-based) no later than (k + N) tREFI + service latency, and at all times
    #    the number of refreshes owed stays <= N (+ the ones of the sequence being executed).
    for k, t in enumerate(refs, start=1):
        bound = (k + N)*tREFI + L + N*seq
        assert t <= bound, "REF #%d at %d > bound %d; %s" % (k, t, bound, tag)
    # refreshes that must have been issued by the end of the run
    horizon = ncycles - (L + N*seq) - 2
    must    = (horizon // (N*tREFI))*N if horizon > 0 else 0
    assert len(refs) >= must, "only %d REF in %d cycles, expected >= %d; %s" % (len(refs), ncycles, must, tag)
    # owed refreshes at any time
    issued = 0
    ri = 0
    worst_owed = 0
    for t in range(0, ncycles):
        while ri < len(refs) and refs[ri] <= t:
            ri += 1
        owed = t//tREFI - ri
        worst_owed = max(worst_owed, owed)
    assert worst_owed <= N + (L + N*seq)//tREFI + 1, "owed=%d; %s" % (worst_owed, tag)
    # tighter per sequence: the j-th sequence of N refreshes starts within L of j*N*tREFI
    lat = []
    for j in range(len(refs)//N):
        first = refs[j*N]
        lat.append(first - (j + 1)*N*tREFI)
    if lat:
        assert max(lat) <= L + cfg["tRP"] + 4, "service latency %d > %d; %s" % (max(lat), L, tag)

    # 2) each REF / ZQC is preceded by a Precharge All tRP earlier with nothing in between and is followed
    #    by a quiet tRFC / tZQCS.
    cmds = [e for e in events]
    for i, e in enumerate(cmds):
        if e[2] in ("REF", "ZQC"):
            assert i > 0, tag
            prev = cmds[i - 1]
            assert prev[2] == "PRE" and prev[4] == 1, "%s at %d preceded by %r; %s" % (e[2], e[0], prev, tag)
            assert e[0] - prev[0] >= cfg["tRP"], "%s at %d only %d after PREA; %s" % (e[2], e[0], e[0] - prev[0], tag)
            quiet = cfg["tRFC"] if e[2] == "REF" else cfg["tZQCS"]
            if i + 1 < len(cmds):
                assert cmds[i + 1][0] - e[0] >= quiet, "%s at %d followed by %r; %s" % (e[2], e[0], cmds[i + 1], tag)
            assert e[1] == 0, "refresher command on phase %d; %s" % (e[1], tag)
    # no row is left open across a refresh: first command of a bank after a REF must be an ACT (or PRE).
    opened = {}
    for e in cmds:
        if e[2] in ("REF", "ZQC"):
            opened = {}
        elif e[2] == "PRE" and e[4]:
            opened = {}
        elif e[2] == "ACT":
            opened[e[3]] = True
        elif e[2] == "PRE":
            opened[e[3]] = False
        elif e[2] in ("RD", "WR"):
            assert opened.get(e[3], False), "%s to closed bank %d at %d; %s" % (e[2], e[3], e[0], tag)
            if e[4]:
                opened[e[3]] = False

    # 3) traffic resumes after every refresh sequence when the ports keep asking.
    if mode in ("saturate", "single-bank", "all-write", "all-read", "row-thrash"):
        for j in range(len(refs)//N - 1):
            a, b = refs[j*N + N - 1], refs[(j + 1)*N]
            n = sum(1 for e in cmds if e[2] in ("RD", "WR") and a < e[0] < b)
            assert n > 0, "no traffic between refresh sequences %d and %d; %s" % (j, j + 1, tag)
        assert stats["accepted"] > ncycles//40, "traffic starved (%d accepted); %s" % (stats["accepted"], tag)

    # 4) ZQCS recurs at its period (served with the next refresh sequence).
    if cfg["tZQCS"] is not None:
        P   = cfg["zqcs_period"]
        gap = P + N*tREFI + 2*(L + N*seq) + cfg["tZQCS"] + cfg["tRP"]
        prev = 0
        for t in zqcs + [ncycles]:
            assert t - prev <= gap, "ZQCS gap %d > %d (at %d); %s" % (t - prev, gap, t, tag)
            prev = t
    else:
        assert not zqcs, tag
    if verbose:
        print("  ok  N=%d tREFI=%d nph=%d banks=%d mode=%-11s REF=%3d ZQC=%2d accepted=%5d max_lat=%s owed<=%d" % (
            N, cfg["tREFI"], cfg["nphases"], 2**cfg["bankbits"], mode, len(refs), len(zqcs), stats["accepted"],
            max(lat) if lat else None, worst_owed))
    return refs
# ---- end of common harness ----

# ---- keep_1: SDRAMModule(refresh_derating=...) -------------------------------------------------------
import inspect
from fractions import Fraction
from math import floor
from multiprocessing import Pool

import litedram.modules as M

RATES = {"SDR": ["1:1"], "DDR": ["1:2"], "LPDDR": ["1:2"], "DDR2": ["1:2"], "DDR3": ["1:2", "1:4"],
         "DDR4": ["1:2", "1:4"], "LPDDR4": ["1:8"], "LPDDR5": ["1:8"]}
FIELDS = ["tRP", "tRCD", "tWR", "tWTR", "tREFI", "tRFC", "tFAW", "tCCD", "tRRD", "tRC", "tRAS", "tZQCS"]


def all_module_classes():
    for name, cls in sorted(vars(M).items()):
        if inspect.isclass(cls) and issubclass(cls, M.SDRAMModule) and hasattr(cls, "nbanks") \
                and hasattr(cls, "memtype"):
            yield name, cls


def datasheet_trefi_ns(module, frm):
    t = module.get_timing("tREFI")
    if isinstance(t, dict):
        t = t[frm]
    assert not isinstance(t, tuple)
    return Fraction(t)  # exact value of the float in the table


def static_checks():
    n = 0
    deratings = [1, 1.0, 1.5, 2, 3, 4]
    for name, cls in all_module_classes():
        speedgrades = [None]
        if hasattr(cls, "speedgrade_timings"):
            speedgrades += [k for k in cls.speedgrade_timings.keys() if k != "default"]
        for rate in RATES.get(cls.memtype, ["1:1"]):
            for clk_freq in [12.5e6, 50e6, 100e6, 133.333e6, 200e6, 333e6]:
                for sg in speedgrades:
                    frms = [None, "1x", "2x", "4x"] if cls.memtype == "DDR4" else [None]
                    for frm in frms:
                        try:
                            base = cls(clk_freq, rate, speedgrade=sg, fine_refresh_mode=frm)
                        except Exception:
                            continue  # configuration not supported by this module (same without the change)
                        frm_eff = base.timing_settings.fine_refresh_mode
                        ns      = datasheet_trefi_ns(base, frm_eff)
                        exact   = ns*Fraction(clk_freq)/Fraction(10**9)  # tREFI in controller cycles
                        # datasheet rule: the controller interval never exceeds the datasheet one.
                        assert base.timing_settings.tREFI <= exact < base.timing_settings.tREFI + 1 + Fraction(1, 10**6), \
                            (name, clk_freq, rate, base.timing_settings.tREFI, float(exact))
                        for d in deratings:
                            m  = cls(clk_freq, rate, speedgrade=sg, fine_refresh_mode=frm, refresh_derating=d)
                            ts = m.timing_settings
                            assert ts.refresh_derating == d
                            if d == 1:
                                for f in FIELDS:
                                    assert getattr(ts, f) == getattr(base.timing_settings, f), (name, f)
                            else:
                                for f in FIELDS:
                                    if f != "tREFI":
                                        assert getattr(ts, f) == getattr(base.timing_settings, f), (name, f)
                            # never longer than the datasheet interval, nor than the un-derated setting
                            assert ts.tREFI <= base.timing_settings.tREFI, (name, d)
                            assert ts.tREFI <= exact/Fraction(d) + Fraction(1, 10**6), (name, d, ts.tREFI, float(exact))
                            # and the rounding loses less than one cycle
                            assert ts.tREFI > exact/Fraction(d) - 1 - Fraction(1, 10**6), (name, d)
                            n += 1
                        for bad in [0.5, 0, -1]:
                            try:
                                cls(clk_freq, rate, speedgrade=sg, fine_refresh_mode=frm, refresh_derating=bad)
                            except AssertionError:
                                pass
                            else:
                                raise AssertionError("refresh_derating=%r accepted" % bad)
    print("static: %d (module, clk, rate, speedgrade, refresh mode, derating) combinations ok" % n)
    assert n > 1000


def cfg_from_module(module, nphases, postponing, **kw):
    ts  = module.timing_settings
    cfg = {f: getattr(ts, f) for f in FIELDS}
    cfg.update(nphases=nphases, bankbits=2, postponing=postponing, zqcs_period=900, read_latency=5,
        rdphase=0, wrphase=nphases - 1)
    cfg.update(kw)
    return cfg


def sim_job(args):
    modname, clk_freq, rate, derating, postponing, mode, seed = args
    cls   = getattr(M, modname)
    base  = cls(clk_freq, rate)
    m     = cls(clk_freq, rate, refresh_derating=derating)
    nph   = int(rate.split(":")[1])
    cfg   = cfg_from_module(m, nph, postponing)
    n     = 3*postponing*base.timing_settings.tREFI + 300
    ev, st = run_controller(cfg, mode, n, seed)
    # a) against its own (derated) interval
    refs = check_refresh_property(cfg, mode, ev, st, n, verbose=False)
    # b) against the datasheet interval of the un-derated module: refreshing more often keeps the property
    check_refresh_property(cfg, mode, ev, st, n, trefi_datasheet=base.timing_settings.tREFI, verbose=False)
    # c) absolute time: k-th REF no later than (k + N) datasheet tREFI (in ns) + latency
    ns  = float(datasheet_trefi_ns(base, base.timing_settings.fine_refresh_mode))
    clk = 1e9/clk_freq
    L   = service_latency_bound(cfg) + postponing*(cfg["tRP"] + cfg["tRFC"] + 1)
    for k, t in enumerate(refs, start=1):
        assert t*clk <= (k + postponing)*ns/derating + L*clk, (args, k, t)
    return "  ok  %-12s clk=%5.1fMHz %s derating=%-3s N=%d %-11s tREFI=%d (datasheet %d) REF=%d accepted=%d" % (
        modname, clk_freq/1e6, rate, derating, postponing, mode, cfg["tREFI"], base.timing_settings.tREFI,
        len(refs), st["accepted"])


def main():
    static_checks()
    jobs = [
        ("MT48LC4M16",  16e6,  "1:1", 1,   1, "saturate",    1),
        ("MT48LC4M16",  32e6,  "1:1", 2,   2, "row-thrash",  2),
        ("MT41K64M16",  20e6,  "1:4", 1,   3, "all-write",   3),
        ("MT41K64M16",  20e6,  "1:4", 1.5, 1, "random",      4),
        ("MT41K64M16",  32e6,  "1:4", 2,   8, "single-bank", 5),
        ("MT47H64M16",  25e6,  "1:2", 1.7, 4, "all-read",    6),
        ("EDY4016A",    30e6,  "1:4", 2,   2, "bursty",      7),
        ("MT46V32M16",  20e6,  "1:2", 1,   5, "saturate",    8),
    ]
    with Pool(4) as pool:
        for line in pool.imap(sim_job, jobs):
            print(line, flush=True)
    print("keep_1: PASS")


if __name__ == "__main__":
    main()
