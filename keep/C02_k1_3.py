# ---- shared harness: full LiteDRAMController + reference DRAM bank-state checker on the DFI bus ----
import os, sys, random, itertools
sys.path.insert(0, os.getcwd())

from migen import *
from litedram.common import PhySettings, GeomSettings, TimingSettings, burst_lengths
from litedram.core.controller import LiteDRAMController, ControllerSettings


class Violation(Exception):
    pass


def build(cfg):
    phy = PhySettings(phytype="SIM", memtype=cfg["memtype"], databits=8, dfi_databits=16,
        nphases=cfg["nphases"], rdphase=cfg["rdphase"], wrphase=cfg["wrphase"], cl=2,
        read_latency=cfg.get("read_latency", 4), write_latency=1, nranks=cfg["nranks"], cwl=cfg.get("cwl", 2))
    geom = GeomSettings(bankbits=cfg["bankbits"], rowbits=cfg.get("rowbits", 12), colbits=cfg.get("colbits", 10))
    t = dict(tRP=2, tRCD=2, tWR=2, tWTR=2, tREFI=cfg.get("tREFI", 110), tRFC=5, tFAW=cfg.get("tFAW", None),
             tCCD=cfg.get("tCCD", 1), tRRD=cfg.get("tRRD", 2), tRC=cfg.get("tRC", 6), tRAS=cfg.get("tRAS", 4),
             tZQCS=cfg.get("tZQCS", 6))
    t.update(cfg.get("timing", {}))
    timing = TimingSettings(**t)
    cs = ControllerSettings(
        cmd_buffer_depth=cfg.get("depth", 4), cmd_buffer_buffered=cfg.get("buffered", False),
        read_time=cfg.get("read_time", 16), write_time=cfg.get("write_time", 8),
        with_auto_precharge=cfg["autopre"], refresh_postponing=cfg.get("postponing", 1),
        refresh_zqcs_freq=1e6/cfg.get("zqcs_period", 350))
    dut = LiteDRAMController(phy, geom, timing, clk_freq=1e6, controller_settings=cs)
    return dut


class Checker:
    """Reference model of the open/closed state of every bank of every rank, fed from the DFI bus."""
    def __init__(self, dut, cfg, cs_idle_must_be=None):
        self.dut, self.cfg = dut, cfg
        self.nranks  = cfg["nranks"]
        self.nbanks  = 2**cfg["bankbits"]
        self.nphases = cfg["nphases"]
        self.colbits = cfg.get("colbits", 10)
        memtype = cfg["memtype"]
        bl = cfg["nphases"] if memtype == "SDR" else burst_lengths[memtype]
        self.align = (bl - 1).bit_length()
        self.open_row = [[None]*self.nbanks for _ in range(self.nranks)]
        self.expected = [[] for _ in range(self.nranks*self.nbanks)]  # accepted requests per bank machine
        self.count = dict(ACT=0, PRE=0, PREA=0, RD=0, WR=0, RDA=0, WRA=0, REF=0, ZQCS=0)
        self.accepted = 0
        self.cycle = 0
        self.trace = []          # (cycle, phase, name, ranks, bank, addr)
        self.ref_cycles = []

    def split(self, addr):
        split = self.colbits - self.align
        row = addr >> split
        c = addr & ((1 << split) - 1)
        if self.colbits > 10:
            lo = c & ((1 << (10 - self.align)) - 1)
            hi = c >> (10 - self.align)
            col = (lo << self.align) | (hi << 11)
        else:
            col = c << self.align
        return row, col

    def fail(self, msg):
        raise Violation("cycle %d: %s (cfg=%r)\nlast cmds: %r" % (self.cycle, msg, self.cfg, self.trace[-12:]))

    def on_request(self, n, we, addr):
        self.expected[n].append((we, addr))
        self.accepted += 1

    def on_phase(self, i, cs_n, ras_n, cas_n, we_n, bank, address, rddata_en, wrdata_en):
        code = (ras_n, cas_n, we_n)
        allmask = (1 << self.nranks) - 1
        ranks = [r for r in range(self.nranks) if not (cs_n >> r) & 1]
        if code == (1, 1, 1) or not ranks:
            # NOP / DESELECT: no data strobes may be set
            if rddata_en or wrdata_en:
                self.fail("data enable strobe without a column command on phase %d" % i)
            if code != (1, 1, 1):
                self.fail("command %r with no chip select on phase %d" % (code, i))
            return
        name = {(0, 1, 1): "ACT", (0, 1, 0): "PRE", (1, 0, 1): "RD", (1, 0, 0): "WR",
                (0, 0, 1): "REF", (1, 1, 0): "ZQCS", (0, 0, 0): "MRS"}[code]
        self.trace.append((self.cycle, i, name, tuple(ranks), bank, address))
        a10 = (address >> 10) & 1
        if name == "MRS":
            self.fail("MRS issued by the controller")
        if name in ("REF", "ZQCS") or (name == "PRE" and a10):
            if cs_n != 0:
                self.fail("%s must select all ranks, cs_n=%x" % (name, cs_n))
            if rddata_en or wrdata_en:
                self.fail("data strobe with %s" % name)
            if name == "PRE":
                for r in ranks:
                    self.open_row[r] = [None]*self.nbanks
                self.count["PREA"] += 1
            else:
                for r in ranks:
                    for b in range(self.nbanks):
                        if self.open_row[r][b] is not None:
                            self.fail("%s with rank %d bank %d open" % (name, r, b))
                self.count[name] += 1
                if name == "REF":
                    self.ref_cycles.append(self.cycle)
            return
        # bank commands: exactly one rank
        if len(ranks) != 1:
            self.fail("%s selects ranks %r" % (name, ranks))
        r = ranks[0]
        if name == "ACT":
            if rddata_en or wrdata_en:
                self.fail("data strobe with ACT")
            if self.open_row[r][bank] is not None:
                self.fail("ACT on open bank r%d b%d" % (r, bank))
            # the row must be the row of the request at the head of that bank machine's queue
            q = self.expected[r*self.nbanks + bank]
            if not q:
                self.fail("ACT r%d b%d without pending request" % (r, bank))
            row, _ = self.split(q[0][1])
            if row != address:
                self.fail("ACT row %d but head request row %d" % (address, row))
            self.open_row[r][bank] = address
            self.count["ACT"] += 1
        elif name == "PRE":
            if rddata_en or wrdata_en:
                self.fail("data strobe with PRE")
            self.open_row[r][bank] = None
            self.count["PRE"] += 1
        else:
            q = self.expected[r*self.nbanks + bank]
            if not q:
                self.fail("%s r%d b%d without pending request (wrong rank/bank?)" % (name, r, bank))
            we, addr = q.pop(0)
            row, col = self.split(addr)
            if we != (name == "WR"):
                self.fail("%s but request we=%d" % (name, we))
            if self.open_row[r][bank] is None:
                self.fail("%s on closed bank r%d b%d" % (name, r, bank))
            if self.open_row[r][bank] != row:
                self.fail("%s r%d b%d open row %d, request row %d" % (name, r, bank, self.open_row[r][bank], row))
            if (address & ~(1 << 10)) != col:
                self.fail("%s column %x expected %x" % (name, address & ~(1 << 10), col))
            if name == "RD":
                if i != self.cfg["rdphase"]:
                    self.fail("RD on phase %d (rdphase=%d)" % (i, self.cfg["rdphase"]))
                if not rddata_en or wrdata_en:
                    self.fail("RD strobes rd=%d wr=%d" % (rddata_en, wrdata_en))
            else:
                if i != self.cfg["wrphase"]:
                    self.fail("WR on phase %d (wrphase=%d)" % (i, self.cfg["wrphase"]))
                if not wrdata_en or rddata_en:
                    self.fail("WR strobes rd=%d wr=%d" % (rddata_en, wrdata_en))
            if a10:
                if not self.cfg["autopre"]:
                    self.fail("auto-precharge bit set with auto-precharge disabled")
                self.open_row[r][bank] = None
                self.count[name + "A"] += 1
            self.count[name] += 1

    # generators -----------------------------------------------------------------------------------
    def monitor(self, ncycles):
        dut = self.dut
        banks = [getattr(dut.interface, "bank%d" % n) for n in range(self.nranks*self.nbanks)]
        for c in range(ncycles):
            self.cycle = c
            for i, p in enumerate(dut.dfi.phases):
                self.on_phase(i, (yield p.cs_n), (yield p.ras_n), (yield p.cas_n), (yield p.we_n),
                    (yield p.bank), (yield p.address), (yield p.rddata_en), (yield p.wrdata_en))
            for n, b in enumerate(banks):
                if (yield b.valid) and (yield b.ready):
                    self.on_request(n, (yield b.we), (yield b.addr))
            yield


def bank_driver(dut, cfg, n, rng, ncycles, drain):
    """Random traffic on one bank-machine request interface; stops `drain` cycles before the end."""
    b = getattr(dut.interface, "bank%d" % n)
    rowbits, colbits = cfg.get("rowbits", 12), cfg.get("colbits", 10)
    memtype = cfg["memtype"]
    bl = cfg["nphases"] if memtype == "SDR" else burst_lengths[memtype]
    split = colbits - (bl - 1).bit_length()
    rows = [rng.randrange(2**rowbits) for _ in range(3)]
    c = 0
    mode = rng.choice(["dense", "sparse", "bursty"])
    while c < ncycles - drain:
        if mode == "sparse" or (mode == "bursty" and rng.random() < 0.15):
            for _ in range(rng.randrange(1, 60 if mode == "sparse" else 150)):
                yield; c += 1
        elif rng.random() < 0.3:
            for _ in range(rng.randrange(0, 4)):
                yield; c += 1
        row = rng.choice(rows) if rng.random() < 0.9 else rng.randrange(2**rowbits)
        same = rng.randrange(1, 5)   # a few requests to the same row, then maybe another
        for _ in range(same):
            addr = (row << split) | rng.randrange(2**split)
            yield b.we.eq(rng.random() < 0.5)
            yield b.addr.eq(addr)
            yield b.valid.eq(1)
            yield; c += 1
            while not (yield b.ready):
                yield; c += 1
                if c > ncycles:
                    return
            yield b.valid.eq(0)
    yield b.valid.eq(0)


def run_cfg(cfg, seed, ncycles=2500, drain=400, extra_gens=(), checker_cls=Checker, **ckw):
    rng = random.Random(seed)
    dut = build(cfg)
    chk = checker_cls(dut, cfg, **ckw)
    nbm = cfg["nranks"] * 2**cfg["bankbits"]
    gens = [chk.monitor(ncycles)]
    gens += [bank_driver(dut, cfg, n, random.Random(rng.random()), ncycles, drain) for n in range(nbm)]
    gens += [g(dut, chk) for g in extra_gens]
    run_simulation(dut, gens)
    left = sum(len(q) for q in chk.expected)
    if left:
        raise Violation("requests never served (deadlock?) %r cfg=%r" % ([len(q) for q in chk.expected], cfg))
    return chk


BASE_CFGS = [
    dict(memtype="SDR",  nphases=1, rdphase=0, wrphase=0, nranks=1, bankbits=2, autopre=True),
    dict(memtype="SDR",  nphases=1, rdphase=0, wrphase=0, nranks=2, bankbits=1, autopre=False),
    dict(memtype="DDR",  nphases=2, rdphase=0, wrphase=1, nranks=1, bankbits=2, autopre=True),
    dict(memtype="DDR2", nphases=2, rdphase=1, wrphase=0, nranks=2, bankbits=2, autopre=True, tFAW=10),
    dict(memtype="DDR2", nphases=2, rdphase=1, wrphase=1, nranks=1, bankbits=3, autopre=False),
    dict(memtype="DDR3", nphases=4, rdphase=2, wrphase=3, nranks=1, bankbits=2, autopre=True, buffered=True),
    dict(memtype="DDR3", nphases=4, rdphase=0, wrphase=1, nranks=2, bankbits=2, autopre=False, tCCD=2),
    dict(memtype="DDR3", nphases=4, rdphase=3, wrphase=0, nranks=2, bankbits=1, autopre=True, postponing=2, tZQCS=None),
    dict(memtype="DDR4", nphases=4, rdphase=1, wrphase=2, nranks=1, bankbits=2, autopre=True, colbits=11, postponing=4, tREFI=100),
    dict(memtype="DDR3", nphases=2, rdphase=0, wrphase=0, nranks=1, bankbits=2, autopre=True, timing=dict(tRAS=None, tRC=None, tRRD=None)),
]


# ---- standalone BankMachine under random cmd.ready stalls and a random (legal) refresh handshake ----
def bm_standalone(seed, ncycles=6000, autopre=True, buffered=False):
    from litedram.common import Settings, LiteDRAMInterface
    from litedram.core.bankmachine import BankMachine
    rng = random.Random(seed)

    class S(Settings):
        def __init__(self, **kw):
            self.set_attributes(kw)
    settings = S(cmd_buffer_depth=rng.choice([2, 4, 8]), cmd_buffer_buffered=buffered, with_auto_precharge=autopre)
    settings.phy    = S(cwl=2, nphases=2, nranks=1, memtype="DDR2", dfi_databits=32)
    settings.geom   = S(bankbits=3, rowbits=13, colbits=10, addressbits=13)
    settings.timing = S(tRAS=rng.choice([None, 4]), tRC=rng.choice([None, 7]), tCCD=1, tRCD=rng.choice([1, 2, 3]),
                        tRP=rng.choice([1, 2, 3]), tWR=2)
    align = 2
    aw = LiteDRAMInterface(align, settings).address_width
    dut = BankMachine(n=5, address_width=aw, address_align=align, nranks=1, settings=settings)
    split = 10 - align
    st = dict(open=None, q=[], served=0, acts=0, refreshes=0, act_after_ref=0, last_ref=-10)

    def driver():
        rows = [rng.randrange(2**13) for _ in range(3)]
        c = 0
        while c < ncycles - 300:
            if rng.random() < 0.2:
                for _ in range(rng.randrange(1, 40)):
                    yield; c += 1
            addr = (rng.choice(rows) << split) | rng.randrange(2**split)
            yield dut.req.we.eq(rng.random() < 0.5)
            yield dut.req.addr.eq(addr)
            yield dut.req.valid.eq(1)
            yield; c += 1
            while not (yield dut.req.ready):
                yield; c += 1
                if c > ncycles:
                    return
            yield dut.req.valid.eq(0)

    def ready_driver():
        for c in range(ncycles):
            yield dut.cmd.ready.eq(1 if c > ncycles - 300 else rng.random() < 0.6)
            yield

    def refresh_driver():
        c = 0
        while c < ncycles - 300:
            for _ in range(rng.randrange(20, 200)):
                yield; c += 1
            yield dut.refresh_req.eq(1)
            yield; c += 1
            while not (yield dut.refresh_gnt):
                yield; c += 1
                if c > ncycles:
                    raise Violation("refresh never granted")
            for _ in range(rng.randrange(1, 12)):   # refresh sequence being executed (precharge all + refresh)
                yield; c += 1
            yield dut.refresh_req.eq(0)
            yield; c += 1

    def monitor():
        for c in range(ncycles):
            if (yield dut.req.valid) and (yield dut.req.ready):
                st["q"].append(((yield dut.req.we), (yield dut.req.addr)))
            v, r = (yield dut.cmd.valid), (yield dut.cmd.ready)
            if (yield dut.refresh_req) and (yield dut.refresh_gnt):
                if v:
                    raise Violation("bank machine command while refresh granted (cycle %d)" % c)
                st["open"] = None          # precharge-all + refresh done by the refresher
                if st["last_ref"] != c - 1:
                    st["refreshes"] += 1
                st["last_ref"] = c
            if v and r:
                code = ((yield dut.cmd.ras), (yield dut.cmd.cas), (yield dut.cmd.we))
                a = (yield dut.cmd.a)
                if (yield dut.cmd.ba) != 5:
                    raise Violation("wrong bank")
                if code == (1, 0, 0):
                    if st["open"] is not None:
                        raise Violation("ACT on open bank, cycle %d seed %d" % (c, seed))
                    if not st["q"] or (st["q"][0][1] >> split) != a:
                        raise Violation("ACT of a row nobody asked for, cycle %d" % c)
                    st["open"] = a; st["acts"] += 1
                elif code == (1, 0, 1):
                    if a & (1 << 10):
                        raise Violation("precharge-all from a bank machine")
                    st["open"] = None
                elif code[1] == 1 and code[0] == 0:
                    we, addr = st["q"].pop(0)
                    if we != code[2]:
                        raise Violation("read/write mismatch cycle %d" % c)
                    if st["open"] is None or st["open"] != (addr >> split):
                        raise Violation("column access to row %r, open row %r, cycle %d seed %d" % (addr >> split, st["open"], c, seed))
                    if (a & 0x3ff) != ((addr & (2**split - 1)) << align):
                        raise Violation("wrong column")
                    if a & (1 << 10):
                        if not autopre:
                            raise Violation("A10 without auto-precharge")
                        st["open"] = None
                    st["served"] += 1
                else:
                    raise Violation("unexpected command %r" % (code,))
            yield

    run_simulation(dut, [driver(), ready_driver(), refresh_driver(), monitor()])
    if st["q"]:
        raise Violation("bank machine left %d requests unserved" % len(st["q"]))
    return st


def _job(args):
    kind, a = args
    try:
        if kind == "ctrl":
            cfg, seed, n = a
            chk = run_cfg(cfg, seed, ncycles=n)
            return (kind, cfg, chk.count, chk.accepted, None)
        else:
            seed, ap, buf = a
            st = bm_standalone(seed, autopre=ap, buffered=buf)
            return (kind, a, dict(served=st["served"], acts=st["acts"], refreshes=st["refreshes"]), st["served"], None)
    except Violation as e:
        return (kind, a, None, 0, str(e))


def run_jobs(jobs, nproc=4):
    import multiprocessing
    with multiprocessing.Pool(nproc) as pool:
        res = pool.map(_job, jobs, chunksize=1)
    bad = [r for r in res if r[4] is not None]
    for r in res:
        print(r[0], r[1] if r[0] != "ctrl" else {k: v for k, v in r[1].items()}, r[2], "FAIL: " + r[4] if r[4] else "ok")
    return res, bad


# ---- keep_3: postponed refreshes chained without the redundant Precharge All ------------------------------
def refresher_standalone(seed, postponing, trp, trfc, tzqcs, ncycles=5000):
    """Refresher alone, with a multiplexer-like ready handshake; checks the command sequence it emits."""
    from litedram.common import Settings
    from litedram.core.refresher import Refresher
    rng = random.Random(seed)

    class S(Settings):
        def __init__(self, **kw):
            self.set_attributes(kw)
    settings = S(with_refresh=True)
    settings.timing = S(tREFI=100 + rng.randrange(30), tRP=trp, tRFC=trfc, tZQCS=tzqcs)
    settings.geom   = S(addressbits=14, bankbits=3)
    settings.phy    = S(nranks=2)
    dut = Refresher(settings, clk_freq=1e6, zqcs_freq=1e6/(250 + rng.randrange(200)), postponing=postponing)
    st = dict(seqs=0, refs=0, preas=0, zqcs=0)

    def gen():
        precharged, pre_t, ref_t, zq_t, refs_in_seq = False, -100, -100, -100, 0
        granted, wait = False, 0
        for c in range(ncycles):
            valid, ready, last = (yield dut.cmd.valid), (yield dut.cmd.ready), (yield dut.cmd.last)
            code = ((yield dut.cmd.ras), (yield dut.cmd.cas), (yield dut.cmd.we))
            a = (yield dut.cmd.a)
            if code != (0, 0, 0) and not (valid and ready):
                raise Violation("refresher command %r outside of the granted window, cycle %d" % (code, c))
            if valid and ready and code != (0, 0, 0):
                if code == (1, 0, 1):
                    if not (a >> 10) & 1:
                        raise Violation("single bank precharge from the refresher")
                    if c - ref_t < trfc or (tzqcs and c - zq_t < tzqcs):
                        raise Violation("precharge all too early after REF/ZQCS, cycle %d" % c)
                    precharged, pre_t = True, c
                    st["preas"] += 1
                elif code in ((1, 1, 0), (0, 0, 1)):
                    name = "REF" if code == (1, 1, 0) else "ZQCS"
                    if not precharged:
                        raise Violation("%s without all banks precharged, cycle %d" % (name, c))
                    if c - pre_t < trp:
                        raise Violation("%s %d cycles after precharge all (tRP=%d)" % (name, c - pre_t, trp))
                    if c - ref_t < trfc:
                        raise Violation("%s %d cycles after REF (tRFC=%d)" % (name, c - ref_t, trfc))
                    if tzqcs and c - zq_t < tzqcs:
                        raise Violation("%s too early after ZQCS" % name)
                    if name == "REF":
                        ref_t = c; refs_in_seq += 1; st["refs"] += 1
                    else:
                        zq_t = c; st["zqcs"] += 1
                else:
                    raise Violation("unexpected refresher command %r" % (code,))
            if last and ready:
                if c - ref_t < trfc or (tzqcs and c - zq_t < tzqcs):
                    raise Violation("controller released before tRFC/tZQCS elapsed, cycle %d" % c)
                if refs_in_seq != postponing:
                    raise Violation("%d refreshes in a sequence, postponing=%d" % (refs_in_seq, postponing))
                refs_in_seq = 0
                precharged = False        # bank machines are free to open rows again
                st["seqs"] += 1
            # multiplexer-like handshake: grant after a random wait, keep ready until last
            if valid and not granted:
                if wait == 0:
                    wait = 1 + rng.randrange(25)
                wait -= 1
                if wait == 0:
                    granted = True
            if last:
                granted = False
            yield dut.cmd.ready.eq(granted and not last)
            yield
    run_simulation(dut, gen())
    return st


def _job3(args):
    kind, a = args
    try:
        if kind == "ctrl":
            cfg, seed, n = a
            chk = run_cfg(cfg, seed, ncycles=n)
            # every refresh window: exactly `postponing` REFs
            p = cfg.get("postponing", 1)
            if chk.count["REF"] < 2*p:
                raise Violation("too few refresh sequences")
            return (kind, cfg, chk.count, chk.accepted, None)
        else:
            st = refresher_standalone(*a)
            return (kind, a, st, st["refs"], None)
    except Violation as e:
        return (kind, a, None, 0, str(e))


if __name__ == "__main__":
    import multiprocessing
    jobs = []
    s = 0
    for postponing in (1, 2, 3, 4, 8):
        for trp, trfc, tzqcs in ((1, 2, 4), (2, 3, None), (3, 7, 16), (2, 8, 5)):
            jobs.append(("rf", (s, postponing, trp, trfc, tzqcs))); s += 1
    cfgs = list(BASE_CFGS) + [
        dict(memtype="DDR3", nphases=4, rdphase=2, wrphase=3, nranks=2, bankbits=1, autopre=True, postponing=8, tREFI=100),
        dict(memtype="DDR2", nphases=2, rdphase=1, wrphase=0, nranks=1, bankbits=2, autopre=False, postponing=3, tREFI=100),
        dict(memtype="SDR",  nphases=1, rdphase=0, wrphase=0, nranks=1, bankbits=2, autopre=True, postponing=2, tREFI=100),
    ]
    jobs += [("ctrl", (cfg, 300 + k, 2200 if cfg.get("postponing", 1) < 8 else 3600)) for k, cfg in enumerate(cfgs)]
    with multiprocessing.Pool(4) as pool:
        res = pool.map(_job3, jobs, chunksize=1)
    tot = {}
    bad = False
    for r in res:
        print(r[0], r[1], r[2], "FAIL: " + r[4] if r[4] else "ok")
        bad |= r[4] is not None
        if r[0] == "ctrl" and r[2]:
            for k, v in r[2].items():
                tot[k] = tot.get(k, 0) + v
    print("totals", tot)
    for k in ("ACT", "PRE", "PREA", "RD", "WR", "RDA", "WRA", "REF", "ZQCS"):
        if not tot.get(k):
            print("coverage hole:", k); sys.exit(2)
    if any(r[0] == "rf" and r[2] and r[2]["seqs"] < 3 for r in res):
        print("refresher runs too short"); sys.exit(2)
    if bad:
        print("PROPERTY VIOLATED"); sys.exit(1)
    print("OK")
