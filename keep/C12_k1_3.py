#!/usr/bin/env python3
#
# Check for keep_3: LiteDRAMDMAWriter with an optional byte enable field ("we") that travels through
# the data FIFO with the data.
#
# Drives the real LiteDRAMDMAWriter (native and AXI ports, buffered and unbuffered FIFO, depths from
# the minimum up to 16, with_we disabled / enabled) with randomised (address, data[, we]) streams
# (well behaved producers and producers that withdraw / change a word that was not accepted yet),
# random command acceptance and long write data stalls, and checks:
#   - exactly one command per accepted word, in the cycle it is accepted, with its address;
#   - exactly one write data beat per accepted word, in order, with its data and byte enables
#     (all ones when with_we is disabled), never ahead of the words accepted;
#   - the final memory content equals the one of a golden model applying the accepted words in order.
# With with_we disabled, and with with_we enabled but all the byte enables set, the DUT is also run
# in lock-step against a verbatim copy of the original writer: all port / sink handshakes and
# payloads must be identical cycle by cycle.
# The CSR mode (base / length / enable) is exercised with with_we enabled: full words must be written.
#
# Run from the root of the tree: exits 0 when every check passed.

import os
import sys
import random

sys.path.insert(0, os.getcwd())

from math import log2

from migen import *

from litex.soc.interconnect import stream

from litedram.common import LiteDRAMNativePort, LiteDRAMNativeWritePort
from litedram.frontend.axi import LiteDRAMAXIPort
import litedram.frontend.dma as dma_module
from litedram.frontend.dma import LiteDRAMDMAWriter

AW   = 24
DW   = 32
NB   = DW//8
FULL = 2**NB - 1

# CSR names cannot be extracted from the code with recent Python versions, name them explicitly.
_csr_count = [0]
def _named(cls):
    def build(*args, **kwargs):
        if "name" not in kwargs:
            _csr_count[0] += 1
            kwargs["name"] = "csr%d" % _csr_count[0]
        return cls(*args, **kwargs)
    return build
dma_module.CSRStorage = _named(dma_module.CSRStorage)
dma_module.CSRStatus  = _named(dma_module.CSRStatus)

# Reference (original implementation) ----------------------------------------------------------------

class RefWriter(Module):
    def __init__(self, port, fifo_depth=16, fifo_buffered=False, broken=False):
        self.port = port
        self.sink = sink = stream.Endpoint([("address", port.address_width),
                                            ("data", port.data_width)])

        is_native = isinstance(port, LiteDRAMNativePort)
        is_axi    = isinstance(port, LiteDRAMAXIPort)
        if is_native:
            (cmd, wdata) = port.cmd, port.wdata
        else:
            (cmd, wdata) = port.aw, port.w
            self.comb += port.b.ready.eq(1)

        self.submodules.fifo = fifo = stream.SyncFIFO([("data", port.data_width)], fifo_depth, fifo_buffered)

        if is_native:
            self.comb += cmd.we.eq(1)
        if is_axi:
            self.comb += cmd.size.eq(int(log2(port.data_width//8)))
        self.comb += [
            cmd.addr.eq(sink.address),
            cmd.last.eq(sink.last),
            cmd.valid.eq(fifo.sink.ready & sink.valid),
            sink.ready.eq(fifo.sink.ready & cmd.ready),
            fifo.sink.valid.eq(sink.valid & (1 if broken else cmd.ready)),
            fifo.sink.data.eq(sink.data)
        ]

        if is_native:
            self.comb += wdata.we.eq(2**(port.data_width//8)-1)
        if is_axi:
            self.comb += wdata.strb.eq(2**(port.data_width//8)-1)
        self.comb += [
            wdata.valid.eq(fifo.source.valid),
            fifo.source.ready.eq(wdata.ready),
            wdata.data.eq(fifo.source.data)
        ]

# Bench ----------------------------------------------------------------------------------------------

def make_port(kind):
    if kind == "native":
        return LiteDRAMNativeWritePort(address_width=AW, data_width=DW)
    return LiteDRAMAXIPort(data_width=DW, address_width=AW, id_width=1)


def port_channels(port):
    if isinstance(port, LiteDRAMNativePort):
        return port.cmd, port.wdata, port.wdata.we
    return port.aw, port.w, port.w.strb


class Bench(Module):
    def __init__(self, kind, depth, buffered, with_we, with_ref, csr=False, dut_cls=None, **dut_kwargs):
        self.kind    = kind
        self.with_we = with_we
        self.csr     = csr
        self.port    = make_port(kind)
        if dut_cls is None:
            kwargs = {}
            if with_we:
                kwargs["with_we"] = True
            if csr:
                kwargs["with_csr"] = True
            self.submodules.dma = LiteDRAMDMAWriter(self.port, fifo_depth=depth, fifo_buffered=buffered, **kwargs)
        else:
            self.submodules.dma = dut_cls(self.port, fifo_depth=depth, fifo_buffered=buffered, **dut_kwargs)
        self.duts = [(self.dma, self.port)]
        if with_ref:
            self.rport = make_port(kind)
            self.submodules.ref = RefWriter(self.rport, fifo_depth=depth, fifo_buffered=buffered)
            self.duts.append((self.ref, self.rport))


class CheckError(Exception):
    pass


def apply_write(mem, addr, data, we):
    mask = 0
    for b in range(NB):
        if we & (1 << b):
            mask |= 0xff << (8*b)
    mem[addr] = (mem.get(addr, 0) & ~mask) | (data & mask)


def testbench(bench, rng, n_words, we_mode, fickle, stats):
    native  = bench.kind == "native"
    with_we = bench.with_we
    csr     = bench.csr
    dma     = bench.dma

    def drive(get, value):
        for d, p in bench.duts:
            yield get(d, p).eq(value)

    # CSR mode setup --------------------------------------------------------------------------------
    csr_base = 0
    if csr:
        csr_base = rng.randrange(2**(AW - 2))
        yield dma._base.storage.eq(csr_base*NB)
        yield dma._length.storage.eq(n_words*NB)
        yield dma._loop.storage.eq(0)
        yield dma._enable.storage.eq(0)
        for _ in range(3):
            yield
        yield dma._enable.storage.eq(1)
        for _ in range(3):
            yield

    # Stimulus state (what is being driven in the current cycle).
    sink_valid, sink_addr, sink_data, sink_we = 0, 0, 0, 0
    cmd_ready = 0
    w_ready   = 0

    accepted = []   # (addr, data, we) in acceptance order.
    produced = []   # Data accepted on the user sink (CSR mode).
    cmds     = []   # (addr, cycle).
    datas    = []   # (data, we).
    w_due    = 0

    phase_left = 0
    p_sink = p_cmd = p_w = 1.0
    w_lat  = 1

    t = 0
    idle_after_done = 0
    limit = 400*n_words + 5000

    def new_word():
        addr = rng.choice([rng.randrange(2**AW), rng.randrange(6), rng.randrange(6)])
        data = rng.randrange(2**DW)
        if we_mode == "random":
            we = rng.choice([rng.randrange(2**NB), rng.randrange(2**NB), FULL, 0])
        else:
            we = FULL
        return addr, data, we

    while True:
        # Observe the current cycle -----------------------------------------------------------------
        obs = []
        for d, p in bench.duts:
            c, w, wwe = port_channels(p)
            inner = d._sink if (csr and d is dma) else d.sink
            o = {}
            o["sink_ready"]  = (yield d.sink.ready)
            o["inner_valid"] = (yield inner.valid)
            o["inner_ready"] = (yield inner.ready)
            o["inner_addr"]  = (yield inner.address)
            o["inner_data"]  = (yield inner.data)
            o["inner_we"]    = (yield inner.we) if (with_we and d is dma) else FULL
            o["cmd_valid"]   = (yield c.valid)
            o["cmd_addr"]    = (yield c.addr)
            o["w_valid"]     = (yield w.valid)
            o["w_data"]      = (yield w.data)
            o["w_we"]        = (yield wwe)
            if native:
                o["cmd_we"]  = (yield c.we)
            else:
                o["cmd_size"] = (yield c.size)
                o["cmd_len"]  = (yield c.len)
            obs.append(o)
        o = obs[0]
        if len(obs) == 2:
            q = obs[1]
            for k in ["sink_ready", "cmd_valid", "w_valid"]:
                if o[k] != q[k]:
                    raise CheckError("t=%d lock-step mismatch on %s: dut=%d ref=%d" % (t, k, o[k], q[k]))
            if o["cmd_valid"] and o["cmd_addr"] != q["cmd_addr"]:
                raise CheckError("t=%d lock-step mismatch on cmd address" % t)
            if o["w_valid"] and (o["w_data"], o["w_we"]) != (q["w_data"], q["w_we"]):
                raise CheckError("t=%d lock-step mismatch on write data" % t)

        # Scoreboard --------------------------------------------------------------------------------
        if sink_valid and o["sink_ready"]:
            produced.append(sink_data)
        if csr:
            if o["inner_valid"] and o["inner_ready"]:
                accepted.append((o["inner_addr"], o["inner_data"], o["inner_we"]))
                k = len(accepted) - 1
                if len(produced) != len(accepted) or accepted[k] != (csr_base + k, produced[k], FULL):
                    raise CheckError("t=%d CSR mode: word #%d is %r, expected %r" % (
                        t, k, accepted[k], (csr_base + k, produced[k] if k < len(produced) else None, FULL)))
        elif sink_valid and o["sink_ready"]:
            if (o["inner_addr"], o["inner_data"]) != (sink_addr, sink_data):
                raise CheckError("t=%d testbench error" % t)
            accepted.append((sink_addr, sink_data, sink_we if with_we else FULL))
        accepted_now = sink_valid and o["sink_ready"]
        if accepted_now:
            sink_valid = 0
        if o["cmd_valid"] and cmd_ready:
            if native and not o["cmd_we"]:
                raise CheckError("t=%d write command without we" % t)
            if not native and (o["cmd_size"] != int(log2(NB)) or o["cmd_len"] != 0):
                raise CheckError("t=%d bad AXI command" % t)
            cmds.append((o["cmd_addr"], t))
            k = len(cmds) - 1
            if k >= len(accepted) or accepted[k][0] != o["cmd_addr"]:
                raise CheckError("t=%d command #%d does not match the accepted word" % (t, k))
        if len(cmds) != len(accepted):
            raise CheckError("t=%d %d commands for %d accepted words" % (t, len(cmds), len(accepted)))
        if w_ready and o["w_valid"]:
            datas.append((o["w_data"], o["w_we"]))
            k = len(datas) - 1
            if k >= len(accepted):
                raise CheckError("t=%d write data beat #%d ahead of the accepted words" % (t, k))
            if accepted[k][1:] != datas[k]:
                raise CheckError("t=%d write data beat #%d is (%x, %x), expected (%x, %x)" % (
                    t, k, o["w_data"], o["w_we"], accepted[k][1], accepted[k][2]))
            w_due = t + 1 + rng.randint(0, w_lat)
        if w_ready and not o["w_valid"]:
            stats["w_ready_idle"] += 1
        stats["max_level"] = max(stats["max_level"], len(accepted) - len(datas))

        # Termination -------------------------------------------------------------------------------
        if len(datas) == n_words:
            idle_after_done += 1
            if idle_after_done > 30:
                break
        if t > limit:
            raise CheckError("timeout: %d/%d words written after %d cycles" % (len(datas), n_words, t))

        # Next cycle stimulus -----------------------------------------------------------------------
        if phase_left == 0:
            phase = rng.choice(["fast", "wstall", "random", "cmdstall", "trickle"]) if t else "wstall"
            phase_left = rng.randint(15, 80) if t else 40
            if phase == "fast":
                p_sink, p_cmd, p_w, w_lat = 1.0, 1.0, 1.0, 0
            elif phase == "wstall":     # Write data channel stalled, everything else at full speed.
                p_sink, p_cmd, p_w, w_lat = 1.0, 1.0, 0.0, 0
            elif phase == "random":
                p_sink, p_cmd, p_w, w_lat = rng.random(), rng.random(), rng.random(), rng.randint(0, 6)
            elif phase == "cmdstall":
                p_sink, p_cmd, p_w, w_lat = 1.0, 0.1, 1.0, 0
            elif phase == "trickle":
                p_sink, p_cmd, p_w, w_lat = 1.0, 1.0, 0.1, 3
        phase_left -= 1
        if idle_after_done:
            p_cmd, p_w = 1.0, 1.0

        n_presented = len(produced) + (1 if sink_valid else 0)
        if sink_valid and fickle and rng.random() < 0.3:
            # Badly behaved producer: withdraw or change the word that was not accepted.
            if rng.random() < 0.5:
                sink_valid = 0
            else:
                sink_addr, sink_data, sink_we = new_word()
        elif not sink_valid and n_presented < n_words and rng.random() < p_sink:
            sink_valid = 1
            sink_addr, sink_data, sink_we = new_word()
        cmd_ready = int(rng.random() < p_cmd)
        if native:
            # The controller only asks for the data of the commands it accepted.
            w_ready = int(len(cmds) > len(datas) and t + 1 >= w_due and rng.random() < p_w)
        else:
            # An AXI slave may accept write data at any time.
            w_ready = int(rng.random() < p_w)

        yield from drive(lambda d, p: d.sink.valid, sink_valid)
        yield from drive(lambda d, p: d.sink.data,  sink_data if sink_valid else rng.randrange(2**DW))
        if not csr:
            yield from drive(lambda d, p: d.sink.address, sink_addr if sink_valid else rng.randrange(2**AW))
            if with_we:
                yield dma.sink.we.eq(sink_we if sink_valid else rng.randrange(2**NB))
        yield from drive(lambda d, p: port_channels(p)[0].ready, cmd_ready)
        yield from drive(lambda d, p: port_channels(p)[1].ready, w_ready)
        yield
        t += 1

    if len(accepted) != n_words or len(cmds) != n_words or len(datas) != n_words:
        raise CheckError("end: accepted=%d cmds=%d datas=%d" % (len(accepted), len(cmds), len(datas)))
    golden, mem = {}, {}
    for (addr, data, we) in accepted:
        apply_write(golden, addr, data, we)
    for (addr, _), (data, we) in zip(cmds, datas):
        apply_write(mem, addr, data, we)
    if golden != mem:
        raise CheckError("end: memory content differs from the golden model")
    stats["cycles"] += t
    stats["partial"] += sum(1 for (_, _, we) in accepted if we != FULL)


def new_stats():
    return {"cycles": 0, "max_level": 0, "w_ready_idle": 0, "partial": 0}


def run_one(kind, depth, buffered, with_we, we_mode, fickle, seed, n_words, with_ref, stats, **kwargs):
    rng   = random.Random(seed)
    bench = Bench(kind, depth, buffered, with_we, with_ref, **kwargs)
    run_simulation(bench, testbench(bench, rng, n_words, we_mode, fickle, stats))


def selftest():
    # The harness must catch a writer that fills its FIFO when the command is not accepted.
    caught = 0
    for kind in ["native", "axi"]:
        for depth, buffered in [(1, False), (4, False), (4, True)]:
            try:
                run_one(kind, depth, buffered, False, "full", False, 1, 100, False, new_stats(),
                    dut_cls=RefWriter, broken=True)
            except CheckError:
                caught += 1
    if caught != 6:
        print("FAIL: harness self-test: only %d/6 broken writers caught" % caught)
        sys.exit(1)


def main():
    selftest()
    total = new_stats()
    n = 0
    modes = [
        # with_we, we_mode,  with_ref
        (False,    "full",   True),
        (True,     "full",   True),
        (True,     "random", False),
    ]
    for kind in ["native", "axi"]:
        for depth in [1, 2, 3, 4, 8, 16]:
            for buffered in [False, True]:
                for (with_we, we_mode, with_ref) in modes:
                    for fickle in ([False, True] if depth in [1, 4] else [bool((depth + buffered) & 1)]):
                        stats = new_stats()
                        seed  = 100*depth + 10*buffered + n
                        try:
                            run_one(kind, depth, buffered, with_we, we_mode, fickle, seed, 80 + 10*depth,
                                with_ref, stats)
                        except CheckError as e:
                            print("FAIL: kind=%s depth=%d buffered=%d with_we=%d we=%s fickle=%d: %s" % (
                                kind, depth, buffered, with_we, we_mode, fickle, e))
                            sys.exit(1)
                        if stats["max_level"] < depth:
                            print("FAIL: kind=%s depth=%d buffered=%d: FIFO never filled (%r)" % (
                                kind, depth, buffered, stats))
                            sys.exit(1)
                        if we_mode == "random" and stats["partial"] == 0:
                            print("FAIL: no partial write exercised")
                            sys.exit(1)
                        for k in total:
                            total[k] = max(total[k], stats[k]) if k == "max_level" else total[k] + stats[k]
                        n += 1
    # CSR mode (address generator in front of the writer).
    for kind in ["native", "axi"]:
        for with_we in [False, True]:
            for depth, buffered in [(1, False), (4, True), (16, False)]:
                stats = new_stats()
                try:
                    run_one(kind, depth, buffered, with_we, "full", False, 7*depth + with_we, 60, False, stats,
                        csr=True)
                except CheckError as e:
                    print("FAIL: CSR mode kind=%s depth=%d buffered=%d with_we=%d: %s" % (
                        kind, depth, buffered, with_we, e))
                    sys.exit(1)
                total["cycles"] += stats["cycles"]
                n += 1
    print("OK: %d runs, %d cycles, %d partial writes" % (n, total["cycles"], total["partial"]))


if __name__ == "__main__":
    main()
