#!/usr/bin/env python3
# Check for change 1 (ECCW byte-enable widening / granularity flag rewritten with reductions).
#
#  A. lock-step equivalence of the modified LiteDRAMNativePortECCW against a verbatim copy of the
#     original one (data, we, we_error, handshake) on exhaustive / random byte-enable patterns,
#     for lane widths 8..64 and byte-aligned / non byte-aligned / padded stored lanes.
#  B. SECDED property on the real encoder/decoder lanes: every single flip and every double flip
#     of every stored ECC word position, all lane widths in use.
#  C. end-to-end LiteDRAMNativePortECC against a behavioural memory with stored-bit flips, random
#     stalls: data, sec/ded counters, sticky flags, we_errors counter.
import os, sys, random, itertools
sys.path.insert(0, os.getcwd())

from migen import *

# The CSR name extraction of this litex version does not work on python 3.12: give it a fallback.
import migen.fhdl.tracer as _tracer
import litex.soc.interconnect.csr as _csr
_orig_govn = _tracer.get_obj_var_name
_cnt = [0]
def _govn(override=None, default=None):
    if override:
        return override
    try:
        r = _orig_govn(override, default)
    except Exception:
        r = None
    if r is None:
        _cnt[0] += 1
        r = "csr%d" % _cnt[0]
    return r
_csr.get_obj_var_name = _govn
# ... and has no CSR.wr_stb (write strobe) alias yet.
if not hasattr(_csr.CSR, "wr_stb"):
    _csr.CSR.wr_stb = property(lambda self: self.re)

from litex.soc.interconnect.stream import Endpoint
from litex.soc.cores.ecc import ECCEncoder, compute_m_n, compute_data_positions

from litedram.common import LiteDRAMNativePort, wdata_description
from litedram.frontend.ecc import LiteDRAMNativePortECCW, LiteDRAMNativePortECCR, LiteDRAMNativePortECC

FAST = "--fast" in sys.argv

EXACT_COUNT = False

# --- FSim: compiles the FHDL netlist produced by the real litedram/litex code into straight-line Python ---
# (migen's interpreter needs ~1 s per clock cycle for a 64-bit ECC lane, far too slow for exhaustive flips).
# Same semantics as migen.sim (same Python integer operators, truncation on assignment, comb signals
# default to their reset value, generators sample before the edge and drive after it); it is cross-checked
# against migen.sim.run_simulation on a small configuration in selfcheck().
from migen.fhdl.structure import (_Operator, _Slice, _Assign, _Fragment, Cat, Replicate, Constant, Signal,
                                  If, Case)
from migen.fhdl.tools import list_inputs, list_targets, group_by_targets
import collections.abc

class FSim:
    def __init__(self, module):
        frag = module.get_fragment()
        assert not frag.specials, frag.specials
        assert set(frag.sync.keys()) <= {"sys"}, frag.sync.keys()
        self.idx, self.sigs, self.v = {}, [], []
        self.tmp = 0
        comb_src = self._gen_comb(frag.comb)
        sync_src = self._gen_sync(frag.sync.get("sys", []))
        ns = {}
        exec(compile(comb_src, "<fsim-comb>", "exec"), ns)
        exec(compile(sync_src, "<fsim-sync>", "exec"), ns)
        self._comb, self._sync = ns["comb"], ns["sync"]
        self.cycles = 0
        self.settle()

    # signals --------------------------------------------------------------------------------------
    def i(self, s):
        r = self.idx.get(s)
        if r is None:
            assert isinstance(s, Signal), s
            assert not s.signed, s
            r = self.idx[s] = len(self.sigs)
            self.sigs.append(s)
            self.v.append(s.reset.value)
        return r

    def get(self, s):
        return self.v[self.i(s)]

    # expressions ----------------------------------------------------------------------------------
    def ex(self, n, loc=None):
        if isinstance(n, Constant):
            return "(%d)" % n.value
        if isinstance(n, Signal):
            k = self.i(n)
            if loc is not None and k in loc:
                return "T%d" % k
            return "v[%d]" % k
        if isinstance(n, _Operator):
            o = [self.ex(x, loc) for x in n.operands]
            if n.op == "m":
                return "(%s if %s else %s)" % (o[1], o[0], o[2])
            if len(o) == 1:
                assert n.op in ("~", "-"), n.op
                return "(%s%s)" % (n.op, o[0])
            assert n.op in ("+", "-", "*", "&", "|", "^", "<<", ">>", "<", "<=", "==", "!=", ">", ">="), n.op
            return "(%s %s %s)" % (o[0], n.op, o[1])
        if isinstance(n, _Slice):
            return "((%s >> %d) & %d)" % (self.ex(n.value, loc), n.start, 2**(n.stop - n.start) - 1)
        if isinstance(n, Cat):
            parts, sh = [], 0
            for e in n.l:
                parts.append("((%s & %d) << %d)" % (self.ex(e, loc), 2**len(e) - 1, sh))
                sh += len(e)
            return "(" + " | ".join(parts or ["0"]) + ")"
        if isinstance(n, Replicate):
            nb = len(n.v)
            return "((%s & %d) * %d)" % (self.ex(n.v, loc), 2**nb - 1, sum(1 << (j*nb) for j in range(n.n)))
        raise NotImplementedError(repr(n))

    # statements -----------------------------------------------------------------------------------
    def asg(self, node, val, loc, out, ind):
        if isinstance(node, Signal):
            k = self.i(node)
            assert k in loc
            out.append("%sT%d = %s & %d" % (ind, k, val, 2**node.nbits - 1))
        elif isinstance(node, _Slice):
            full = self.ex(node.value, loc)     # pending value of the whole (postcommit)
            m    = 2**(node.stop - node.start) - 1
            self.asg(node.value, "((%s & %d) | ((%s & %d) << %d))" % (full, ~(m << node.start), val, m, node.start),
                     loc, out, ind)
        elif isinstance(node, Cat):
            self.tmp += 1
            t = "c%d" % self.tmp
            out.append("%s%s = %s" % (ind, t, val))
            sh = 0
            for e in node.l:
                self.asg(e, "((%s >> %d) & %d)" % (t, sh, 2**len(e) - 1), loc, out, ind)
                sh += len(e)
        else:
            raise NotImplementedError(repr(node))

    def st(self, stmts, loc, out, ind):
        n0 = len(out)
        for s in stmts:
            if isinstance(s, _Assign):
                self.asg(s.l, self.ex(s.r), loc, out, ind)
            elif isinstance(s, If):
                out.append("%sif %s & %d:" % (ind, self.ex(s.cond), 2**len(s.cond) - 1))
                self.st(s.t, loc, out, ind + " ")
                if s.f:
                    out.append("%selse:" % ind)
                    self.st(s.f, loc, out, ind + " ")
            elif isinstance(s, Case):
                self.tmp += 1
                t = "c%d" % self.tmp
                out.append("%s%s = %s & %d" % (ind, t, self.ex(s.test), 2**len(s.test) - 1))
                kw = "if"
                for key, body in s.cases.items():
                    if isinstance(key, Constant):
                        out.append("%s%s %s == %d:" % (ind, kw, t, key.value & (2**len(s.test) - 1)))
                        self.st(body, loc, out, ind + " ")
                        kw = "elif"
                if "default" in s.cases:
                    if kw == "if":
                        out.append("%sif True:" % ind)
                    else:
                        out.append("%selse:" % ind)
                    self.st(s.cases["default"], loc, out, ind + " ")
            elif isinstance(s, collections.abc.Iterable):
                self.st(list(s), loc, out, ind)
            else:
                raise NotImplementedError(repr(s))
        if len(out) == n0:
            out.append("%spass" % ind)

    # comb -----------------------------------------------------------------------------------------
    def _gen_comb(self, comb):
        groups = []
        for targets, stmts in group_by_targets(comb):
            tg = set(self.i(t) for t in targets)
            rd = set(self.i(t) for t in list_inputs(stmts))
            groups.append((tg, rd, stmts))
        producer = {}
        for g, (tg, rd, _) in enumerate(groups):
            for t in tg:
                assert t not in producer
                producer[t] = g
        self.comb_targets = set(producer)
        deps = []
        loop = False
        for g, (tg, rd, _) in enumerate(groups):
            d = set(producer[r] for r in rd if r in producer)
            if g in d:
                loop = True
                d.discard(g)
            deps.append(d)
        users = [[] for _ in groups]
        ndep  = [len(d) for d in deps]
        for g, d in enumerate(deps):
            for h in d:
                users[h].append(g)
        order, todo = [], [g for g in range(len(groups)) if ndep[g] == 0]
        while todo:
            g = todo.pop()
            order.append(g)
            for u in users[g]:
                ndep[u] -= 1
                if ndep[u] == 0:
                    todo.append(u)
        if len(order) != len(groups):
            loop = True
            order += [g for g in range(len(groups)) if g not in set(order)]
        self.comb_loop = loop
        out = ["def comb(v):", " ch = False"]
        for g in order:
            tg, rd, stmts = groups[g]
            for t in sorted(tg):
                out.append(" T%d = %d" % (t, self.sigs[t].reset.value))
            self.st(stmts, tg, out, " ")
            for t in sorted(tg):
                if loop:
                    out.append(" if v[%d] != T%d: ch = True" % (t, t))
                out.append(" v[%d] = T%d" % (t, t))
        out.append(" return ch")
        return "\n".join(out)

    def _gen_sync(self, sync):
        tg = set(self.i(t) for t in list_targets(sync))
        self.sync_targets = tg
        out = ["def sync(v):"]
        for t in sorted(tg):
            out.append(" T%d = v[%d]" % (t, t))
        self.st(sync, tg, out, " ")
        out.append(" return [" + ", ".join("(%d, T%d)" % (t, t) for t in sorted(tg)) + "]")
        return "\n".join(out)

    # run ------------------------------------------------------------------------------------------
    def settle(self):
        n = 0
        while self._comb(self.v):
            n += 1
            assert n < 1000, "combinational loop does not settle"

    def _step(self, g, pending):
        reply = None
        try:
            while True:
                req = g.send(reply)
                reply = None
                if req is None:
                    return True
                if isinstance(req, _Assign):
                    assert isinstance(req.l, Signal) and isinstance(req.r, Constant), req
                    k = self.i(req.l)
                    assert k not in self.comb_targets, "testbench drives a comb signal"
                    pending[k] = req.r.value & (2**req.l.nbits - 1)
                elif isinstance(req, Signal):
                    reply = self.v[self.i(req)]
                else:
                    raise NotImplementedError(repr(req))
        except StopIteration:
            return False

    def run(self, main, background=(), max_cycles=10**8):
        v = self.v
        bg = list(background)
        while True:
            nx = self._sync(v)
            pending = {}
            alive = self._step(main, pending)
            for g in bg:
                self._step(g, pending)
            for k, x in nx:
                v[k] = x
            for k, x in pending.items():
                v[k] = x
            self.settle()
            self.cycles += 1
            if not alive:
                return
            assert self.cycles < max_cycles
# --- end of FSim -------------------------------------------------------------------------------------
# Reference (verbatim original) -------------------------------------------------------------------

class RefECCW(Module):
    def __init__(self, data_width_from, data_width_to, burst_cycles=8):
        self.sink     = sink   = Endpoint(wdata_description(data_width_from))
        self.source   = source = Endpoint(wdata_description(data_width_to))
        self.we_error = Signal()
        self.comb += sink.connect(source, omit={"data", "we"}),
        for i in range(burst_cycles):
            ecc_width_from = data_width_from // burst_cycles
            ecc_width_to   = data_width_to   // burst_cycles
            self.submodules.encoder = encoder = ECCEncoder(ecc_width_from)
            self.comb += [
                encoder.i.eq(sink.data[i*ecc_width_from:(i+1)*ecc_width_from]),
                If(sink.we[i*ecc_width_from//8:(i+1)*ecc_width_from//8] != 0,
                    source.we[i*ecc_width_to//8:(i+1)*ecc_width_to//8].eq(2**ecc_width_to//8-1)
                ),
                source.data[i*ecc_width_to:(i+1)*ecc_width_to].eq(encoder.o),
                If(sink.valid & (sink.we[i*ecc_width_from//8:(i+1)*ecc_width_from//8] != (2**(ecc_width_from//8)-1)),
                    self.we_error.eq(1)
                )
            ]

# Software model of the code -------------------------------------------------------------------------

def sw_encode(k, d):
    m, n = compute_m_n(k)
    cw = [0]*(n + 1)                      # 1-based positions
    for i, p in enumerate(compute_data_positions(n)):
        cw[p] = (d >> i) & 1
    for i in range(m):
        p = 1 << i
        s = 0
        for c in range(1, n + 1):
            if c & p and c != p:
                s ^= cw[c]
        cw[p] = s
    par = 0
    for c in range(1, n + 1):
        par ^= cw[c]
    v = par
    for c in range(1, n + 1):
        v |= cw[c] << c
    return v

# 0. FSim against migen.sim ---------------------------------------------------------------------------

def selfcheck(rng, k=8, wto=13, bc=2, ncyc=150):
    def build():
        class DUT(Module):
            def __init__(self):
                self.port_from = LiteDRAMNativePort("both", 24, k*bc)
                self.port_to   = LiteDRAMNativePort("both", 24, wto*bc)
                self.submodules.ecc = LiteDRAMNativePortECC(self.port_from, self.port_to, burst_cycles=bc,
                    with_error_injection=True, with_we_error_detection=True)
        d = DUT()
        pf, pt, e = d.port_from, d.port_to, d.ecc
        ins  = [pf.cmd.valid, pf.cmd.we, pf.cmd.addr, pf.wdata.valid, pf.wdata.we, pf.wdata.data, pf.rdata.ready,
                pt.cmd.ready, pt.wdata.ready, pt.rdata.valid, pt.rdata.data, e.flip.storage, e.enable.storage, e.clear.re]
        outs = [pt.cmd.valid, pt.cmd.we, pt.cmd.addr, pt.wdata.valid, pt.wdata.we, pt.wdata.data, pt.rdata.ready,
                pf.cmd.ready, pf.wdata.ready, pf.rdata.valid, pf.rdata.data, e.sec_errors.status, e.ded_errors.status,
                e.we_errors.status, e.sec_detected, e.ded_detected]
        return d, ins, outs
    d1, i1, o1 = build()
    d2, i2, o2 = build()
    stim = []
    for c in range(ncyc):
        row = []
        for s in i1:
            n = len(s)
            r = rng.random()
            if s is i1[-1]:   x = int(r < 0.03)
            elif s is i1[-2]: x = int(r < 0.9)
            elif s is i1[-3]: x = rng.choice([0, 0, 1, 2, 3, 0x18])
            elif s is i1[4]:  x = rng.choice([2**n - 1, 2**n - 1, rng.getrandbits(n)])
            else:             x = rng.getrandbits(n)
            row.append(x)
        stim.append(row)
    def tb(ins, outs, trace):
        for row in stim:
            for s, x in zip(ins, row):
                yield s.eq(x)
            yield
            t = []
            for s in outs:
                t.append((yield s))
            trace.append(t)
    t1, t2 = [], []
    run_simulation(d1, tb(i1, o1, t1))
    FSim(d2).run(tb(i2, o2, t2))
    assert len(t1) == len(t2) == ncyc
    for c, (a, b) in enumerate(zip(t1, t2)):
        assert a == b, ("FSim differs from migen.sim at cycle", c, a, b)
    assert any(r[11] for r in t1) and any(r[12] for r in t1) and any(r[13] for r in t1)
    return ncyc

# A. lock-step equivalence of ECCW -------------------------------------------------------------------

def check_eccw_equiv(k, wto, bc, rng):
    wf, wt = k*bc, wto*bc
    class DUT(Module):
        def __init__(self):
            self.submodules.a = LiteDRAMNativePortECCW(wf, wt, bc)
            self.submodules.b = RefECCW(wf, wt, bc)
            for n in ["valid", "data", "we", "first", "last"]:
                self.comb += getattr(self.b.sink, n).eq(getattr(self.a.sink, n))
            self.comb += self.b.source.ready.eq(self.a.source.ready)
    dut = DUT()
    nwe = wf//8
    if nwe <= 8:
        pats = list(range(2**nwe))
    else:
        pats = [0, 2**nwe - 1]
        # per-lane structured patterns + random ones
        lanes = [0, 2**(k//8) - 1, 1, 2**(k//8 - 1)] if k > 8 else [0, 1]
        for _ in range(60 if FAST else 400):
            v = 0
            for l in range(bc):
                c = rng.choice(lanes) if rng.random() < 0.7 else rng.getrandbits(k//8)
                v |= c << (l*(k//8))
            pats.append(v)
    errs = []
    stats = {"we_err": 0, "n": 0}
    def gen():
        for we in pats:
            for valid in (0, 1):
                data = rng.getrandbits(wf)
                rdy  = rng.getrandbits(1)
                yield dut.a.sink.we.eq(we)
                yield dut.a.sink.valid.eq(valid)
                yield dut.a.sink.data.eq(data)
                yield dut.a.sink.last.eq(rng.getrandbits(1))
                yield dut.a.source.ready.eq(rdy)
                yield
                obs = {}
                for nm, ea, eb in [("src.we", dut.a.source.we, dut.b.source.we),
                                   ("src.data", dut.a.source.data, dut.b.source.data),
                                   ("src.valid", dut.a.source.valid, dut.b.source.valid),
                                   ("src.last", dut.a.source.last, dut.b.source.last),
                                   ("sink.ready", dut.a.sink.ready, dut.b.sink.ready),
                                   ("we_error", dut.a.we_error, dut.b.we_error)]:
                    va, vb = (yield ea), (yield eb)
                    obs[nm] = va
                    if va != vb:
                        errs.append((k, wto, bc, nm, hex(we), valid, va, vb))
                # independent statement of the property
                full = all(((we >> (l*(k//8))) & (2**(k//8) - 1)) == 2**(k//8) - 1 for l in range(bc))
                exp_err = int(bool(valid) and not full)
                if obs["we_error"] != exp_err:
                    errs.append((k, wto, bc, "we_error vs spec", hex(we), valid, obs["we_error"], exp_err))
                if we == 2**nwe - 1 and obs["src.we"] != 2**(wt//8) - 1:
                    errs.append((k, wto, bc, "full write not fully enabled", hex(obs["src.we"])))
                # stored data is the encoding of each lane
                for l in range(bc):
                    d = (data >> (l*k)) & (2**k - 1)
                    got = (obs["src.data"] >> (l*wto)) & (2**wto - 1)
                    if got != sw_encode(k, d):
                        errs.append((k, wto, bc, "encoding", l, hex(d), hex(got)))
                stats["we_err"] += obs["we_error"]
                stats["n"] += 1
    FSim(dut).run(gen())
    assert not errs, errs[:5]
    assert stats["we_err"] > 0
    return stats

# B. SECDED on the real lanes ------------------------------------------------------------------------

def check_secded(k, wto, bc, rng):
    """ECCW -> (flip stored bits) -> ECCR, one fault case per lane per cycle."""
    m, n = compute_m_n(k)
    wf, wt = k*bc, wto*bc
    class DUT(Module):
        def __init__(self):
            self.submodules.w = LiteDRAMNativePortECCW(wf, wt, bc)
            self.submodules.r = LiteDRAMNativePortECCR(wf, wt, bc)
            self.flip = Signal(wt)
            self.comb += [
                self.r.enable.eq(1),
                self.r.sink.valid.eq(self.w.source.valid),
                self.r.sink.data.eq(self.w.source.data ^ self.flip),
                self.r.source.ready.eq(1),
            ]
    dut = DUT()
    cases = [()] + [(p,) for p in range(n + 1)] + list(itertools.combinations(range(n + 1), 2))
    if FAST and len(cases) > 600:
        cases = cases[:n + 2] + rng.sample(cases[n + 2:], 500)
    rng.shuffle(cases)
    cases += [()]*((-len(cases)) % bc)
    errs = []
    cnt = {"clean": 0, "sec": 0, "par": 0, "ded": 0}
    def gen():
        for b in range(0, len(cases), bc):
            grp  = cases[b:b + bc]
            data = rng.getrandbits(wf)
            if b % 7 == 0: data = 0
            if b % 7 == 1: data = 2**wf - 1
            flip = 0
            for l, c in enumerate(grp):
                for p in c:
                    flip |= 1 << (l*wto + p)
            yield dut.w.sink.valid.eq(1)
            yield dut.w.sink.we.eq(2**(wf//8) - 1)
            yield dut.w.sink.data.eq(data)
            yield dut.flip.eq(flip)
            yield
            out = (yield dut.r.source.data)
            sec = (yield dut.r.sec)
            ded = (yield dut.r.ded)
            for l, c in enumerate(grp):
                d  = (data >> (l*k)) & (2**k - 1)
                o  = (out  >> (l*k)) & (2**k - 1)
                s, e = (sec >> l) & 1, (ded >> l) & 1
                if len(c) == 0:
                    ok = o == d and not s and not e; cnt["clean"] += 1
                elif len(c) == 1 and c[0] == 0:
                    ok = o == d and not s and not e; cnt["par"] += 1
                elif len(c) == 1:
                    ok = o == d and s and not e; cnt["sec"] += 1
                else:
                    ok = e and not s; cnt["ded"] += 1
                if not ok:
                    errs.append((k, wto, bc, l, c, hex(d), hex(o), s, e))
    FSim(dut).run(gen())
    assert not errs, errs[:5]
    return cnt

# C. end-to-end port ---------------------------------------------------------------------------------

class Mem:
    """Behavioural DRAM behind port_to, with per-address stored-bit flip masks and random stalls."""
    def __init__(self, port, rng, stall=0.3):
        self.port, self.rng, self.stall = port, rng, stall
        self.mem, self.flip = {}, {}
        self.wq, self.rq = [], []
        self.nbytes = len(port.wdata.we)

    def cmd_handler(self):
        p = self.port
        while True:
            rdy = int(self.rng.random() > self.stall)
            yield p.cmd.ready.eq(rdy)
            yield
            if rdy and (yield p.cmd.valid):
                a = (yield p.cmd.addr)
                (self.wq if (yield p.cmd.we) else self.rq).append(a)

    def wdata_handler(self):
        p = self.port
        while True:
            rdy = int(bool(self.wq) and self.rng.random() > self.stall)
            yield p.wdata.ready.eq(rdy)
            yield
            if rdy and (yield p.wdata.valid):
                a  = self.wq.pop(0)
                d  = (yield p.wdata.data)
                we = (yield p.wdata.we)
                old = self.mem.get(a, 0)
                for b in range(self.nbytes):
                    if (we >> b) & 1:
                        old = (old & ~(0xff << (8*b))) | (d & (0xff << (8*b)))
                self.mem[a] = old
                self.last_we = we

    def rdata_handler(self):
        p = self.port
        while True:
            if self.rq and self.rng.random() > self.stall:
                a = self.rq.pop(0)
                yield p.rdata.valid.eq(1)
                yield p.rdata.data.eq(self.mem.get(a, 0) ^ self.flip.get(a, 0))
                yield
                while not (yield p.rdata.ready):
                    yield
                yield p.rdata.valid.eq(0)
            else:
                yield

def check_port(k, wto, bc, rng, nwords, stall, rdy_stall):
    m, n = compute_m_n(k)
    wf, wt = k*bc, wto*bc
    class DUT(Module):
        def __init__(self):
            self.port_from = LiteDRAMNativePort("both", 24, wf)
            self.port_to   = LiteDRAMNativePort("both", 24, wt)
            self.submodules.ecc = LiteDRAMNativePortECC(self.port_from, self.port_to, burst_cycles=bc,
                with_error_injection=False, with_we_error_detection=True)
    dut = DUT()
    mem = Mem(dut.port_to, rng, stall)
    pf  = dut.port_from
    ecc = dut.ecc
    errs = []
    allcases = [()] + [(p,) for p in range(n + 1)] + list(itertools.combinations(range(n + 1), 2))
    info = {"sec": 0, "ded": 0, "clean": 0, "we": 0}

    def cmd(we, addr):
        yield pf.cmd.valid.eq(1)
        yield pf.cmd.we.eq(we)
        yield pf.cmd.addr.eq(addr)
        yield
        while not (yield pf.cmd.ready):
            yield
        yield pf.cmd.valid.eq(0)

    def write(addr, data, we):
        yield from cmd(1, addr)
        for _ in range(rng.randrange(3)):
            yield
        yield pf.wdata.valid.eq(1)
        yield pf.wdata.we.eq(we)
        yield pf.wdata.data.eq(data)
        yield
        while not (yield pf.wdata.ready):
            yield
        yield pf.wdata.valid.eq(0)

    def read(addr):
        yield from cmd(0, addr)
        yield pf.rdata.ready.eq(0)
        while True:
            r = int(rng.random() > rdy_stall)
            yield pf.rdata.ready.eq(r)
            yield
            if r and (yield pf.rdata.valid):
                d = (yield pf.rdata.data)
                yield pf.rdata.ready.eq(0)
                return d

    def counters():
        return ((yield ecc.sec_errors.status), (yield ecc.ded_errors.status),
                (yield ecc.sec_detected), (yield ecc.ded_detected), (yield ecc.we_errors.status))

    def settle():
        # the write data path is buffered: wait until the memory has really taken everything.
        while mem.wq or mem.rq:
            yield
        for _ in range(6):
            yield

    def main():
        yield ecc.enable.storage.eq(1)
        yield
        full = 2**(wf//8) - 1
        words = {}
        # full writes: never a granularity error, whatever the stalls.
        for a in range(nwords):
            words[a] = rng.getrandbits(wf)
            yield from write(a, words[a], full)
        yield from settle()
        c = yield from counters()
        if c != (0, 0, 0, 0, 0):
            errs.append(("after full writes", c))
        for a in range(nwords):
            if mem.mem.get(a) is None:
                errs.append(("not written", a))
        # reads with faults, one at a time.
        pool = list(allcases); rng.shuffle(pool)
        for it in range(nwords):
            a = it
            mode, grp = it % 5, []
            for l in range(bc):
                r = rng.random()
                if   mode == 0: cs = ()                                                      # clean beat
                elif mode == 1: cs = (rng.randrange(n + 1),) if r < 0.5 else ()             # single flips only
                elif mode == 2: cs = (0,) if r < 0.6 else ()                                 # parity bit only
                elif mode == 3: cs = tuple(sorted(rng.sample(range(n + 1), 2))) if r < 0.5 else ()
                else:           cs = pool[(it*bc + l) % len(pool)] if r < 0.8 else ()        # anything
                grp.append(cs)
            f = 0
            for l, cs in enumerate(grp):
                for p in cs:
                    f |= 1 << (l*wto + p)
            mem.flip[a] = f
            b = yield from counters()
            d = yield from read(a)
            yield from settle()
            c = yield from counters()
            any_sec = any(len(cs) == 1 and cs[0] != 0 for cs in grp)
            any_ded = any(len(cs) == 2 for cs in grp)
            for l, cs in enumerate(grp):
                if len(cs) < 2:
                    if (d >> (l*k)) & (2**k - 1) != (words[a] >> (l*k)) & (2**k - 1):
                        errs.append(("data", a, l, cs))
            if any_sec != (c[0] > b[0]): errs.append(("sec count", a, grp, b, c))
            if any_ded != (c[1] > b[1]): errs.append(("ded count", a, grp, b, c))
            if EXACT_COUNT and (c[0] - b[0], c[1] - b[1]) != (int(any_sec), int(any_ded)):
                errs.append(("not counted exactly once", a, grp, b, c))
            if any_sec and not c[2]:     errs.append(("sec sticky", a, grp, b, c))
            if any_ded and not c[3]:     errs.append(("ded sticky", a, grp, b, c))
            if c[2] < b[2] or c[3] < b[3]: errs.append(("sticky dropped", a, b, c))
            if not any_sec and c[2] != b[2]: errs.append(("sec sticky set on clean", a, grp))
            if not any_ded and c[3] != b[3]: errs.append(("ded sticky set on clean", a, grp))
            if c[4] != 0: errs.append(("we_errors on read", c))
            info["sec"] += any_sec; info["ded"] += any_ded; info["clean"] += not (any_sec or any_ded)
            mem.flip[a] = 0
        # clear
        yield ecc.clear.re.eq(1)
        yield ecc.clear.r.eq(1)
        yield
        yield ecc.clear.re.eq(0)
        yield from settle()
        c = yield from counters()
        if c != (0, 0, 0, 0, 0):
            errs.append(("after clear", c))
        # saturation: counters stick at all ones.
        yield ecc.sec_errors.status.eq(2**32 - 2)
        yield ecc.ded_errors.status.eq(2**32 - 2)
        yield
        for it in range(3):
            mem.flip[0] = (1 << 1) | (0b110 << wto if bc > 1 else 0)
            if bc == 1:
                mem.flip[0] = (1 << 1) if it % 2 else 0b110
            yield from read(0)
            yield from settle()
        for it in range(2):
            mem.flip[0] = (1 << 1) if it % 2 else 0b110
            yield from read(0)
            yield from settle()
        c = yield from counters()
        if c[0] != 2**32 - 1 or c[1] != 2**32 - 1:
            errs.append(("saturation", c))
        mem.flip[0] = 0
        yield ecc.clear.re.eq(1)
        yield
        yield ecc.clear.re.eq(0)
        yield from settle()
        # partial writes: always counted, full ones never; stored lanes follow the lane enables.
        lane_full = 2**(k//8) - 1
        for it in range(nwords):
            a  = it
            we = 0
            for l in range(bc):
                r = rng.random()
                v = lane_full if r < 0.5 else (0 if r < 0.65 else rng.getrandbits(k//8))
                we |= v << (l*(k//8))
            if it % 5 == 0:
                we = full
            new = rng.getrandbits(wf)
            b = yield from counters()
            yield from write(a, new, we)
            yield from settle()
            c = yield from counters()
            partial = we != full
            if partial != (c[4] > b[4]):
                errs.append(("we_errors", hex(we), b, c))
            info["we"] += partial
            lanes_written = [((we >> (l*(k//8))) & lane_full) != 0 for l in range(bc)]
            if wto % 8 == 0:
                for l in range(bc):
                    if lanes_written[l]:
                        words[a] = (words[a] & ~((2**k - 1) << (l*k))) | (new & ((2**k - 1) << (l*k)))
                d = yield from read(a)
                if d != words[a]:
                    errs.append(("partial write readback", a, hex(we)))
            elif all(lanes_written):
                words[a] = new
                d = yield from read(a)
                if d != words[a]:
                    errs.append(("write readback", a, hex(we)))
            else:
                # non byte-aligned stored lanes: restore a known content.
                yield from write(a, words[a], full)
        yield from settle()
        c = yield from counters()
        if c[0] or c[1]:
            errs.append(("sec/ded counted without flips", c))

    FSim(dut).run(main(), [mem.cmd_handler(), mem.wdata_handler(), mem.rdata_handler()])
    assert not errs, errs[:6]
    assert info["sec"] and info["ded"] and info["we"] and info["clean"], info
    return info

# Common driver --------------------------------------------------------------------------------------

def common_checks(rng):
    print("fsim == migen.sim on %d random cycles" % selfcheck(rng)); sys.stdout.flush()
    # (data bits per lane, stored bits per lane, lanes)
    for k, wto, bc in [(8, 13, 8), (16, 22, 4), (24, 30, 2), (32, 39, 8), (48, 55, 1), (64, 72, 2), (16, 24, 2), (8, 16, 1)]:
        print("secded  k=%d to=%d lanes=%d" % (k, wto, bc), check_secded(k, wto, bc, rng)); sys.stdout.flush()
    for k, wto, bc, nw in [(8, 13, 8, 120), (8, 16, 4, 80), (16, 22, 4, 150), (32, 39, 8, 150), (64, 72, 8, 120), (64, 72, 2, 300), (32, 40, 1, 200)]:
        if FAST: nw = max(8, nw//4)
        for stall, rs in [(0.0, 0.0), (0.4, 0.5)]:
            print("port    k=%d to=%d lanes=%d stall=%.1f" % (k, wto, bc, stall), check_port(k, wto, bc, rng, nw, stall, rs)); sys.stdout.flush()

if __name__ == "__main__":
    rng = random.Random(0xC15)
    for k, wto, bc in [(8, 13, 8), (8, 16, 8), (16, 22, 4), (16, 24, 2), (32, 39, 2), (32, 39, 8), (64, 72, 1), (64, 72, 8), (24, 30, 3)]:
        print("eccw eq k=%d to=%d lanes=%d" % (k, wto, bc), check_eccw_equiv(k, wto, bc, rng)); sys.stdout.flush()
    common_checks(rng)
    print("OK")
