"""Triage repro for finding F1 (C03.2) - NOT part of any check; run by hand:
   cd /repo && /venv/bin/python /verif/findings/F1_refresh_gnt_tras.py
Drives the real BankMachine: one read opens a row, a refresh request arrives right after the ACT.
Reports the distance ACT-accepted -> refresh_gnt (after which the refresher issues precharge-all)."""
import sys
from migen import *
from litedram.common import *
from litedram.core.bankmachine import BankMachine
from litedram.core.controller import ControllerSettings

class S: pass

def main():
    settings = ControllerSettings()
    settings.phy = S(); settings.phy.cwl = 2; settings.phy.nphases = 2
    settings.geom = S(); settings.geom.addressbits = 14; settings.geom.bankbits = 3; settings.geom.colbits = 10; settings.geom.rowbits = 14
    settings.timing = S(); settings.timing.tRAS = 12; settings.timing.tRP = 3; settings.timing.tRCD = 3; settings.timing.tRC = 15
    settings.timing.tWR = 2; settings.timing.tCCD = 1
    settings.with_auto_precharge = False
    dut = BankMachine(0, 24, 2, 1, settings)
    res = {}
    def gen():
        yield dut.cmd.ready.eq(1)
        yield dut.req.addr.eq(0x1234); yield dut.req.we.eq(0); yield dut.req.valid.eq(1)
        t = 0
        while True:
            yield
            t += 1
            if (yield dut.req.ready): break
        yield dut.req.valid.eq(0)
        for i in range(60):
            v, ras, cas, we = (yield dut.cmd.valid), (yield dut.cmd.ras), (yield dut.cmd.cas), (yield dut.cmd.we)
            if v and ras and not cas and not we and "act" not in res:
                res["act"] = i
                yield dut.refresh_req.eq(1)
            if (yield dut.refresh_gnt) and "gnt" not in res:
                res["gnt"] = i
            yield
    run_simulation(dut, gen())
    d = res["gnt"] - res["act"]
    print("ACT accepted at cycle %d, refresh_gnt at cycle %d: %d cycles, tRAS = %d" % (res["act"], res["gnt"], d, settings.timing.tRAS))
    # the refresher's precharge-all can be issued 1 cycle after the grant (multiplexer REFRESH state + executer)
    if d + 2 < settings.timing.tRAS:
        print("F1 REPRODUCED: refresh granted %d cycles after ACT although tRAS is %d cycles" % (d, settings.timing.tRAS)); return 1
    print("ok: grant respects tRAS"); return 0
sys.exit(main())
