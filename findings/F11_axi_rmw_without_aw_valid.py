# Triage repro for finding F11 (C09) - written by an independent triage agent on the unmodified tree; NOT part of any check. Run: cd /repo && /venv/bin/python /verif/findings/F11_axi_rmw_without_aw_valid.py
import sys, os; sys.path.insert(0, os.getcwd())
# Claim (a): LiteDRAMAXI2NativeW RMW FSM leaves IDLE on a partial-strobe W beat without
# checking aw.valid.  Stimulus: single-beat partial-strobe write whose W beat is presented
# several cycles BEFORE its AW beat (legal AXI4).
#
# exit 1 -> defect manifests, exit 0 -> behaviour correct.

from migen import *
from litedram.common import LiteDRAMNativePort
from litedram.frontend.axi import LiteDRAMAXIPort, LiteDRAMAXI2Native
from litex.soc.interconnect.axi import BURST_INCR

DEPTH = 256


def init_word(i):
    # every byte lane depends on the address so that wrong-address merges are visible
    return ((i ^ 0xA5) << 24) | ((i ^ 0x3C) << 16) | ((i ^ 0xFF) << 8) | i


class NativeMem:
    """Simple in-order native port memory model + monitor."""
    def __init__(self, port, cmd_ready=lambda c: 1, wdata_ready=lambda c: 1, rlat=2):
        self.port, self.cmd_ready, self.wdata_ready, self.rlat = port, cmd_ready, wdata_ready, rlat
        self.mem  = [init_word(i) for i in range(DEPTH)]
        self.cmds = []   # (cycle, "W"/"R", addr)
        self.wr   = []   # (cycle, addr, data, we)
        self.errors = []

    @passive
    def gen(self):
        p = self.port
        cyc, wq, rq = 0, [], []
        while True:
            if (yield p.cmd.valid) and (yield p.cmd.ready):
                we, addr = (yield p.cmd.we), (yield p.cmd.addr)
                self.cmds.append((cyc, "W" if we else "R", addr))
                (wq if we else rq).append(addr if we else [self.rlat, addr])
            if (yield p.wdata.valid) and (yield p.wdata.ready):
                data, we = (yield p.wdata.data), (yield p.wdata.we)
                if not wq:
                    self.errors.append("cycle %d: wdata without write command" % cyc)
                else:
                    addr = wq.pop(0)
                    mask = sum(0xff << (8*i) for i in range(4) if (we >> i) & 1)
                    self.mem[addr % DEPTH] = (self.mem[addr % DEPTH] & ~mask) | (data & mask)
                    self.wr.append((cyc, addr, data, we))
            if (yield p.rdata.valid) and (yield p.rdata.ready):
                rq.pop(0)
            for e in rq:
                e[0] = max(0, e[0] - 1)
            if rq and rq[0][0] == 0:
                yield p.rdata.valid.eq(1)
                yield p.rdata.data.eq(self.mem[rq[0][1] % DEPTH])
            else:
                yield p.rdata.valid.eq(0)
            yield p.cmd.ready.eq(self.cmd_ready(cyc + 1))
            yield p.wdata.ready.eq(self.wdata_ready(cyc + 1))
            yield
            cyc += 1


def run(aw_cycle, w_cycle, addr_word=0x40, wid=7, data=0xAABBCCDD, strb=0b0011, ncycles=150):
    axi  = LiteDRAMAXIPort(data_width=32, address_width=32, id_width=8)
    port = LiteDRAMNativePort("both", 32, 32)
    dut  = LiteDRAMAXI2Native(axi, port, with_read_modify_write=True)
    mem  = NativeMem(port)
    ev   = {"aw_hs": None, "w_hs": None, "b": []}

    def aw_gen():
        for _ in range(aw_cycle):
            yield
        yield axi.aw.valid.eq(1)
        yield axi.aw.addr.eq(addr_word << 2)
        yield axi.aw.burst.eq(BURST_INCR)
        yield axi.aw.len.eq(0)
        yield axi.aw.size.eq(2)
        yield axi.aw.id.eq(wid)
        yield
        c = aw_cycle + 1
        while not (yield axi.aw.ready):
            yield
            c += 1
        ev["aw_hs"] = c
        yield axi.aw.valid.eq(0)
        yield axi.aw.addr.eq(0)   # idle bus value
        yield axi.aw.id.eq(0)
        yield

    def w_gen():
        for _ in range(w_cycle):
            yield
        yield axi.w.valid.eq(1)
        yield axi.w.data.eq(data)
        yield axi.w.strb.eq(strb)
        yield axi.w.last.eq(1)
        yield
        c = w_cycle + 1
        for _ in range(ncycles):
            if (yield axi.w.ready):
                ev["w_hs"] = c
                break
            yield
            c += 1
        yield axi.w.valid.eq(0)
        yield axi.w.strb.eq(0xf)
        yield

    def b_mon():
        yield axi.b.ready.eq(1)
        for c in range(ncycles):
            if (yield axi.b.valid) and (yield axi.b.ready):
                ev["b"].append((c, (yield axi.b.id)))
            yield

    run_simulation(dut, [aw_gen(), w_gen(), b_mon(), mem.gen()])

    exp = [init_word(i) for i in range(DEPTH)]
    exp[addr_word] = (exp[addr_word] & 0xFFFF0000) | (data & 0xFFFF)
    diffs = [(i, mem.mem[i], exp[i]) for i in range(DEPTH) if mem.mem[i] != exp[i]]
    return mem, ev, diffs


def report(name, aw_cycle, w_cycle):
    mem, ev, diffs = run(aw_cycle, w_cycle)
    print("== %s: AW presented at cycle %d, W (strb=0b0011) presented at cycle %d" % (name, aw_cycle, w_cycle))
    print("   AXI AW handshake cycle:", ev["aw_hs"], " AXI W handshake cycle:", ev["w_hs"])
    print("   native cmds (cycle, type, word addr):", [(c, t, hex(a)) for c, t, a in mem.cmds])
    print("   native writes (cycle, word addr, data, we):", [(c, hex(a), hex(d), bin(w)) for c, a, d, w in mem.wr])
    print("   B responses (cycle, id):", ev["b"])
    print("   memory mismatches (word addr, got, expected):", [(hex(i), hex(g), hex(e)) for i, g, e in diffs])
    print("   model errors:", mem.errors)
    bad = []
    if [(t, a) for _, t, a in mem.cmds] != [("R", 0x40), ("W", 0x40)]:
        bad.append("native command sequence is not [R 0x40, W 0x40]")
    if diffs:
        bad.append("memory content differs from expected")
    if [i for _, i in ev["b"]] != [7]:
        bad.append("B responses are not exactly [id 7]")
    if ev["b"] and ev["aw_hs"] is not None and ev["b"][0][0] < ev["aw_hs"]:
        bad.append("B response given before the AW handshake")
    if ev["w_hs"] is None:
        bad.append("W beat never accepted")
    return bad


if __name__ == "__main__":
    ctrl = report("control (AW first)", aw_cycle=5, w_cycle=15)
    test = report("test (W first)",     aw_cycle=25, w_cycle=5)
    print()
    if ctrl:
        print("UNEXPECTED: control scenario failed:", ctrl)
        sys.exit(2)
    if test:
        print("DEFECT CONFIRMED (claim a): RMW started without a valid AW beat:")
        for b in test:
            print("  -", b)
        sys.exit(1)
    print("claim (a) not reproducible: W-before-AW partial write handled correctly")
    sys.exit(0)
