# Triage repro for finding F12 (C09) - written by an independent triage agent on the unmodified tree; NOT part of any check. Run: cd /repo && /venv/bin/python /verif/findings/F12_axi_rmw_wrong_beat_address.py
import sys, os; sys.path.insert(0, os.getcwd())
# Claim (b): LiteDRAMAXI2NativeW RMW sequence uses the aw beat of an EARLIER data beat when
# full-strobe beats are still queued in w_buffer without their commands having been issued.
# Stimulus: one INCR burst of 3 beats (strb F, F, 3) with port.cmd.ready held low for a while.
#
# exit 1 -> defect manifests, exit 0 -> behaviour correct.

from migen import *
from litedram.common import LiteDRAMNativePort
from litedram.frontend.axi import LiteDRAMAXIPort, LiteDRAMAXI2Native
from litex.soc.interconnect.axi import BURST_INCR

DEPTH = 256


def init_word(i):
    # every byte lane depends on the address so that wrong-address merges are visible
    return ((i ^ 0xA5) << 24) | ((i ^ 0x3C) << 16) | ((i ^ 0xFF) << 8) | i


class NativeMem:
    """Simple in-order native port memory model + monitor."""
    def __init__(self, port, cmd_ready=lambda c: 1, wdata_ready=lambda c: 1, rlat=2):
        self.port, self.cmd_ready, self.wdata_ready, self.rlat = port, cmd_ready, wdata_ready, rlat
        self.mem  = [init_word(i) for i in range(DEPTH)]
        self.cmds = []   # (cycle, "W"/"R", addr)
        self.wr   = []   # (cycle, addr, data, we)
        self.errors = []

    @passive
    def gen(self):
        p = self.port
        cyc, wq, rq = 0, [], []
        while True:
            if (yield p.cmd.valid) and (yield p.cmd.ready):
                we, addr = (yield p.cmd.we), (yield p.cmd.addr)
                self.cmds.append((cyc, "W" if we else "R", addr))
                (wq if we else rq).append(addr if we else [self.rlat, addr])
            if (yield p.wdata.valid) and (yield p.wdata.ready):
                data, we = (yield p.wdata.data), (yield p.wdata.we)
                if not wq:
                    self.errors.append("cycle %d: wdata without write command" % cyc)
                else:
                    addr = wq.pop(0)
                    mask = sum(0xff << (8*i) for i in range(4) if (we >> i) & 1)
                    self.mem[addr % DEPTH] = (self.mem[addr % DEPTH] & ~mask) | (data & mask)
                    self.wr.append((cyc, addr, data, we))
            if (yield p.rdata.valid) and (yield p.rdata.ready):
                rq.pop(0)
            for e in rq:
                e[0] = max(0, e[0] - 1)
            if rq and rq[0][0] == 0:
                yield p.rdata.valid.eq(1)
                yield p.rdata.data.eq(self.mem[rq[0][1] % DEPTH])
            else:
                yield p.rdata.valid.eq(0)
            yield p.cmd.ready.eq(self.cmd_ready(cyc + 1))
            yield p.wdata.ready.eq(self.wdata_ready(cyc + 1))
            yield
            cyc += 1


BASE  = 0x40                                   # word address of beat 0
DATA  = [0x11111111, 0x22222222, 0xAABBCCDD]
STRB  = [0xf, 0xf, 0b0011]
WID   = 9


def run(cmd_ready_from, aw_cycle=5, w_cycle=5, ncycles=200):
    axi  = LiteDRAMAXIPort(data_width=32, address_width=32, id_width=8)
    port = LiteDRAMNativePort("both", 32, 32)
    dut  = LiteDRAMAXI2Native(axi, port, with_read_modify_write=True)
    mem  = NativeMem(port, cmd_ready=lambda c: int(c >= cmd_ready_from))
    ev   = {"aw_hs": None, "w_hs": [], "b": []}

    def aw_gen():
        for _ in range(aw_cycle):
            yield
        yield axi.aw.valid.eq(1)
        yield axi.aw.addr.eq(BASE << 2)
        yield axi.aw.burst.eq(BURST_INCR)
        yield axi.aw.len.eq(len(DATA) - 1)
        yield axi.aw.size.eq(2)
        yield axi.aw.id.eq(WID)
        yield
        c = aw_cycle + 1
        while not (yield axi.aw.ready):
            yield
            c += 1
        ev["aw_hs"] = c
        yield axi.aw.valid.eq(0)
        yield

    def w_gen():
        for _ in range(w_cycle):
            yield
        c = w_cycle
        for i, (d, s) in enumerate(zip(DATA, STRB)):
            yield axi.w.valid.eq(1)
            yield axi.w.data.eq(d)
            yield axi.w.strb.eq(s)
            yield axi.w.last.eq(int(i == len(DATA) - 1))
            yield
            c += 1
            while not (yield axi.w.ready):
                yield
                c += 1
            ev["w_hs"].append(c)
        yield axi.w.valid.eq(0)
        yield axi.w.strb.eq(0xf)
        yield

    def b_mon():
        yield axi.b.ready.eq(1)
        for c in range(ncycles):
            if (yield axi.b.valid) and (yield axi.b.ready):
                ev["b"].append((c, (yield axi.b.id)))
            yield

    run_simulation(dut, [aw_gen(), w_gen(), b_mon(), mem.gen()])

    exp = [init_word(i) for i in range(DEPTH)]
    exp[BASE + 0] = DATA[0]
    exp[BASE + 1] = DATA[1]
    exp[BASE + 2] = (exp[BASE + 2] & 0xFFFF0000) | (DATA[2] & 0xFFFF)
    diffs = [(i, mem.mem[i], exp[i]) for i in range(DEPTH) if mem.mem[i] != exp[i]]
    return mem, ev, diffs


def report(name, cmd_ready_from):
    mem, ev, diffs = run(cmd_ready_from)
    print("== %s: INCR burst len=3 @word 0x40, strb F,F,3, AW+W presented from cycle 5, "
          "port.cmd.ready low until cycle %d" % (name, cmd_ready_from))
    print("   AXI AW handshake cycle:", ev["aw_hs"], " AXI W handshake cycles:", ev["w_hs"])
    print("   native cmds (cycle, type, word addr):", [(c, t, hex(a)) for c, t, a in mem.cmds])
    print("   native writes (cycle, word addr, data, we):", [(c, hex(a), hex(d), bin(w)) for c, a, d, w in mem.wr])
    print("   B responses (cycle, id):", ev["b"])
    print("   memory mismatches (word addr, got, expected):", [(hex(i), hex(g), hex(e)) for i, g, e in diffs])
    print("   model errors:", mem.errors)
    bad = []
    reads = [a for _, t, a in mem.cmds if t == "R"]
    if reads != [BASE + 2]:
        bad.append("RMW read issued at word addr %s, expected [0x42] (address of the partial beat)"
                   % [hex(a) for a in reads])
    if diffs:
        bad.append("memory content differs from expected: " +
                   ", ".join("mem[%#x]=%#010x (expected %#010x)" % d for d in diffs))
    if [i for _, i in ev["b"]] != [WID]:
        bad.append("B responses are not exactly [id %d]" % WID)
    if len(ev["w_hs"]) != 3:
        bad.append("not all W beats accepted")
    return bad


if __name__ == "__main__":
    test = report("test (cmd.ready held low)", cmd_ready_from=40)
    # Informational: same burst with port.cmd.ready permanently high (back-to-back W beats).
    info = report("info (cmd.ready always high)", cmd_ready_from=0)
    print()
    if info:
        print("NOTE: also manifests with port.cmd.ready permanently high:", info)
    if test:
        print("DEFECT CONFIRMED (claim b): RMW used the aw beat of an earlier, still queued data beat:")
        for b in test:
            print("  -", b)
        sys.exit(1)
    print("claim (b) not reproducible: partial beat behind queued full beats handled correctly")
    sys.exit(0)
