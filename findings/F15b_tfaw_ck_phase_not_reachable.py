#!/usr/bin/env python3
# Attempted reproduction (UNMODIFIED tree): is a clock-count dominated tFAW missed the same way as tRRD, i.e. can the
# 5th ACTIVATE (issued in the READ state, lower command phase) come closer than tFAW to the 1st one (issued in the WRITE
# state, higher command phase)?   RESULT: NO - not reachable, the script shows the tightest case and exits 0.
#
#   H5TQ4G63EFR, speedgrade 1600, controller clock 125 MHz, rate 1:2 (tCK = 4 ns), rdphase=1, wrphase=0.
#   Datasheet entry (modules.py, H5TQ4G63CFR.speedgrade_timings["1600"]): tFAW = (32 ck, 40 ns) -> max(32, 10) = 32 clocks.
#   Controller: ck_to_cycles(32) = 16 cycles (zero rounding slack, no phase margin), ns_to_cycles(40 + 4) = 6 -> tFAW = 16;
#   tRRD = 3 cycles, so 4*tRRD = 12 < 16: tFAW is clock-count dominated AND binding.
#
# Traffic: bank 0 is written (multiplexer parked in WRITE), then banks 1..5 get a request in the same cycle (five
# ACTIVATEs as fast as tRRD/tFAW allow) and bank 0 gets a row-hit read `offset` cycles later, which turns the multiplexer
# WRITE -> WTR -> READ right after the first ACTIVATE: ACT #1 on phase 1, ACT #2..#5 on phase 0 (worst phase offset).
#
# Run: cd <tree root> && /venv/bin/python repro_tfaw_ck_phase.py      exit 1 = violated, 0 = not violated.

import os
import sys
import math

sys.path.insert(0, os.getcwd())

from migen import *

from litedram import modules as M
from litedram.common import PhySettings
from litedram.core.controller import LiteDRAMController, ControllerSettings

MODULE, SPEEDGRADE, CLK, RATE, CL, CWL, RDPHASE, WRPHASE = "H5TQ4G63EFR", "1600", 125e6, "1:2", 7, 6, 1, 0

def run(offset):
    nphases = int(RATE.split(":")[1])
    module  = getattr(M, MODULE)(CLK, RATE, speedgrade=SPEEDGRADE)
    phy = PhySettings(phytype="SIM", memtype=module.memtype, databits=16, dfi_databits=32, nphases=nphases,
        rdphase=RDPHASE, wrphase=WRPHASE, cl=CL, cwl=CWL,
        read_latency=math.ceil(CL/nphases) + 4, write_latency=math.ceil(CWL/nphases))
    dut = LiteDRAMController(phy, module.geom_settings, module.timing_settings, CLK, ControllerSettings())
    bank = [getattr(dut.interface, "bank%d" % n) for n in range(6)]
    cmds = []   # (T, cycle, phase, name, bank)
    gate = []   # cycles in which the tFAW gate (tfawcon.ready) is closed

    def request(b, we, addr, at):
        for _ in range(at):
            yield
        yield b.addr.eq(addr)
        yield b.we.eq(we)
        yield b.valid.eq(1)
        yield
        while not (yield b.ready):     # value of the cycle that just ended
            yield
        yield b.valid.eq(0)

    def bank0():
        yield from request(bank[0], 1, 0, at=2)             # write row 0 -> multiplexer goes to WRITE and stays
        yield from request(bank[0], 0, 1, at=40 + offset)   # read row 0 (hit) -> WRITE -> WTR -> READ
        for _ in range(60):
            yield

    def bank12(n):
        yield from request(bank[n], 0, 0, at=45)            # needs an ACTIVATE

    @passive
    def monitor():
        names = {(0, 1, 1): "ACT", (0, 1, 0): "PRE", (0, 0, 1): "REF", (1, 0, 1): "RD", (1, 0, 0): "WR", (1, 1, 0): "ZQCS"}
        cyc = 0
        while True:
            if not (yield dut.multiplexer.tfawcon.ready):
                gate.append(cyc)
            for p, ph in enumerate(dut.dfi.phases):
                key = ((yield ph.ras_n), (yield ph.cas_n), (yield ph.we_n))
                if not (yield ph.cs_n) and key in names:
                    cmds.append((cyc*nphases + p, cyc, p, names[key], (yield ph.bank)))
            yield
            cyc += 1

    run_simulation(dut, [bank0()] + [bank12(n) for n in range(1, 6)] + [monitor()])
    return module, nphases, cmds, gate

def main():
    worst = None
    for offset in [4, 3, 5, 2, 6, 1, 0, 8, 12]:   # every alignment of the WRITE -> READ turn relative to the ACTIVATEs
        module, nphases, cmds, gate = run(offset)
        acts = [c for c in cmds if c[3] == "ACT"][1:]     # (drop the set-up ACTIVATE of bank 0)
        for i in range(len(acts) - 4):
            d = acts[i + 4][0] - acts[i][0]
            if worst is None or d < worst[0]:
                worst = (d, offset, acts[i:i + 5], cmds, gate)
    d, offset, five, cmds, gate = worst
    tck  = 1e9/(CLK*nphases)
    t    = module.get("tFAW")
    need = max(t.ck, math.ceil(t.ns/tck - 1e-6))
    ts   = module.timing_settings
    print("%s sg=%s @%gMHz %s (tCK=%gns) rdphase=%d wrphase=%d -> ACT slots: READ state phase %d, WRITE state phase %d" % (
        MODULE, SPEEDGRADE, CLK/1e6, RATE, tck, RDPHASE, WRPHASE, (RDPHASE - 1) % nphases, (WRPHASE - 1) % nphases))
    print("tightest five-ACTIVATE window over all tried alignments (read request to bank 0 sent %d cycle(s) after the others):" % offset)
    for i, (T, cyc, p, name, bk) in enumerate(five):
        print("   ACT #%d  T=%4d  cycle=%3d phase=%d  bank=%d" % (i + 1, T, cyc, p, bk))
    print("tFAW gate (tfawcon.ready=0) closed in cycles %s" % (("%d..%d" % (gate[0], gate[-1])) if gate else "-"))
    print("distance #1 -> #5 = %d DRAM clocks (%d cycles, phase offset %d); required tFAW = max(%d ck, ceil(%g ns / %g ns) = %d) = %d clocks "
          "[modules.py: %s speedgrade_timings['%s'] tFAW=(%d, %g)]" % (d, five[4][1] - five[0][1], five[0][2] - five[4][2],
        t.ck, t.ns, tck, math.ceil(t.ns/tck - 1e-6), need, MODULE, SPEEDGRADE, t.ck, t.ns))
    print("controller values: tFAW = %d cycles = max(ck_to_cycles(%d)=%d, ns_to_cycles(%g+margin)=%d), tRRD = %d cycles" % (
        ts.tFAW, t.ck, module.ck_to_cycles(t.ck), t.ns, module.ns_to_cycles(t.ns), ts.tRRD))
    violated = d < need
    print("tFAW %s" % ("VIOLATED" if violated else "respected"))
    print("""
Why it is not reachable: unlike tXXDController (tRRD: next ACT exactly tRRD cycles later), tFAWController re-opens late. An ACT
accepted in cycle a sits in the tfaw-bit window during cycles a+1 .. a+tFAW; `ready` is a register computed from that count,
so after four ACTs it is only set again in cycle a1+tFAW+1 and visible in a1+tFAW+2 (test_timing: tfaw=8, first valid at
index 1, ready back at index 11). The 5th ACT is therefore >= tFAW+2 controller cycles after the 1st, i.e. >= tFAW_cycles*nphases
+ 2*nphases - (nphases-1) > ck even with zero rounding slack and the worst phase offset; for tFAW <= 4 cycles the count wraps and
the gate re-opens after tFAW+1 cycles, which still leaves nphases - (nphases-1) = 1 clock. So the two spare cycles of the
tFAW gate hide the missing phase margin of ck_to_cycles(); only tRRD (exact counter) is hit.""")
    sys.exit(1 if violated else 0)

if __name__ == "__main__":
    main()
