#!/usr/bin/env python3
"""Triage repro for finding F9 (C08.5) on the UNMODIFIED tree - NOT part of any check (adapted from seeded/C08_2/demo.py, N_READS raised from 12 to 24).
C08 demo 2: a reader in another clock domain that stalls for a while must not lose read words.

A port obtained with LiteDRAMCrossbar.get_port(clock_domain="user") issues a burst of 12 reads
spread over the banks while it is (temporarily) not accepting read data, then drains the data.
Every word the controller returned has to reach the user port exactly once and in order.
12 words in flight is well within the 16-entry read data FIFO of LiteDRAMNativePortCDC.

Run from a litedram checkout:  cd <checkout> && python demo.py
"""
import os
import sys

sys.path.insert(0, os.getcwd())

from migen import *

from test.common import NativePortDriver
from test.test_crossbar import CrossbarDUT, ControllerStub

N_READS = 24


def run(clocks, stall_cycles):
    dut  = CrossbarDUT()
    port = dut.crossbar.get_port(mode="read", clock_domain="user")
    driver     = NativePortDriver(port)
    controller = ControllerStub(dut.interface,
        write_latency = dut.settings.phy.write_latency,
        read_latency  = dut.settings.phy.read_latency)
    received = []
    state    = {"done": False}

    def reader():
        # Issue the burst (no waiting for data), stall, then accept the data.
        yield port.rdata.ready.eq(0)
        for i in range(N_READS):
            addr = dut.addr_port(bank=i % dut.interface.nbanks, row=3, col=8*i)
            yield from driver.read(addr, wait_data=False)
        for _ in range(stall_cycles):
            yield
        yield port.rdata.ready.eq(1)
        idle = 0
        while len(received) < N_READS and idle < 400:
            yield
            if (yield port.rdata.valid):
                received.append((yield port.rdata.data))
                idle = 0
            else:
                idle += 1
        state["done"] = True

    def sys_wait():
        while not state["done"]:
            yield

    generators = {
        "user": [reader()],
        "sys":  [sys_wait(), *controller.generators()],
    }
    run_simulation(dut, generators, clocks)

    returned = [d.data for d in controller.data if isinstance(d, ControllerStub.R)]
    errors = []
    if len(returned) != N_READS:
        errors.append("controller served %d reads, %d were issued" % (len(returned), N_READS))
    if received != returned:
        errors.append("controller returned %s but the user port received %s (%d of %d words)" % (
            [hex(d) for d in returned], [hex(d) for d in received], len(received), len(returned)))
    return errors


def main():
    failures = []
    for name, clocks, stall in [
        ("user clock slower", {"sys": 10, "user": (17, 4)}, 120),
        ("user clock faster", {"sys": 10, "user": 7},       300),
    ]:
        for e in run(clocks, stall):
            failures.append("[%s] %s" % (name, e))
    if failures:
        print("FAIL: read data lost/reordered across the clock domain crossing:")
        for f in failures:
            print("  " + f)
        sys.exit(1)
    print("OK: every read word was delivered exactly once and in order")
    sys.exit(0)


if __name__ == "__main__":
    main()
