"""Triage repro for finding F4 (C07.4) - NOT part of any check; run by hand:
   cd /repo && /venv/bin/python /verif/findings/F4_upconverter_lane_order.py
Drives the real LiteDRAMNativePortConverter (8 -> 32 bit) through the repository's own test bench (test.test_adapter.ConverterDUT)
with writes in ascending, descending and repeated address order and compares the memory with a byte-accurate reference."""
import sys, os
sys.path.insert(0, os.getcwd())
from migen import *
from migen.sim import passive
from test.test_adapter import ConverterDUT
from test.common import timeout_generator

def run(addrs):
    dut = ConverterDUT(user_data_width=8, native_data_width=32, mem_depth=4, separate_rw=True)
    data = [(0x11 * (i + 1)) & 0xff for i in range(len(addrs))]
    def main():
        for i, (a, d) in enumerate(zip(addrs, data)):
            yield from dut.write(a, d, last=int(i == len(addrs) - 1))   # cmd.last on the final command flushes an incomplete word
        yield from dut.write_driver.wait_all()
        for _ in range(40): yield
    gens = [main(), *dut.driver_generators, dut.memory.write_handler(dut.write_crossbar_port), dut.memory.read_handler(dut.read_crossbar_port)]
    class Stop(Exception): pass
    @passive
    def guard():
        for _ in range(600): yield
        raise Stop()
    try:
        run_simulation(dut, gens + [guard()])
    except Stop:
        return [("timeout: a data beat was never consumed", None, None)]
    exp = {}
    for a, d in zip(addrs, data):
        exp[a] = d
    mem = list(dut.memory.mem)
    return [(a, hex(d), hex((mem[a // 4] >> (8 * (a % 4))) & 0xff)) for a, d in exp.items() if (mem[a // 4] >> (8 * (a % 4))) & 0xff != d]
rc = 0
for name, addrs in (("ascending", [0, 1, 2, 3]), ("descending", [3, 2, 1, 0]), ("repeated", [1, 1, 2, 3]), ("random", [2, 0, 3, 1])):
    bad = run(addrs)
    print("%-10s %s -> %s" % (name, addrs, "ok" if bad == [] else ("MISMATCH (addr, expected, got): %s" % bad)))
    if bad: rc = 1
print("F4 REPRODUCED: the up-converter pairs data with the wrong lane for non-ascending address order" if rc else "ok")
sys.exit(rc)
