"""Triage repro for finding F7 (C04.5) - NOT part of any check; run by hand:
   cd /repo && /venv/bin/python /verif/findings/F7_zqcs_never_issued.py
Runs the real Refresher with ZQ calibration configured (period 3000 cycles) and counts ZQCS commands (we only)."""
import sys
from migen import *
from litedram.core.refresher import Refresher
from litedram.core.controller import ControllerSettings

class S: pass

def main():
    settings = ControllerSettings()
    settings.with_refresh = True
    settings.geom = S(); settings.geom.addressbits = 14; settings.geom.bankbits = 3
    settings.phy = S(); settings.phy.nranks = 1
    settings.timing = S(); settings.timing.tREFI = 128; settings.timing.tRP = 3; settings.timing.tRFC = 10; settings.timing.tZQCS = 16
    period = 3001
    dut = Refresher(settings, clk_freq=period, zqcs_freq=1, postponing=1)
    n = {"ref": 0, "zqcs": 0}
    cycles = 40 * period
    def gen():
        yield dut.cmd.ready.eq(1)
        for i in range(cycles):
            ras, cas, we = (yield dut.cmd.ras), (yield dut.cmd.cas), (yield dut.cmd.we)
            if ras and cas and not we: n["ref"] += 1
            if we and not ras and not cas: n["zqcs"] += 1
            yield
    run_simulation(dut, gen())
    # timeline commands are held for one cycle each
    print("%d cycles: %d REF cycles, %d ZQCS cycles; expected about %d ZQCS" % (cycles, n["ref"], n["zqcs"], cycles // period))
    if n["zqcs"] < (cycles // period) // 2:
        print("F7 REPRODUCED: configured ZQ calibration does not recur at its period"); return 1
    print("ok"); return 0
sys.exit(main())
