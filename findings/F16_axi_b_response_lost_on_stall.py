#!/usr/bin/env python3
# Reproduction: LiteDRAMAXI2Native loses write responses when the master is slow to accept B.
#
# Run: cd <tree root> && /venv/bin/python repro_b_stall.py          (exit 1 = misbehaviour seen)
#
# Traffic (legal AXI4): N = w_buffer_depth + 3 single-beat writes (AWID = 1..N, word i <- 0xB0000000+i,
# all strobes set), AW and W of each write presented together, one write after the other. The master
# keeps BREADY low for the first 150 cycles (AXI4 puts no limit on that and allows further writes to
# be issued while responses are pending), then holds BREADY high and collects the responses.
# Native side (legal): cmd.ready always high, wdata.ready high whenever a write command waits for data.
import os, sys
sys.path.insert(0, os.getcwd())

from migen import *
from litex.soc.interconnect.axi import BURST_INCR, RESP_OKAY
from litedram.common import LiteDRAMNativePort
from litedram.frontend.axi import LiteDRAMAXIPort, LiteDRAMAXI2Native

DEPTH   = 4
N       = DEPTH + 3
B_HOLD  = 150
NCYCLES = 400

axi  = LiteDRAMAXIPort(data_width=32, address_width=32, id_width=4)
port = LiteDRAMNativePort("both", 32, 32)
dut  = LiteDRAMAXI2Native(axi, port, w_buffer_depth=DEPTH, r_buffer_depth=4)

ids  = list(range(1, N + 1))
data = [0xB0000000 + i for i in range(N)]
mem  = {}
res  = dict(b=[], done=[])     # done: (cycle, burst index) when the burst's data word was taken by the memory

def gen():
    k       = 0        # write being presented
    aw_pend = w_pend = False
    wq      = []
    wd_rdy  = 0
    b_rdy   = 0
    yield port.cmd.ready.eq(1)
    for cycle in range(NCYCLES):
        # ---- sample cycle ----
        if aw_pend and (yield axi.aw.ready):
            aw_pend = False
            yield axi.aw.valid.eq(0)
        if w_pend and (yield axi.w.ready):
            w_pend = False
            yield axi.w.valid.eq(0)
        if (yield port.cmd.valid) and (yield port.cmd.we):      # cmd.ready is constantly 1
            wq.append((yield port.cmd.addr))
        if wd_rdy and (yield port.wdata.valid):
            a = wq.pop(0)
            mem[a] = (yield port.wdata.data)
            res["done"].append((cycle, len(res["done"])))
        if b_rdy and (yield axi.b.valid):
            res["b"].append((cycle, (yield axi.b.id), (yield axi.b.resp)))
        # ---- drive next cycle ----
        if not aw_pend and not w_pend and k < N:
            yield axi.aw.valid.eq(1)
            yield axi.aw.addr.eq(4*k)
            yield axi.aw.burst.eq(BURST_INCR)
            yield axi.aw.len.eq(0)
            yield axi.aw.size.eq(2)
            yield axi.aw.id.eq(ids[k])
            yield axi.w.valid.eq(1)
            yield axi.w.data.eq(data[k])
            yield axi.w.strb.eq(0xf)
            yield axi.w.last.eq(1)
            aw_pend = w_pend = True
            k += 1
        nrdy = int(len(wq) > 0)
        if nrdy != wd_rdy:
            wd_rdy = nrdy
            yield port.wdata.ready.eq(wd_rdy)
        nb = int(cycle + 1 >= B_HOLD)
        if nb != b_rdy:
            b_rdy = nb
            yield axi.b.ready.eq(b_rdy)
        yield

run_simulation(dut, [gen()])

got = [i for _, i, _ in res["b"]]
print(f"w_buffer_depth={DEPTH}: {N} single-beat writes with IDs {ids}, BREADY low until cycle {B_HOLD}")
print("data handed to the memory: " + ", ".join(f"write #{i} (ID {ids[i]}) at cycle {c}" for c, i in res["done"]))
print("B responses received     : " + (", ".join(f"ID {i} at cycle {c}" for c, i, _ in res["b"]) or "none"))

bad = []
if any(mem.get(i) != data[i] for i in range(N)):
    bad.append("memory contents wrong: " + str({i: mem.get(i) for i in range(N) if mem.get(i) != data[i]}))
if got != ids:
    lost = [i for i in ids if i not in got]
    dup  = sorted({i for i in got if got.count(i) > 1})
    if lost:
        when = {ids[i]: c for c, i in res["done"]}
        bad.append(f"{len(got)} write responses for {N} writes; the responses of the writes with ID "
                   + ", ".join(f"{i} (data handed to the memory at cycle {when.get(i, '?')})" for i in lost)
                   + f" are lost: BVALID never rises for them in the {NCYCLES - B_HOLD} cycles BREADY is held high, "
                     "although their data was written to the memory")
    if dup:
        bad.append(f"duplicated response IDs: {dup}")
    if not lost and not dup:
        bad.append(f"responses out of order: {got}")
if any(r != RESP_OKAY for _, _, r in res["b"]):
    bad.append("non-OKAY response")

if bad:
    print("MISBEHAVIOUR:")
    for b in bad:
        print("  -", b)
    print("Reason: in LiteDRAMAXI2NativeW, when the last data word of a burst is handed to the native port "
          "(`w_buffer.source.valid & last & ready`) the logic sets `resp_buffer.sink.valid` and pops the ID with "
          "`id_buffer.source.ready`, without looking at `resp_buffer.sink.ready`. `resp_buffer` is a SyncFIFO of "
          f"`buffer_depth` = {DEPTH} entries that only drains through `axi.b`; once {DEPTH} responses are waiting for BREADY "
          "every further completed write is dropped (its ID is popped from `id_buffer` and thrown away). Nothing "
          "back-pressures AW/W or the native write data on a full `resp_buffer`.")
    sys.exit(1)
print("OK: every write got exactly one response with its ID, in order")
sys.exit(0)
