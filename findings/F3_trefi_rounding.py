"""Triage repro for finding F3 (C16.3 / C04.6) - NOT part of any check; run by hand:
   cd /repo && /venv/bin/python /verif/findings/F3_trefi_rounding.py
Instantiates real library modules and compares the refresh interval handed to the controller with the datasheet."""
import sys
from litedram import modules as M
bad = 0
for cls, rate in ((M.MT48LC4M16, "1:1"), (M.MT41K128M16, "1:4"), (M.MT47H64M16, "1:2")):
    for f in (100e6, 83.3e6, 133e6, 75e6):
        m = cls(f, rate)
        ns = m.get("tREFI", "1x" if m.memtype == "DDR4" else None).ns
        got = m.timing_settings.tREFI * 1e9 / f
        flag = "LONGER than datasheet" if got > ns * (1 + 1e-12) else "ok"
        if got > ns * (1 + 1e-12): bad += 1
        print("%-12s %6.1f MHz: tREFI = %d cycles = %.2f ns, datasheet %.2f ns  %s" % (cls.__name__, f / 1e6, m.timing_settings.tREFI, got, ns, flag))
print("F3 REPRODUCED" if bad else "ok: refresh interval never exceeds the datasheet value")
sys.exit(1 if bad else 0)
