#!/usr/bin/env python3
# Reproduction (UNMODIFIED tree): a clock-count dominated tRRD is missed by one DRAM clock when the ACTIVATE slot
# of the WRITE state (wrphase-1) sits on a later phase than the ACTIVATE slot of the READ state (rdphase-1).
#
#   H5TQ4G63EFR, speedgrade 1866, controller clock 125 MHz, rate 1:2 (tCK = 4 ns), rdphase=1, wrphase=0.
#   Datasheet entry (modules.py, H5TQ4G63CFR.technology_timings): tRRD = (6 ck, 7.5 ns) -> max(6, 2) = 6 clocks.
#   Controller: ck_to_cycles(6) = ceil(6/2) = 3 cycles (no phase margin), ns_to_cycles(7.5 + 4 margin) = 2 -> tRRD = 3.
#
# Traffic: bank 0 is written (multiplexer ends up parked in WRITE), then banks 1 and 2 get a request in the same
# cycle (two ACTIVATEs, tRRD apart) and bank 0 gets a row-hit read `offset` cycles later, which turns the
# multiplexer WRITE -> WTR -> READ between the two ACTIVATEs: first ACT on phase 1, second one on phase 0.
#
# Run: cd <tree root> && /venv/bin/python repro_trrd_ck_phase.py      exit 1 = violated, 0 = not violated.

import os
import sys
import math

sys.path.insert(0, os.getcwd())

from migen import *

from litedram import modules as M
from litedram.common import PhySettings
from litedram.core.controller import LiteDRAMController, ControllerSettings

MODULE, SPEEDGRADE, CLK, RATE, CL, CWL, RDPHASE, WRPHASE = "H5TQ4G63EFR", "1866", 125e6, "1:2", 7, 6, 1, 0

def run(offset):
    nphases = int(RATE.split(":")[1])
    module  = getattr(M, MODULE)(CLK, RATE, speedgrade=SPEEDGRADE)
    phy = PhySettings(phytype="SIM", memtype=module.memtype, databits=16, dfi_databits=32, nphases=nphases,
        rdphase=RDPHASE, wrphase=WRPHASE, cl=CL, cwl=CWL,
        read_latency=math.ceil(CL/nphases) + 4, write_latency=math.ceil(CWL/nphases))
    dut = LiteDRAMController(phy, module.geom_settings, module.timing_settings, CLK, ControllerSettings())
    bank = [getattr(dut.interface, "bank%d" % n) for n in range(3)]
    cmds = []   # (T, cycle, phase, name, bank)

    def request(b, we, addr, at):
        for _ in range(at):
            yield
        yield b.addr.eq(addr)
        yield b.we.eq(we)
        yield b.valid.eq(1)
        yield
        while not (yield b.ready):     # value of the cycle that just ended
            yield
        yield b.valid.eq(0)

    def bank0():
        yield from request(bank[0], 1, 0, at=2)             # write row 0 -> multiplexer goes to WRITE and stays
        yield from request(bank[0], 0, 1, at=40 + offset)   # read row 0 (hit) -> WRITE -> WTR -> READ
        for _ in range(40):
            yield

    def bank12(n):
        yield from request(bank[n], 0, 0, at=45)            # needs an ACTIVATE

    @passive
    def monitor():
        names = {(0, 1, 1): "ACT", (0, 1, 0): "PRE", (0, 0, 1): "REF", (1, 0, 1): "RD", (1, 0, 0): "WR", (1, 1, 0): "ZQCS"}
        cyc = 0
        while True:
            for p, ph in enumerate(dut.dfi.phases):
                key = ((yield ph.ras_n), (yield ph.cas_n), (yield ph.we_n))
                if not (yield ph.cs_n) and key in names:
                    cmds.append((cyc*nphases + p, cyc, p, names[key], (yield ph.bank)))
            yield
            cyc += 1

    run_simulation(dut, [bank0(), bank12(1), bank12(2), monitor()])
    return module, nphases, cmds

def main():
    worst = None
    for offset in [4, 3, 5, 2, 1, 0]:   # 4 is the alignment that hits on this tree; the others are only a fallback
        module, nphases, cmds = run(offset)
        acts = [c for c in cmds if c[3] == "ACT"]
        for a, b in zip(acts, acts[1:]):
            if worst is None or b[0] - a[0] < worst[2][0] - worst[1][0]:
                worst = (offset, a, b, cmds)
        if worst[2][0] - worst[1][0] < 6:
            break
    offset, a, b, cmds = worst
    tck  = 1e9/(CLK*nphases)
    t    = module.get("tRRD")
    need = max(t.ck, math.ceil(t.ns/tck - 1e-6))
    print("%s sg=%s @%gMHz %s (tCK=%gns) rdphase=%d wrphase=%d -> ACT slots: READ state phase %d, WRITE state phase %d" % (
        MODULE, SPEEDGRADE, CLK/1e6, RATE, tck, RDPHASE, WRPHASE, (RDPHASE - 1) % nphases, (WRPHASE - 1) % nphases))
    print("DFI commands (read request to bank 0 sent %d cycle(s) after the requests to banks 1/2):" % offset)
    for T, cyc, p, name, bk in cmds:
        print("   T=%4d  cycle=%3d phase=%d  %-4s bank=%d" % (T, cyc, p, name, bk))
    print("closest ACTIVATE pair: bank %d @cycle %d phase %d (T=%d)  ->  bank %d @cycle %d phase %d (T=%d)" % (
        a[4], a[1], a[2], a[0], b[4], b[1], b[2], b[0]))
    print("distance = %d DRAM clocks; required tRRD = max(%d ck, ceil(%g ns / %g ns) = %d) = %d clocks "
          "[modules.py: %s technology_timings tRRD=(%d, %g)]" % (
        b[0] - a[0], t.ck, t.ns, tck, math.ceil(t.ns/tck - 1e-6), need, MODULE, t.ck, t.ns))
    print("controller value: timing_settings.tRRD = %d cycles = max(ck_to_cycles(%d)=%d, ns_to_cycles(%g+margin)=%d); "
          "%d cycles * %d phases - phase offset %d = %d" % (module.timing_settings.tRRD, t.ck, module.ck_to_cycles(t.ck),
        t.ns, module.ns_to_cycles(t.ns), module.timing_settings.tRRD, nphases, a[2] - b[2], b[0] - a[0]))
    violated = (b[0] - a[0]) < need
    print("tRRD %s" % ("VIOLATED" if violated else "respected"))
    print("""
Same mechanism elsewhere (ck_to_cycles() = ceil(ck/nphases) has no margin; the ns branch gets (1-1/nphases) cycle):
- Exposed: tRRD only. ACTs use two different slots (rdphase-1 in READ, wrphase-1 in WRITE) and WRITE->WTR->READ takes just 2
  cycles, so whenever ck dominates and cycles*nphases - ck < phase offset the spacing is short: every DDR3 entry with tRRD=4ck at
  1:2 and tCK >= ~3.3 ns, K4T1G164QGBCE7 (DDR2), H5TQ4G63 (6 ck) at 1:2 and 1:4, DDR4 (4 ck) at 1:4 at very slow clocks.
- tFAW uses the same two slots and has ck dominated entries (H5TQ4G63, DDR4), but is NOT hit: tFAWController re-opens tFAW+2
  cycles after the first ACT (registered count of a window that holds an ACT for tFAW cycles), see repro_tfaw_ck_phase.py.
- Not exposed: tCCD (RD->RD and WR->WR always reuse the same phase; RD->WR passes RTW, WR->RD passes tWTR), tWTR (wrphase->rdphase
  offset <= nphases-1 clocks but the WTR->READ transition always adds one full cycle = nphases clocks), tZQCS/tRFC (REF/ZQCS sit
  on phase 0, followers on phase >= 0, plus >= 1 spare cycle), tRP/tRCD/tRAS/tWR/tRC (library values are ns, so they get the margin).
- tRTP is a different problem: it is in no module table and has no timer at all (RD->PRE is only structurally >= 2 cycles).""")
    sys.exit(1 if violated else 0)

if __name__ == "__main__":
    main()
