"""Triage repro for finding F6 (C17.4) - NOT part of any check; run by hand:
   cd /repo && /venv/bin/python /verif/findings/F6_init_write_recovery.py
Calls the real init-sequence generators with timing settings computed by real library modules and decodes MR0.WR."""
import sys, os, math
sys.path.insert(0, os.getcwd())
from litedram import modules as M
from litedram.common import PhySettings, get_default_cl_cwl
from litedram.init import get_ddr3_phy_init_sequence, get_ddr4_phy_init_sequence

DDR3_WR = {0: 16, 1: 5, 2: 6, 3: 7, 4: 8, 5: 10, 6: 12, 7: 14}
DDR4_WR = {0: 10, 1: 12, 2: 14, 3: 16, 4: 18, 5: 20, 6: 24, 7: 22, 8: 26, 9: 28}
rc = 0
for memtype, cls, sg, sys_mhz in (("DDR3", M.MT41K128M16, "1600", 200), ("DDR3", M.H5TQ4G63CFR, "1866", 233.0),
                                  ("DDR4", M.MT40A1G8, "2400", 300), ("DDR4", M.MT40A512M16, "2400", 300)):
    try:
        mod = cls(sys_mhz * 1e6, "1:4", speedgrade=sg)
    except Exception as e:
        print(cls.__name__, sg, "skipped:", type(e).__name__, e); continue
    tck = 1 / (4 * sys_mhz * 1e6 / 2) / 1  # DRAM clock period: 4 phases, DDR => tCK = 1/(4*sys)
    tck = 1e9 / (4 * sys_mhz * 1e6)
    cl, cwl = get_default_cl_cwl(memtype, tck * 1e-9)
    phy = PhySettings(phytype="X", memtype=memtype, databits=16, dfi_databits=32, nphases=4, rdphase=0, wrphase=0, cl=cl, cwl=cwl, read_latency=4, write_latency=2)
    ts = mod.timing_settings
    seq, _ = (get_ddr3_phy_init_sequence if memtype == "DDR3" else get_ddr4_phy_init_sequence)(phy, ts)
    mr0 = [a for (c, a, ba, cmd, d) in seq if ba == 0 and "MODE" in c.upper() or (ba == 0 and c.startswith("Load Mode Register 0"))][0]
    code = ((mr0 >> 9) & 7) | (((mr0 >> 13) & 1) << 3 if memtype == "DDR4" else 0)
    wr = (DDR3_WR if memtype == "DDR3" else DDR4_WR)[code]
    twr_ns = mod.get("tWR").ns
    need = math.ceil(twr_ns / tck - 1e-9)
    ok = wr >= need
    print("%s %-12s -%s sys=%.2f MHz tCK=%.3f ns: MR0.WR = %d clocks, datasheet tWR = %.1f ns = %d clocks -> %s" % (memtype, cls.__name__, sg, sys_mhz, tck, wr, twr_ns, need, "ok" if ok else "TOO SHORT"))
    rc |= (not ok)
print("F6 REPRODUCED: programmed write recovery does not cover the datasheet tWR" if rc else "ok")
sys.exit(rc)
