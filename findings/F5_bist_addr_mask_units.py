"""Triage repro for finding F5 (C14.4) - NOT part of any check; run by hand:
   cd /repo && /venv/bin/python /verif/findings/F5_bist_addr_mask_units.py
Runs the real _LiteDRAMBISTGenerator (32-bit native port) with base=0x40, end=0x60 (8 words) and a random address
sequence of 8 words; every write must land inside [base, end)."""
import sys, os
sys.path.insert(0, os.getcwd())
from migen import *
from litedram.common import LiteDRAMNativeWritePort
from litedram.frontend.bist import _LiteDRAMBISTGenerator
from test.common import DRAMMemory
from test.test_bist import GenCheckDriver

class DUT(Module):
    def __init__(self):
        self.write_port = LiteDRAMNativeWritePort(address_width=32, data_width=32)
        self.submodules.generator = _LiteDRAMBISTGenerator(self.write_port)
        self.mem = DRAMMemory(32, 64)
rc = 0
for random_addr in (0, 1):
    dut = DUT()
    base, end, length = 0x40, 0x60, 0x40       # 8-word window, 16-word run (the sequence has to wrap inside the window)
    def main(driver):
        yield from driver.reset()
        yield from driver.configure(base=base, end=end, length=length, random_addr=random_addr, random_data=0)
        yield from driver.run()
        yield
    run_simulation(dut, [main(GenCheckDriver(dut.generator)), dut.mem.write_handler(dut.write_port)])
    mem = dut.mem.mem
    # data words are the counter 0..15 (0 is indistinguishable from untouched memory)
    outside = [hex(4 * i) for i, v in enumerate(mem) if v != 0 and not (base <= 4 * i < end)]
    print("random_addr=%d: words written outside [0x%x, 0x%x): %s" % (random_addr, base, end, outside))
    rc |= bool(outside)
print("F5 REPRODUCED: the byte-unit mask (end-base)-1 is applied to a word index, the sequence leaves the range" if rc else "ok")
sys.exit(rc)
