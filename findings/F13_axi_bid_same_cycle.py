# Triage repro for finding F13 (C09) - written by an independent triage agent on the unmodified tree; NOT part of any check. Run: cd /repo && /venv/bin/python /verif/findings/F13_axi_bid_same_cycle.py
import sys, os; sys.path.insert(0, os.getcwd())
# Claim (c): LiteDRAMAXI2NativeW (no RMW): when the native write command and its write data are
# accepted in the SAME cycle for a single-beat write, resp_buffer is pushed in the very cycle
# id_buffer is being pushed, so B carries a stale/garbage BID.
# Stimulus: consecutive single-beat writes with different IDs, native model with cmd.ready and
# wdata.ready permanently high.
#
# exit 1 -> defect manifests, exit 0 -> behaviour correct.

from migen import *
from litedram.common import LiteDRAMNativePort
from litedram.frontend.axi import LiteDRAMAXIPort, LiteDRAMAXI2Native
from litex.soc.interconnect.axi import BURST_INCR

DEPTH = 256


def init_word(i):
    # every byte lane depends on the address so that wrong-address merges are visible
    return ((i ^ 0xA5) << 24) | ((i ^ 0x3C) << 16) | ((i ^ 0xFF) << 8) | i


class NativeMem:
    """Simple in-order native port memory model + monitor."""
    def __init__(self, port, cmd_ready=lambda c: 1, wdata_ready=lambda c: 1, rlat=2):
        self.port, self.cmd_ready, self.wdata_ready, self.rlat = port, cmd_ready, wdata_ready, rlat
        self.mem  = [init_word(i) for i in range(DEPTH)]
        self.cmds = []   # (cycle, "W"/"R", addr)
        self.wr   = []   # (cycle, addr, data, we)
        self.errors = []

    @passive
    def gen(self):
        p = self.port
        cyc, wq, rq = 0, [], []
        while True:
            if (yield p.cmd.valid) and (yield p.cmd.ready):
                we, addr = (yield p.cmd.we), (yield p.cmd.addr)
                self.cmds.append((cyc, "W" if we else "R", addr))
                (wq if we else rq).append(addr if we else [self.rlat, addr])
            if (yield p.wdata.valid) and (yield p.wdata.ready):
                data, we = (yield p.wdata.data), (yield p.wdata.we)
                if not wq:
                    self.errors.append("cycle %d: wdata without write command" % cyc)
                else:
                    addr = wq.pop(0)
                    mask = sum(0xff << (8*i) for i in range(4) if (we >> i) & 1)
                    self.mem[addr % DEPTH] = (self.mem[addr % DEPTH] & ~mask) | (data & mask)
                    self.wr.append((cyc, addr, data, we))
            if (yield p.rdata.valid) and (yield p.rdata.ready):
                rq.pop(0)
            for e in rq:
                e[0] = max(0, e[0] - 1)
            if rq and rq[0][0] == 0:
                yield p.rdata.valid.eq(1)
                yield p.rdata.data.eq(self.mem[rq[0][1] % DEPTH])
            else:
                yield p.rdata.valid.eq(0)
            yield p.cmd.ready.eq(self.cmd_ready(cyc + 1))
            yield p.wdata.ready.eq(self.wdata_ready(cyc + 1))
            yield
            cyc += 1


WRITES = [  # (word addr, data, id)
    (0x10, 0xDEAD0001, 0x11),
    (0x20, 0xDEAD0002, 0x22),
    (0x30, 0xDEAD0003, 0x33),
    (0x40, 0xDEAD0004, 0x44),
]
SPACING = 12  # cycles between consecutive writes (AW and W of a write presented in the same cycle)


def run(same_cycle, w_lead=0, spacing=SPACING, ncycles=120):
    axi  = LiteDRAMAXIPort(data_width=32, address_width=32, id_width=8)
    port = LiteDRAMNativePort("both", 32, 32)
    dut  = LiteDRAMAXI2Native(axi, port, with_read_modify_write=False)
    mem  = NativeMem(port)
    if not same_cycle:
        # Control: wdata.ready only >= 2 cycles after the write command was accepted.
        mem.wdata_ready = lambda c: int(
            len([x for x in mem.cmds if x[1] == "W" and x[0] <= c - 2]) > len(mem.wr))
    ev = {"aw_hs": [], "w_hs": [], "b": []}

    def aw_gen():
        c = 0
        for n, (addr, data, wid) in enumerate(WRITES):
            while c < 5 + w_lead + n*spacing:
                yield
                c += 1
            yield axi.aw.valid.eq(1)
            yield axi.aw.addr.eq(addr << 2)
            yield axi.aw.burst.eq(BURST_INCR)
            yield axi.aw.len.eq(0)
            yield axi.aw.size.eq(2)
            yield axi.aw.id.eq(wid)
            yield
            c += 1
            while not (yield axi.aw.ready):
                yield
                c += 1
            ev["aw_hs"].append(c)
            yield axi.aw.valid.eq(0)

    def w_gen():
        c = 0
        for n, (addr, data, wid) in enumerate(WRITES):
            while c < 5 + n*spacing:
                yield
                c += 1
            yield axi.w.valid.eq(1)
            yield axi.w.data.eq(data)
            yield axi.w.strb.eq(0xf)
            yield axi.w.last.eq(1)
            yield
            c += 1
            while not (yield axi.w.ready):
                yield
                c += 1
            ev["w_hs"].append(c)
            yield axi.w.valid.eq(0)

    def b_mon():
        yield axi.b.ready.eq(1)
        for c in range(ncycles):
            if (yield axi.b.valid) and (yield axi.b.ready):
                ev["b"].append((c, (yield axi.b.id)))
            yield

    run_simulation(dut, [aw_gen(), w_gen(), b_mon(), mem.gen()])
    return mem, ev


def report(name, same_cycle, **kw):
    mem, ev = run(same_cycle, **kw)
    print("== %s" % name)
    print("   AXI AW handshake cycles:", ev["aw_hs"], " AXI W handshake cycles:", ev["w_hs"])
    print("   native cmds (cycle, type, word addr):", [(c, t, hex(a)) for c, t, a in mem.cmds])
    print("   native writes (cycle, word addr, data, we):", [(c, hex(a), hex(d), bin(w)) for c, a, d, w in mem.wr])
    print("   B responses (cycle, id):", [(c, hex(i)) for c, i in ev["b"]])
    print("   expected BIDs          :", [hex(w[2]) for w in WRITES])
    print("   model errors:", mem.errors)
    bad = []
    wcmds = [c for c, t, a in mem.cmds if t == "W"]
    same  = [c for c, w in zip(wcmds, mem.wr) if w[0] == c]  # n-th cmd vs n-th data
    print("   write cmds whose data was accepted in the same cycle:", same)
    if [i for _, i in ev["b"]] != [w[2] for w in WRITES]:
        bad.append("BID sequence %s != expected %s" % ([hex(i) for _, i in ev["b"]], [hex(w[2]) for w in WRITES]))
    for addr, data, wid in WRITES:
        if mem.mem[addr] != data:
            bad.append("mem[%#x]=%#x expected %#x" % (addr, mem.mem[addr], data))
    return bad, same


if __name__ == "__main__":
    ctrl, ctrl_same = report("control: W presented 1 cycle before AW, cmd.ready=1, wdata.ready >= 2 cycles after cmd",
                             same_cycle=False, w_lead=1)
    info, info_same = report("info: AW and W presented in the same cycle, cmd.ready=1 and wdata.ready=1 permanently",
                             same_cycle=True, w_lead=0)
    test, test_same = report("test: W presented 1 cycle before AW, cmd.ready=1 and wdata.ready=1 permanently",
                             same_cycle=True, w_lead=1)
    print()
    if ctrl:
        print("UNEXPECTED: control scenario failed:", ctrl)
        sys.exit(2)
    if not info_same:
        print("NOTE: with AW and W presented simultaneously the native cmd is accepted one cycle before its data "
              "(w_buffer is a buffered FIFO), so the same-cycle case is not hit; result:", info or "correct BIDs")
    if not test_same:
        print("INCONCLUSIVE: cmd and wdata never accepted in the same cycle")
        sys.exit(2)
    if test:
        print("DEFECT CONFIRMED (claim c): B response pushed while id_buffer is being pushed -> wrong BID:")
        for b in test:
            print("  -", b)
        sys.exit(1)
    print("claim (c) not reproducible: BIDs correct with same-cycle cmd/wdata acceptance")
    sys.exit(0)
