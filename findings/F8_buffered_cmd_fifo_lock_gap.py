#!/usr/bin/env python3
#
# Triage repro for finding F8 (C01.4): the whole-core ordering demo written by an independent sub-agent (seeded/C01_2/demo.py), with cmd_buffer_buffered=True on the UNMODIFIED tree. NOT part of any check.
#
# Run from the root of a litedram checkout:
#     /venv/bin/python /tmp/seed/out/C01_2/demo.py
#
# Two native ports drive a short directed sequence through the real LiteDRAMCrossbar,
# LiteDRAMController (BankMachines, Multiplexer, Refresher) and the DFI-level SDRAMPHYModel.
# Every returned read word is compared with a byte-accurate reference memory that is updated in
# command-acceptance order; read data is matched to read commands in command order per port.
#
# Scenario (SDR 1:1, 4 banks, cmd_buffer_depth=8, not buffered):
#   port 0:
#     1. write bank1/row5/col3, write bank0/row1/col0   (both rows stay open, port 0 is the last
#        user of both banks)
#     2. two reads in consecutive cycles:  bank0/row2 (row miss: precharge + activate needed)
#        immediately followed by bank1/row5 (row hit)
#        -> the data must come back in command order
#     3. two writes in consecutive cycles: bank0/row3 (row miss) immediately followed by
#        bank1/row5/col4 (row hit), each with its own data
#     4. read everything back
#   port 1: independent traffic on bank 3 only.
#
# Exit status 0 = all reads returned the last written bytes in command order, 1 = violation.

import os
import sys

sys.path.insert(0, os.getcwd())

from migen import *

from litedram.common import *
from litedram.core.controller import ControllerSettings, LiteDRAMController
from litedram.core.crossbar import LiteDRAMCrossbar
from litedram.phy.model import SDRAMPHYModel
from litedram.modules import SDRModule, _TechnologyTimings, _SpeedgradeTimings


# Small SDR module (small geometry keeps the simulation memories small and fast) -------------------

class TinySDR(SDRModule):
    nbanks = 4
    nrows  = 32
    ncols  = 256
    technology_timings = _TechnologyTimings(tREFI=64e6/8192, tWTR=(2, None), tCCD=(1, None), tRRD=(None, 15))
    speedgrade_timings = {"default": _SpeedgradeTimings(tRP=20, tRCD=20, tWR=15, tRFC=(None, 66), tFAW=None, tRAS=44)}


class DUT(Module):
    """crossbar + controller + PHY model (LiteDRAMCore without the CSR-driven DFI injector)."""
    def __init__(self, nports=1, clk_freq=100e6, **controller_settings):
        module = TinySDR(clk_freq, "1:1")
        # keep A10 (auto-precharge / precharge-all flag) on the DFI address bus
        module.geom_settings.addressbits = 13
        self.submodules.phy = phy = SDRAMPHYModel(module, data_width=16, clk_freq=clk_freq)
        self.submodules.controller = controller = LiteDRAMController(
            phy_settings        = phy.settings,
            geom_settings       = module.geom_settings,
            timing_settings     = module.timing_settings,
            clk_freq            = clk_freq,
            controller_settings = ControllerSettings(**controller_settings))
        self.comb += controller.dfi.connect(phy.dfi)
        self.submodules.crossbar = LiteDRAMCrossbar(controller.interface)
        self.ports = [self.crossbar.get_port() for _ in range(nports)]
        self.geom = module.geom_settings
        self.address_align = controller.interface.address_align

    def addr(self, bank, row, col):
        cb = self.geom.colbits - self.address_align
        bb = self.geom.bankbits
        return (row << (cb + bb)) | (bank << cb) | col


# Reference model / drivers ------------------------------------------------------------------------

class Checker:
    def __init__(self, dut):
        self.dut      = dut
        self.mem      = {}
        self.nbytes   = dut.ports[0].data_width//8
        self.errors   = []
        self.expected = [[] for _ in dut.ports]
        self.cycle    = 0

    def ref_write(self, addr, data, we):
        word = self.mem.get(addr, 0)
        for b in range(self.nbytes):
            if (we >> b) & 1:
                word = (word & ~(0xff << (8*b))) | (data & (0xff << (8*b)))
        self.mem[addr] = word

    def ref_read(self, addr):
        return self.mem.get(addr, 0)

    @passive
    def clock(self):
        while True:
            yield
            self.cycle += 1

    @passive
    def rdata_monitor(self, n):
        port = self.dut.ports[n]
        yield port.rdata.ready.eq(1)
        while True:
            if (yield port.rdata.valid):
                data = (yield port.rdata.data)
                if not self.expected[n]:
                    self.errors.append("port %d: unexpected read data 0x%x at cycle %d" % (n, data, self.cycle))
                else:
                    addr, exp, t, what = self.expected[n].pop(0)
                    if data != exp:
                        self.errors.append(
                            "port %d: read of %s (addr 0x%x, accepted at cycle %d) returned 0x%04x, "
                            "last written value is 0x%04x" % (n, what, addr, t, data, exp))
            yield


class Master:
    """Holds each command until accepted, offers write data together with the command and holds it
    until taken, always accepts read data."""
    def __init__(self, dut, checker, n, ops):
        self.dut, self.chk, self.n, self.ops = dut, checker, n, ops
        self.port = dut.ports[n]
        self.wq   = []

    def cmd_gen(self):
        port = self.port
        for kind, (bank, row, col), data, we, gap in self.ops:
            addr = self.dut.addr(bank, row, col)
            for _ in range(gap):
                yield
            yield port.cmd.valid.eq(1)
            yield port.cmd.we.eq(1 if kind == "w" else 0)
            yield port.cmd.addr.eq(addr)
            if kind == "w":
                self.wq.append((data, we))
            yield
            while not (yield port.cmd.ready):
                yield
            if kind == "w":
                self.chk.ref_write(addr, data, we)
            else:
                what = "bank%d/row%d/col%d" % (bank, row, col)
                self.chk.expected[self.n].append((addr, self.chk.ref_read(addr), self.chk.cycle, what))
            yield port.cmd.valid.eq(0)
        while self.wq or self.chk.expected[self.n]:
            yield
        for _ in range(20):
            yield

    @passive
    def wdata_gen(self):
        port = self.port
        while True:
            if self.wq:
                data, we = self.wq[0]
                yield port.wdata.valid.eq(1)
                yield port.wdata.data.eq(data)
                yield port.wdata.we.eq(we)
                yield
                while not (yield port.wdata.ready):
                    yield
                self.wq.pop(0)
                if not self.wq:
                    yield port.wdata.valid.eq(0)
            else:
                yield port.wdata.valid.eq(0)
                yield


def simulate(dut, ops_per_port, timeout):
    chk  = Checker(dut)
    gens = [chk.clock()]
    for n, ops in enumerate(ops_per_port):
        m = Master(dut, chk, n, ops)
        gens += [m.cmd_gen(), m.wdata_gen(), chk.rdata_monitor(n)]

    @passive
    def watchdog():
        for _ in range(timeout):
            yield
        chk.errors.append("timeout after %d cycles, outstanding reads per port: %s" % (
            timeout, [len(e) for e in chk.expected]))
        raise TimeoutError

    gens.append(watchdog())
    try:
        run_simulation(dut, gens)
    except TimeoutError:
        pass
    return chk


def main():
    dut = DUT(nports=2, cmd_buffer_depth=8, cmd_buffer_buffered=True, with_auto_precharge=True)
    W, R = "w", "r"
    ops0 = [
        # kind, (bank, row, col), data, we, idle cycles before the command
        (W, (1, 5, 3), 0xbeef, 0b11,  0),
        (W, (0, 1, 0), 0x1111, 0b11, 20),
        (W, (0, 2, 0), 0x2222, 0b11, 20),
        (W, (0, 1, 0), 0x1111, 0b11, 20),   # leave bank 0 open on row 1
        # back-to-back reads: slow bank first, fast bank second
        (R, (0, 2, 0), None,   0,    30),
        (R, (1, 5, 3), None,   0,     0),
        # back-to-back writes: slow bank first, fast bank second
        (W, (0, 3, 0), 0x3333, 0b11, 30),
        (W, (1, 5, 4), 0x4444, 0b11,  0),
        # read back
        (R, (0, 3, 0), None,   0,    30),
        (R, (1, 5, 4), None,   0,    10),
        (R, (1, 5, 3), None,   0,    10),
        (R, (0, 2, 0), None,   0,    10),
        (R, (0, 1, 0), None,   0,    10),
    ]
    ops1 = [
        (W, (3, 7, 1), 0xaaaa, 0b11,  5),
        (W, (3, 7, 2), 0x5555, 0b01, 40),
        (R, (3, 7, 1), None,   0,    40),
        (R, (3, 7, 2), None,   0,    40),
    ]
    chk = simulate(dut, [ops0, ops1], timeout=900)
    if chk.errors:
        print("C01 VIOLATED: read data / write data of one port not handled in command order")
        for e in chk.errors:
            print("  " + e)
        print("  (port 0 issued a command to bank 0 that needs a row change and, in the very next"
              " cycle, a row-hit command to bank 1;\n   the bank 1 command must not overtake the"
              " bank 0 command)")
        return 1
    nreads = sum(1 for o in ops0 + ops1 if o[0] == R)
    print("OK: all %d reads returned the last written data in command order (%d cycles)" % (
        nreads, chk.cycle))
    return 0


if __name__ == "__main__":
    sys.exit(main())
