import os
import sys
import random

sys.path.insert(0, os.getcwd())

from migen import *

from litedram.common import LiteDRAMNativeWritePort, LiteDRAMNativeReadPort
from litedram.frontend.fifo import LiteDRAMFIFO


class DUT(Module):
    def __init__(self, data_width, ratio, depth_words):
        port_data_width = data_width*ratio
        self.write_port = LiteDRAMNativeWritePort(address_width=32, data_width=port_data_width)
        self.read_port  = LiteDRAMNativeReadPort(address_width=32,  data_width=port_data_width)
        self.submodules.fifo = LiteDRAMFIFO(
            data_width  = data_width,
            base        = 0,
            depth       = depth_words*port_data_width//8,
            write_port  = self.write_port,
            read_port   = self.read_port,
            with_bypass = True,
        )
        self.done = False


@passive
def memory_model(dut, read_latency):
    """In-order DRAM: commands are always accepted, a read returns the data of the latest write to
    the same address whose command was accepted before the read command."""
    wp, rp   = dut.write_port, dut.read_port
    writes   = {}  # addr -> [[cmd_cycle, data], ...]
    wpending = []
    inflight = []
    cycle    = 0
    while True:
        yield wp.cmd.ready.eq(1)
        yield wp.wdata.ready.eq(len(wpending) > 0)
        yield rp.cmd.ready.eq(1)
        rvalid = 0
        if inflight and inflight[0][0] <= cycle:
            _, cmd_cycle, addr = inflight[0]
            older = [w for w in writes.get(addr, [])[-4:] if w[0] < cmd_cycle]
            if not older:
                inflight.pop(0)
                rvalid = 1
                yield rp.rdata.data.eq(0)
            elif older[-1][1] is not None:
                inflight.pop(0)
                rvalid = 1
                yield rp.rdata.data.eq(older[-1][1])
        yield rp.rdata.valid.eq(rvalid)
        yield
        if (yield wp.cmd.valid) and (yield wp.cmd.ready):
            entry = [cycle, None]
            writes.setdefault((yield wp.cmd.addr), []).append(entry)
            wpending.append(entry)
        if (yield wp.wdata.valid) and (yield wp.wdata.ready):
            wpending.pop(0)[1] = (yield wp.wdata.data)
        if (yield rp.cmd.valid) and (yield rp.cmd.ready):
            inflight.append((cycle + read_latency, cycle, (yield rp.cmd.addr)))
        cycle += 1


def producer(dut, data, valid_fn, max_cycles):
    sink  = dut.fifo.sink
    cycle = 0
    i     = 0
    while i < len(data) and cycle < max_cycles and not dut.done:
        valid = valid_fn(cycle)
        yield sink.valid.eq(valid)
        yield sink.data.eq(data[i])
        yield
        if valid and (yield sink.ready):
            i += 1
        cycle += 1
    yield sink.valid.eq(0)


def consumer(dut, n, ready_fn, out, max_cycles):
    source = dut.fifo.source
    cycle  = 0
    idle   = 0
    while len(out) < n and cycle < max_cycles and idle < 500:
        ready = ready_fn(cycle)
        yield source.ready.eq(ready)
        yield
        idle += 1
        if ready and (yield source.valid):
            out.append((yield source.data))
            idle = 0
        cycle += 1
    dut.done = True


def run(data_width, ratio, depth_words, n, valid_fn, ready_fn, read_latency, max_cycles):
    dut  = DUT(data_width, ratio, depth_words)
    data = [(0x100 + i) % 2**data_width for i in range(n)]
    out  = []
    run_simulation(dut, [
        producer(dut, data, valid_fn, max_cycles),
        consumer(dut, n, ready_fn, out, max_cycles),
        memory_model(dut, read_latency),
    ])
    return data, out


def check(name, data, out):
    if out == data:
        print("  ok   %s: %d words in, same %d words out" % (name, len(data), len(out)))
        return True
    for i, (a, b) in enumerate(zip(data, out)):
        if a != b:
            print("  FAIL %s: output word #%d is 0x%x, expected 0x%x (got %d of %d words)" % (
                name, i, b, a, len(out), len(data)))
            return False
    print("  FAIL %s: only %d of %d words came out" % (name, len(out), len(data)))
    return False


def random_table(seed, p):
    prng  = random.Random(seed)
    table = [int(prng.random() < p) for _ in range(4096)]
    return lambda c: table[c % 4096]


def main():
    """F14 (triage, not part of any check): LiteDRAMFIFO with_bypass=True and a data-width ratio > 1 loses / garbles data when the producer
    resumes while the last DRAM word drains and the FSM runs through PUMP_PRECONVERTER / DRAIN_POSTCONVERTER (real code, unmodified tree)."""
    bad = 0
    burst = 24
    for resume in range(40, 60):
        valid_fn = lambda c: int(c < burst or c >= resume)
        ready_fn = lambda c: int(c >= 40)
        data, out = run(data_width=8, ratio=4, depth_words=8, n=burst + 20, valid_fn=valid_fn, ready_fn=ready_fn, read_latency=4, max_cycles=600)
        if not check("producer resumes at cycle %d" % resume, data, out):
            bad += 1
    print("F14: %d of 20 resume offsets corrupt the stream on this tree" % bad)
    sys.exit(1 if bad else 0)


if __name__ == "__main__":
    main()
