"""Triage repro for finding F2 (C15.3) - NOT part of any check; run by hand:
   cd /repo && /venv/bin/python /verif/findings/F2_ecc_we_error.py
Drives the real LiteDRAMNativePortECCW: a write with ALL byte enables set must not raise we_error, a partial one must."""
import sys, os
sys.path.insert(0, os.getcwd())
from migen import *
from litedram.frontend.ecc import LiteDRAMNativePortECCW
rc = 0
for (wf, wt, bc) in ((64, 104, 8), (128, 176, 8), (256, 312, 8), (64, 72, 1)):
    dut = LiteDRAMNativePortECCW(wf, wt, bc)
    res = {}
    def gen():
        yield dut.sink.valid.eq(1)
        yield dut.sink.we.eq(2**(wf // 8) - 1)
        yield
        res["full"] = (yield dut.we_error)
        yield dut.sink.we.eq(2**(wf // 8) - 2)
        yield
        res["partial"] = (yield dut.we_error)
    run_simulation(dut, gen())
    ok = res["full"] == 0 and res["partial"] == 1
    print("from=%d to=%d lanes=%d: we_error(full write)=%d we_error(partial write)=%d %s" % (wf, wt, bc, res["full"], res["partial"], "ok" if ok else "WRONG"))
    rc |= (not ok)
print("F2 REPRODUCED: full writes are reported as granularity errors" if rc else "ok")
sys.exit(rc)
