#!/usr/bin/env python3
# Reproduction: LiteDRAMAXI2Native with w_buffer_depth = 2**k - 1 (here 3) loses track of its write
# buffer reservation when the native port is slow to take write data.
#
# Run: cd <tree root> && /venv/bin/python repro_depth_pow2m1.py     (exit 1 = misbehaviour seen)
#
# Traffic (legal AXI4): ONE write burst  AWID=5, INCR, 12 beats of 4 bytes, address 0x00, all strobes
# set, AW and W presented back to back, BREADY always high.
# Native side (legal): cmd.ready always high; wdata.ready stays low for the first 40 cycles (a busy
# controller), afterwards it is high whenever a write command is waiting for its data.
import os, sys
sys.path.insert(0, os.getcwd())

from migen import *
from litex.soc.interconnect.axi import BURST_INCR
from litedram.common import LiteDRAMNativePort
from litedram.frontend.axi import LiteDRAMAXIPort, LiteDRAMAXI2Native

DEPTH   = 3            # legal constructor parameter, 2**2 - 1
NBEATS  = 12
ID      = 5
WD_HOLD = 40           # cycles during which the controller does not take write data
NCYCLES = 400

axi  = LiteDRAMAXIPort(data_width=32, address_width=32, id_width=4)
port = LiteDRAMNativePort("both", 32, 32)
dut  = LiteDRAMAXI2Native(axi, port, w_buffer_depth=DEPTH, r_buffer_depth=4)

data = [0xD0000000 + i for i in range(NBEATS)]
mem  = {}
log  = []
res  = dict(b=[], cmds=[], wdata=[], max_outstanding=0, first_bad=None, cmd_before_data=None)

def gen():
    aw_done = False
    w_idx   = 0        # next W beat to present
    w_acc   = 0        # W beats accepted by the bridge
    wq      = []       # native write commands waiting for data
    wd_rdy  = 0
    yield axi.b.ready.eq(1)
    yield port.cmd.ready.eq(1)
    yield axi.aw.valid.eq(1)
    yield axi.aw.addr.eq(0)
    yield axi.aw.burst.eq(BURST_INCR)
    yield axi.aw.len.eq(NBEATS - 1)
    yield axi.aw.size.eq(2)
    yield axi.aw.id.eq(ID)
    yield axi.w.valid.eq(1)
    yield axi.w.data.eq(data[0])
    yield axi.w.strb.eq(0xf)
    yield axi.w.last.eq(int(NBEATS == 1))
    yield
    for cycle in range(1, NCYCLES):
        # ---- sample cycle ----
        if not aw_done and (yield axi.aw.ready):
            aw_done = True
            yield axi.aw.valid.eq(0)
        w_hs = w_idx < NBEATS and (yield axi.w.ready)
        if (yield port.cmd.valid):                      # cmd.ready is constantly 1
            we, addr = (yield port.cmd.we), (yield port.cmd.addr)
            if we:
                n = len(res["cmds"])
                res["cmds"].append((cycle, addr))
                wq.append(addr)
                # beat n's command: has beat n been given to the bridge yet?
                if n >= w_acc + int(bool(w_hs)) and res["cmd_before_data"] is None:
                    res["cmd_before_data"] = (cycle, n, addr, w_acc)
        if wd_rdy and (yield port.wdata.valid):
            a = wq.pop(0)
            d = (yield port.wdata.data)
            mem[a] = d
            res["wdata"].append((cycle, a, d))
        out = len(res["cmds"]) - len(res["wdata"])
        if out > res["max_outstanding"]:
            res["max_outstanding"] = out
            if out == DEPTH + 1 and res["first_bad"] is None:
                res["first_bad"] = (cycle, (yield dut.write.w_buffer.level))
        if (yield axi.b.valid):
            res["b"].append((cycle, (yield axi.b.id), (yield axi.b.resp)))
        if w_hs:
            w_acc += 1
            w_idx += 1
            if w_idx < NBEATS:
                yield axi.w.data.eq(data[w_idx])
                yield axi.w.last.eq(int(w_idx == NBEATS - 1))
            else:
                yield axi.w.valid.eq(0)
        # ---- drive next cycle ----
        nrdy = int(cycle >= WD_HOLD and len(wq) > 0)
        if nrdy != wd_rdy:
            wd_rdy = nrdy
            yield port.wdata.ready.eq(wd_rdy)
        yield
    res["wq"] = list(wq)

run_simulation(dut, [gen()])

bad = []
print(f"w_buffer_depth={DEPTH}: one write burst ID={ID}, INCR, {NBEATS} beats, words 0..{NBEATS-1}")
print(f"native write commands accepted: {len(res['cmds'])}, native write data words taken: {len(res['wdata'])}, "
      f"max commands outstanding without data: {res['max_outstanding']} (write buffer holds at most {DEPTH + 1} words)")
if res["max_outstanding"] > DEPTH + 1:
    bad.append(f"the bridge had {res['max_outstanding']} write commands accepted by the controller without their "
               f"data, but its write buffer can only hold {DEPTH + 1} words: commands were issued for data that "
               f"is not buffered")
if res["cmd_before_data"]:
    c, n, a, acc = res["cmd_before_data"]
    bad.append(f"cycle {c}: native write command for beat {n} (word {a}) was issued although only {acc} W beats "
               f"had been accepted on the AXI W channel - a controller that pulls the data at a fixed latency "
               f"would write garbage there")
wrong = [(i, mem.get(i)) for i in range(NBEATS) if mem.get(i) != data[i]]
if wrong:
    bad.append("memory after the run: " + ", ".join(
        f"word {i} = " + ("never written" if v is None else f"{v:#x}") + f" (expected {data[i]:#x})" for i, v in wrong))
if len(res["b"]) != 1:
    bad.append(f"write burst ID={ID}: {len(res['b'])} write responses seen in {NCYCLES} cycles (expected exactly 1); "
               f"{len(res['wq'])} native write commands are still waiting for data that the bridge never presents"
               if not res["b"] else f"write burst ID={ID}: {len(res['b'])} write responses {res['b']}")
elif res["b"][0][1] != ID:
    bad.append(f"write response carries ID {res['b'][0][1]} instead of {ID}")

if bad:
    print("MISBEHAVIOUR:")
    for b in bad:
        print("  -", b)
    if res["first_bad"]:
        print(f"  first sign: cycle {res['first_bad'][0]}, {DEPTH + 1} commands outstanding with w_buffer.level={res['first_bad'][1]}")
    print("Reason: in LiteDRAMAXI2NativeW the reservation counter is `w_buffer_level = Signal(max=buffer_depth + 1)`, "
          f"i.e. {DEPTH.bit_length()} bits for buffer_depth={DEPTH}, but w_buffer is a *buffered* SyncFIFO whose level reaches "
          f"buffer_depth + 1 = {DEPTH + 1} (storage + output register). `can_write = w_buffer.level > w_buffer_level` therefore "
          f"lets the counter count to {DEPTH + 1} = 2**{DEPTH.bit_length()}, where it wraps to 0. From then on the bridge "
          "under-counts its reserved words: it keeps issuing write commands for data it does not hold, and "
          "`w_buffer_send = (w_buffer_level != 0) | w_buffer_queue` / `resp_buffer` see 'nothing reserved' while words "
          "are still owed to the controller. Here all 12 = 3*4 commands go out while the controller is busy, the counter reads "
          "0 again, `port.wdata.valid` stays low for ever, no word reaches the memory and no B response is produced.")
    sys.exit(1)
print("OK: data written correctly, one B response with the right ID")
sys.exit(0)
