# Triage repro for finding F10 (C11.2) - written by an independent triage agent on the unmodified tree; NOT part of any check. Run: cd /repo && /venv/bin/python /verif/findings/F10_avalon_burst_write_gap.py
import sys, os; sys.path.insert(0, os.getcwd())
#
# Triage: LiteDRAMAvalonMM2Native BURST_WRITE vs. idle cycles (write=0) inside a write burst.
#
# Avalon-MM spec (Burst transfers / write bursts): a master may deassert `write` between the beats
# of a write burst ("the master deasserts write, indicating it does not have valid write data; the
# burst is only delayed"); address/burstcount are only meaningful on the first beat. A slave must
# therefore store beat i of a burst (base, N) at base+i whatever the spacing of the beats.
#
# This script drives the REAL, unmodified LiteDRAMAvalonMM2Native (32-bit avalon <-> 32-bit native
# port) in front of a native-port memory model and issues:
#   - control : 6-beat write burst, no gap                       (must be correct)
#   - gap runs: same burst with G idle cycles after beat 2 (i.e. after the 2nd beat was accepted)
# and then compares the memory model content with what an Avalon slave must contain.
#
# exit 1 -> defect reproduced (control correct, at least one legal gapped burst corrupts memory)
# exit 0 -> not reproducible
# exit 2 -> harness problem (control run itself is wrong)

from migen import *
from litex.gen.sim import run_simulation
from litex.soc.interconnect import avalon

from litedram.frontend.avalon import LiteDRAMAvalonMM2Native
from litedram.common import LiteDRAMNativePort

from test.common import DRAMMemory

BASE   = 0x4
DEPTH  = 16
SENT   = 0x11110000                                   # background pattern: SENT | addr
DATA   = [0xa0a00000, 0xa1a10001, 0xa2a20002, 0xa3a30003, 0xa4a40004, 0xa5a50005]
NBEATS = len(DATA)
GAP_AFTER_BEATS = 2
STALL_LIMIT = 300                                     # cycles a beat may be stalled by waitrequest


def background():
    return [SENT | i for i in range(DEPTH)]

def expected_mem():
    m = background()
    for i, d in enumerate(DATA):
        m[BASE + i] = d
    return m


class FastMemory:
    """Minimal native-port write-only memory model: cmd accepted immediately when idle, wdata.ready
    given 2 cycles after the command (write latency), one write every ~4 cycles. Used in addition to
    test/common.py's DRAMMemory (which needs ~7 cycles per write) so that 3-10 cycle gaps are
    long enough for the frontend FIFOs to drain."""
    def __init__(self, width, depth, init):
        self.width = width
        self.depth = depth
        self.mem   = list(init)

    _write = DRAMMemory._write
    _debug = "0"

    @passive
    def write_handler(self, port):
        yield port.cmd.ready.eq(0)
        yield port.wdata.ready.eq(0)
        while True:
            if (yield port.cmd.valid) and (yield port.cmd.we):
                addr = (yield port.cmd.addr)
                yield port.cmd.ready.eq(1)
                yield
                yield port.cmd.ready.eq(0)
                yield                                  # write latency
                while not (yield port.wdata.valid):
                    yield
                yield port.wdata.ready.eq(1)
                yield
                self._write(addr, (yield port.wdata.data), (yield port.wdata.we))
                yield port.wdata.ready.eq(0)
            yield

    @passive
    def read_handler(self, port):
        while True:
            yield


class DUT(Module):
    def __init__(self, model):
        self.avalon = avalon.AvalonMMInterface(adr_width=30, data_width=32)
        self.port   = LiteDRAMNativePort("both", address_width=30, data_width=32)
        self.submodules.bridge = LiteDRAMAvalonMM2Native(avalon=self.avalon, port=self.port)
        if model == "DRAMMemory":
            self.mem = DRAMMemory(32, DEPTH, init=background())
        else:
            self.mem = FastMemory(32, DEPTH, init=background())


def run(model, gap, hold_burstcount):
    """gap: number of write=0 cycles inserted after GAP_AFTER_BEATS accepted beats (0 = none).
    hold_burstcount: True  -> master keeps burstcount=N for the whole burst (typical Intel master),
                     False -> burstcount only valid on first beat, 0 afterwards (like litex's
                              AvalonMMInterface.bus_write). Both are legal."""
    dut  = DUT(model)
    info = {"stalled_beat": None, "states": [], "port_writes": []}

    def master():
        avl = dut.avalon
        for _ in range(4):
            yield
        yield avl.address.eq(BASE)
        yield avl.burstcount.eq(NBEATS)
        yield avl.byteenable.eq(0xf)
        yield avl.read.eq(0)
        yield avl.write.eq(1)
        for i, d in enumerate(DATA):
            yield avl.writedata.eq(d)
            yield
            n = 0
            while (yield avl.waitrequest):
                yield
                n += 1
                if n > STALL_LIMIT:
                    info["stalled_beat"] = i
                    break
            if info["stalled_beat"] is not None:
                break
            # Beat i is accepted at the coming clock edge.
            if not hold_burstcount:
                yield avl.burstcount.eq(0)
            if gap and i + 1 == GAP_AFTER_BEATS:
                yield avl.write.eq(0)                 # idle cycles inside the burst (legal)
                for _ in range(gap):
                    yield
                yield avl.write.eq(1)
        yield avl.write.eq(0)
        yield avl.writedata.eq(0)
        yield avl.burstcount.eq(0)
        yield avl.byteenable.eq(0)
        for _ in range(150):                          # let everything drain
            yield

    @passive
    def monitor():
        last = None
        cycle = 0
        decoding = {v: k for k, v in dut.bridge.fsm.encoding.items()}  # available once finalized
        while True:
            s = decoding[(yield dut.bridge.fsm.state)]
            if s != last:
                info["states"].append((cycle, s))
                last = s
            if (yield dut.port.cmd.valid) and (yield dut.port.cmd.ready) and (yield dut.port.cmd.we):
                info["port_writes"].append((yield dut.port.cmd.addr))
            cycle += 1
            yield

    run_simulation(dut, [master(), monitor(),
                         dut.mem.write_handler(dut.port), dut.mem.read_handler(dut.port)])
    info["final_state"] = info["states"][-1][1]
    return dut.mem.mem, info


def fmt(mem):
    return " ".join("%08x" % w for w in mem[BASE - 1:BASE + NBEATS + 1])


def main():
    exp = expected_mem()
    print("6-beat Avalon write burst to word address 0x%x, data = %s" % (BASE, " ".join("%08x" % d for d in DATA)))
    print("memory shown for word addresses 0x%x..0x%x (background = 0x1111000<addr>)" % (BASE - 1, BASE + NBEATS))
    print("expected                                   : %s" % fmt(exp))

    harness_bad = False
    failures    = []
    for model in ["DRAMMemory", "FastMemory"]:
        for hold in [True, False]:
            for gap in [0, 3, 5, 8, 10, 20, 40]:
                mem, info = run(model, gap, hold)
                ok = (mem == exp) and info["stalled_beat"] is None and info["final_state"] == "START"
                tag = "control" if gap == 0 else "gap=%-2d " % gap
                print("%-10s hold_bc=%d %s -> %s : %s | cmd addrs=%s fsm=%s%s" % (
                    model, hold, tag, "OK  " if ok else "FAIL", fmt(mem),
                    info["port_writes"],
                    ">".join(s for _, s in info["states"]),
                    "" if info["stalled_beat"] is None else " | master stalled forever on beat %d" % info["stalled_beat"]))
                if gap == 0 and not ok:
                    harness_bad = True
                if gap != 0 and not ok:
                    failures.append((model, hold, gap, mem, info))

    if harness_bad:
        print("\nHARNESS PROBLEM: control burst (no gap) is not correct")
        sys.exit(2)
    if failures:
        model, hold, gap, mem, info = failures[0]
        print("\nCONFIRMED: %d gapped-burst runs corrupt memory while the un-gapped control is correct." % len(failures))
        print("During the write=0 gap (burst_count > 0) BURST_WRITE takes its Else branch; as soon as the FIFOs")
        print("have drained (cmd_fifo.level==0, wdata_fifo.level==1, wdata.ready) the FSM returns to START with beats")
        print("outstanding, and the remaining beats are decoded as new accesses at avalon.address (= burst base).")
        print("first failing run: model=%s hold_burstcount=%s gap=%d" % (model, hold, gap))
        print("  expected: %s" % fmt(exp))
        print("  observed: %s" % fmt(mem))
        sys.exit(1)
    print("\nNOT REPRODUCIBLE: all gapped bursts produced the expected memory content")
    sys.exit(0)


if __name__ == "__main__":
    main()
