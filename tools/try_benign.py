#!/usr/bin/env python3
"""tools/try_benign.py <dir-or-patch>... [-j N]: apply each behaviour-preserving patch to a scratch copy of /repo/litedram and run
all 20 checks on it; every check must stay at exit 0 (a non-zero exit is a false alarm / lost anchor of the machinery)."""
import glob, os, shutil, subprocess, sys, tempfile
from concurrent.futures import ThreadPoolExecutor
V = os.path.dirname(os.path.dirname(os.path.abspath(__file__)))
PROPS = ["C%02d" % i for i in range(1, 21)]
args = [a for a in sys.argv[1:]]
jobs = 4
if "-j" in args:
    i = args.index("-j"); jobs = int(args[i + 1]); del args[i:i + 2]
patches = []
for a in args:
    patches += sorted(glob.glob(os.path.join(a, "*.diff"))) if os.path.isdir(a) else [a]


def run(patch):
    tmp = tempfile.mkdtemp(prefix="lsa_benign_")
    try:
        shutil.copytree("/repo/litedram", os.path.join(tmp, "litedram"))
        r = subprocess.run(["patch", "-p1", "-s", "-d", tmp, "-i", os.path.abspath(patch)], capture_output=True, text=True)
        if r.returncode:
            return patch, [("patch", 3, [r.stdout.strip()[:200]])]
        bad = []
        for p in PROPS:
            r = subprocess.run([sys.executable, "-m", "lsa.check", p], cwd=V, env=dict(os.environ, LSA_REPO=tmp, LSA_NO_EVIDENCE="1"), capture_output=True, text=True)
            if r.returncode != 0:
                lines = [l for l in r.stdout.splitlines() if l.startswith(("REFUTED", "ANALYSIS-ERROR"))]
                bad.append((p, r.returncode, lines[:3]))
        return patch, bad
    finally:
        shutil.rmtree(tmp, ignore_errors=True)


nbad = 0
with ThreadPoolExecutor(jobs) as ex:
    for patch, bad in ex.map(run, patches):
        print("%-60s %s" % (os.path.basename(patch), "ok" if not bad else "FLAGGED"))
        for p, rc, lines in bad:
            nbad += 1
            print("    %s exit=%d" % (p, rc))
            for l in lines:
                print("       " + l[:400])
print("try_benign: %d patches, %d (patch, check) pairs flagged" % (len(patches), nbad))
sys.exit(1 if nbad else 0)
