#!/usr/bin/env python3
"""Regenerate /verif/MANIFEST.json from the claim table below and the rule modules present."""
import json, os, subprocess
V = os.path.dirname(os.path.dirname(os.path.abspath(__file__)))
CLAIMS = json.load(open(os.path.join(V, "tools", "claims.json")))
NOTE = ("Trusted: Python ast; the analyser's symbolic reading of the generator idioms (DESIGN.md 2.2-2.4); the contracts of the Migen/LiteX "
        "primitives outside the repository (DESIGN.md 2.1); /verif/refdata tables where used. Obligations are necessary structural "
        "conditions, not the behaviour; a defect that keeps every checked shape intact is not seen.")
props = [json.loads(l) for l in open(os.path.join(V, "properties.jsonl"))]
fixes = subprocess.run(["git", "-C", "/repo", "log", "--format=%H %s"], capture_output=True, text=True).stdout.splitlines()
fix_commits = [l.split()[0] for l in fixes if l.split(" ", 1)[1].startswith("fix:")]
checks, na = [], []
for p in props:
    pid = p["id"]
    c = CLAIMS.get(pid, {})
    if os.path.exists(os.path.join(V, "lsa", "rules", pid.lower() + ".py")) and c.get("claim"):
        checks.append({
            "property_id": pid,
            "quick_cmd": "python3 -m lsa.check %s --tier quick" % pid,
            "thorough_cmd": "python3 -m lsa.check %s --tier thorough" % pid,
            "evidence_file": "/verif/evidence/%s.json" % pid,
            "replay_cmd_template": "python3 -m lsa.check --replay {path}",
            "engine": "lsa",
            "level_claimed": {"category": "other", "text": c["claim"], "design_ref": "DESIGN.md section 3, " + pid},
            "level_note": NOTE + (" " + c["note"] if c.get("note") else ""),
            "technique": c.get("technique", "static analysis: ast-based symbolic elaboration of the Migen generator + structural rules"),
        })
    else:
        na.append({"property_id": pid, "reason": c.get("na", "check not built yet (work in progress; planned static obligations in DESIGN.md section 3)")})
m = {
    "version": 1,
    "setup_cmd": "python3 -m compileall -q lsa",
    "hooks": {
        "guard": "LITEDRAM_VERIF",
        "enable": "none needed: the checks only read /repo's sources with ast; no hook patch exists in /repo",
        "baseline_off_cmd": "cd /repo && /venv/bin/python -m pytest -ra -q -p no:cacheprovider --timeout=900 --continue-on-collection-errors",
        "source_commits": fix_commits,
        "add_only": True,
    },
    "engines": [{"name": "lsa", "path": "/verif/lsa", "serves_properties": [c["property_id"] for c in checks],
                 "kind_free_text": "static analyser: stdlib-ast symbolic partial evaluator of the Migen generator source (no import / execution / "
                                   "simulation of the repository, no solver) producing guarded hardware statements and FSM graphs; rule "
                                   "modules decide structural obligations (guard containment, symbolic latency calculus, bit provenance, "
                                   "table agreement, rounding direction)"}],
    "checks": checks,
    "not_applicable": na,
    "notes": "Exit codes of every check: 0 = all obligations hold (known findings printed as KNOWN-FINDING lines), 1 = VIOLATION with a replay "
             "file naming the construct, 2 = ANALYSIS-ERROR (the analyser could not interpret the tree: neither pass nor violation).",
}
json.dump(m, open(os.path.join(V, "MANIFEST.json"), "w"), indent=1)
print("claimed:", [c["property_id"] for c in checks]); print("n/a:", [n["property_id"] for n in na])
