#!/usr/bin/env python3
"""tools/adopt_seed.py <seed name under /tmp/seed/out> <PROP> <detected_by obligation(s), comma separated or 'none'> [note] [dest name]
Copies a confirmed seeded change into /verif/seeded/<name>/ (patch.diff, demo, meta.json)."""
import json, os, shutil, sys
name, prop, det = sys.argv[1:4]
note = sys.argv[4] if len(sys.argv) > 4 else ""
src = "/tmp/seed/out/" + name
if len(sys.argv) > 5:
    dstname = sys.argv[5]
else:      # next free number for that property
    import glob
    nums = [int(d.rsplit("_", 1)[1]) for d in glob.glob("/verif/seeded/%s_*" % prop) if d.rsplit("_", 1)[1].isdigit()]
    dstname = "%s_%d" % (prop, max(nums + [0]) + 1)
dst = "/verif/seeded/" + dstname
conf = json.load(open(src + "/confirm.json"))
assert conf.get("confirmed"), conf
os.makedirs(dst, exist_ok=True)
shutil.copy(src + "/patch.diff", dst + "/patch.diff")
for f in ("demo.py", "test_demo.py"):
    if os.path.exists(src + "/" + f):
        shutil.copy(src + "/" + f, dst + "/" + f)
meta = json.load(open(src + "/meta.json"))
out = {
    "property": prop,
    "summary": meta.get("summary"),
    "ran_by_author": meta.get("ran"),
    "needs_to_manifest": meta.get("needs_to_manifest"),
    "files_changed": meta.get("files_changed"),
    "author": "independent sub-agent given only the property text and a scratch worktree",
    "confirmed_by_me": {"how": "tools/confirm_seed.sh in a fresh worktree of /repo HEAD: demo on pristine tree, demo with patch, full pinned suite with patch (-n 4)",
                        "demo_pristine_exit": conf["demo_pristine_exit"], "demo_patched_exit": conf["demo_patched_exit"],
                        "stable_tests_passing_with_patch": conf["stable_pass_ok"], "stable_tests_broken": conf["stable_broken"]},
    "detected_by": None if det == "none" else det.split(","),
    "note": note,
}
json.dump(out, open(dst + "/meta.json", "w"), indent=1)
print("adopted", name, "->", dst)
