#!/bin/bash
# tools/confirm_seed.sh <seed-out-dir> : confirm a seeded change in a fresh scratch worktree of /repo HEAD:
#   demo passes pristine, fails patched; full pinned suite: all stable_pass tests pass with the patch.
# writes <seed-out-dir>/confirm.json
set -u
D=$(realpath "$1"); N=$(basename "$D"); W=/tmp/confirm/$N
mkdir -p /tmp/confirm; rm -rf "$W"; git -C /repo worktree prune
git -C /repo worktree add -q --detach "$W" HEAD || exit 3
cd "$W"
DEMO=$(ls "$D"/demo.py "$D"/test_demo.py 2>/dev/null | head -1)
timeout 900 /venv/bin/python "$DEMO" > "$D/confirm_pristine.log" 2>&1; P=$?
if ! git apply "$D/patch.diff" 2>"$D/confirm_apply.log"; then
  patch -p1 -s < "$D/patch.diff" >> "$D/confirm_apply.log" 2>&1 || { echo "{\"seed\":\"$N\",\"applies\":false}" > "$D/confirm.json"; cd /; git -C /repo worktree remove --force "$W"; exit 4; }
fi
timeout 900 /venv/bin/python "$DEMO" > "$D/confirm_patched.log" 2>&1; Q=$?
timeout 3000 /venv/bin/python -m pytest -q -p no:cacheprovider --timeout=900 -n 4 --continue-on-collection-errors --junitxml="$D/confirm_junit.xml" test/ > "$D/confirm_suite.log" 2>&1
/venv/bin/python - "$D" "$P" "$Q" <<'PY'
import sys, json, xml.etree.ElementTree as ET
d, p, q = sys.argv[1], int(sys.argv[2]), int(sys.argv[3])
stable = set(open('/tmp/seed/stable_pass.txt').read().split())
ok = set()
try:
    for tc in ET.parse(d + '/confirm_junit.xml').getroot().iter('testcase'):
        name = "%s::%s" % (tc.get('classname'), tc.get('name'))
        if not any(ch.tag in ('failure', 'error', 'skipped') for ch in tc):
            ok.add(name)
except Exception as e:
    print("junit parse error", e)
missing = sorted(stable - ok)
res = {"seed": d.split('/')[-1], "applies": True, "demo_pristine_exit": p, "demo_patched_exit": q, "stable_pass_ok": len(stable & ok), "stable_broken": missing,
       "confirmed": p == 0 and q != 0 and not missing}
json.dump(res, open(d + '/confirm.json', 'w'), indent=1); print(res)
PY
cd /; git -C /repo worktree remove --force "$W"
