#!/usr/bin/env python3
"""tools/wave_setup.py <suffix> [PROP ...]: prepare an independent-reviewer wave.
For every property (default all 20) creates
  /tmp/seed/wt/<PROP>_<suffix>      scratch git worktree of /repo HEAD
  /tmp/seed/out/<PROP>_<suffix>/    where the reviewer leaves patch.diff, demo.py, meta.json
  /tmp/seed/prompts/<PROP>_<suffix>.txt   the whole brief: the property's text + the summaries of the changes earlier
                                          reviewers already handed in (so that the new one attacks another mechanism).
Nothing from /verif's machinery (rules, DESIGN, evidence) goes into the brief."""
import glob, json, os, subprocess, sys
suffix = sys.argv[1]
KEEP = suffix.startswith("k")      # "k<n>" waves ask for property-PRESERVING functional changes (false-alarm probes)
props = {json.loads(l)["id"]: json.loads(l) for l in open("/verif/properties.jsonl")}
sel = sys.argv[2:] or sorted(props)
os.makedirs("/tmp/seed/wt", exist_ok=True); os.makedirs("/tmp/seed/out", exist_ok=True); os.makedirs("/tmp/seed/prompts", exist_ok=True)
base = json.load(open("/root/.vp/BASELINE.json"))
open("/tmp/seed/stable_pass.txt", "w").write("\n".join(base["stable_pass"]) + "\n")
subprocess.run(["git", "-C", "/repo", "worktree", "prune"])
extra = {}
if os.path.exists("/tmp/seed/extra_used.json"):
    extra = json.load(open("/tmp/seed/extra_used.json"))
for p in sel:
    name = "%s_%s" % (p, suffix)
    wt = "/tmp/seed/wt/" + name
    out = "/tmp/seed/out/" + name
    os.makedirs(out, exist_ok=True)
    if not os.path.exists(wt):
        subprocess.run(["git", "-C", "/repo", "worktree", "add", "-q", "--detach", wt, "HEAD"], check=True)
    used = []
    for m in sorted(glob.glob("/verif/seeded/%s_*/meta.json" % p)):
        s = json.load(open(m)).get("summary") or ""
        used.append("- " + s[:420].replace("\n", " "))
    for s in extra.get(p, []):
        used.append("- " + s)
    pr = props[p]
    txt = f"""You are reviewing the open-source project enjoy-digital/litedram (a Migen/Python generator of a DRAM controller). A scratch git worktree of it is at
{wt} (work ONLY there; never touch /repo or /verif, do not read anything under /verif). Python with all dependencies: /venv/bin/python
(run tests from the worktree root, e.g. `cd {wt} && /venv/bin/python -m pytest -q -p no:cacheprovider test/test_bankmachine.py`; pytest-xdist is
available: `-n 4`). There is no network.

THE PROPERTY (this is all you are given about what should hold):
{json.dumps(pr, indent=1)}

YOUR TASK: write ONE realistic change to the project's source under litedram/ (the kind of edit a contributor might make in good faith: a clean-up,
an optimisation, a small feature, a refactoring, a 'fix') that BREAKS this property, while
 (a) the package still imports / elaborates, and
 (b) the existing test suite still passes: `cd {wt} && /venv/bin/python -m pytest -q -p no:cacheprovider --timeout=900 -n 4 test/` must show no NEW failure compared with
     the unmodified tree (on the unmodified tree some tests already fail for missing tools - test_lpddr4, test_lpddr5, test_bandwidth, test_init, test_examples,
     some test_ecc / test_bist csr tests; ignore those), and
 (c) the breakage needs something specific to manifest - a particular interleaving or timing, a particular configuration (memory type, ratio, width,
     depth, option), a multi-step sequence, an unusual but legal input, or two cooperating sites that each look fine alone - NOT something that ordinary use
     exposes at once.
Do not edit anything under test/. Keep the change small (a few lines, at most ~30) and plausible; no dead code, no comments announcing the defect.

Also write a DEMONSTRATION: one self-contained script demo.py (run as `cd {wt} && /venv/bin/python <path>/demo.py`, it must add the worktree root / cwd to sys.path
itself if needed, it may reuse helpers from test/) that drives the REAL code (Migen simulation via migen.sim run_simulation, or plain Python for the
non-hardware parts) and exits 0 on the unmodified tree and exits non-zero (assertion failure) with your change applied. The demonstration must show the
property itself being violated (wrong data, illegal command spacing, lost beat, ...), not merely that the source text differs.

Earlier reviewers already handed in the following changes for this property. Do something DIFFERENT: another mechanism, another file or another clause of the
property (do not reuse these ideas or close variants):
{chr(10).join(used) if used else '- (none yet)'}

DELIVERABLES, all in {out}/ :
  patch.diff   `git -C {wt} diff` of your change (source only, must apply to the unmodified tree with `git apply`)
  demo.py      the demonstration
  meta.json    {{"summary": "<file, place, what was changed and why it breaks the property, 3-6 sentences>",
                "needs_to_manifest": "<what exactly is needed for the breakage to show>",
                "files_changed": ["litedram/..."],
                "ran": "<the commands you ran and what they showed: demo on unmodified tree, demo with change, test suite with change>"}}
Before finishing: verify demo.py exits 0 with the change reverted (use `git -C {wt} diff > /tmp/x.diff; git -C {wt} apply -R /tmp/x.diff` and re-apply with `git apply`; do NOT use `git stash`: the stash is shared with other reviewers' worktrees) and non-zero with it, and that the test suite shows
no new failure with the change. Leave the change applied in the worktree when you finish. Your final message: a two-line summary only.
"""
    if KEEP:
        prev = []
        for mf in sorted(glob.glob("/verif/keep/%s_k*.meta.json" % p)):
            try:
                for ch in json.load(open(mf)).get("changes", []):
                    prev.append("- " + (ch.get("summary") or "")[:300].replace("\n", " "))
            except Exception:
                pass
        prev_txt = ("\nEarlier contributors already handed in the following changes for this property - do something DIFFERENT in kind and place:\n" + "\n".join(prev) + "\n") if prev else ""
        txt = f"""You are a contributor to the open-source project enjoy-digital/litedram (a Migen/Python generator of a DRAM controller). A scratch git worktree of it is at
{wt} (work ONLY there; never touch /repo or /verif, do not read anything under /verif). Python with all dependencies: /venv/bin/python
(run tests from the worktree root, e.g. `cd {wt} && /venv/bin/python -m pytest -q -p no:cacheprovider test/test_bankmachine.py`; pytest-xdist is
available: `-n 4`). There is no network. Do NOT use `git stash` (it is shared with other contributors' worktrees); use `git diff > file` / `git apply -R file`.

A PROPERTY THE PROJECT RELIES ON:
{json.dumps(pr, indent=1)}

YOUR TASK: write THREE independent, realistic changes to the source under litedram/ in the files / mechanisms this property is anchored in. Each change must
ALTER the implementation in a way that is NOT a pure renaming / re-formatting - e.g. an optimisation (one cycle saved, a register added or removed with the
bookkeeping adjusted accordingly), an alternative but equivalent implementation of a counter / pointer / handshake / address computation, a small extra
feature or parameter, a defensive extra condition, logic moved between modules, a table restructured - and the property above MUST STILL HOLD after each
change, for every input / schedule / configuration it quantifies over. Prefer changes that touch exactly the logic the property depends on (that is what
makes them interesting), and make the three changes different in kind. Each change: a few lines up to ~40 lines, plausible as a real commit.
For each change k = 1, 2, 3 (each one separately, against the unmodified tree):
  - the existing test suite must show no new failure: `cd {wt} && /venv/bin/python -m pytest -q -p no:cacheprovider --timeout=900 -n 4 test/` (on the unmodified tree some
    tests already fail for missing tools - test_lpddr4, test_lpddr5, test_bandwidth, test_init, test_examples, some test_ecc / test_bist csr tests; ignore those);
    running only the test files that exercise the changed module plus one full run at the end is fine;
  - write a check script keep_k.py that drives the REAL code (migen.sim run_simulation or plain Python) hard enough to give good confidence that the property
    still holds with the change (randomised traffic / exhaustive small configurations / comparison against the unmodified behaviour), exits 0 with the change
    applied. If you cannot convince yourself that the property still holds, drop that change and write another one.
Do not edit anything under test/.
{prev_txt}
DELIVERABLES, all in {out}/ :
  keep_1.diff, keep_2.diff, keep_3.diff   each a `git diff` against the UNMODIFIED tree (must apply alone with `git apply`)
  keep_1.py, keep_2.py, keep_3.py         the check scripts (add os.getcwd() to sys.path; they are run from the root of a tree with the diff applied)
  meta.json   {{"changes": [{{"file": "litedram/...", "summary": "<what was changed>", "why_property_still_holds": "<argument, 2-5 sentences>", "ran": "<what you ran>"}}, ...3 entries]}}
Leave the worktree unmodified (all changes reverted) when you finish. Your final message: a three-line summary only.
"""
    open("/tmp/seed/prompts/%s.txt" % name, "w").write(txt)
    print(name, len(used), "earlier ideas")
