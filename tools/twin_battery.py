#!/usr/bin/env python3
"""Behaviour-preserving refactorings (renames, reorderings) applied to scratch copies; every check must still exit 0.
   python3 tools/twin_battery.py [-j N]"""
import os, re, shutil, subprocess, sys, tempfile
from concurrent.futures import ThreadPoolExecutor
V = os.path.dirname(os.path.dirname(os.path.abspath(__file__)))
PROPS = ["C%02d" % i for i in range(1, 21)]
T = [
 ("bm-rename-buffer", "litedram/core/bankmachine.py", [(r"\bcmd_buffer\b", "head_buf"), (r"\bcmd_buffer_lookahead\b", "queue_fifo")]),
 ("bm-rename-states", "litedram/core/bankmachine.py", [(r'"REGULAR"', '"IDLE"'), (r'"AUTOPRECHARGE"', '"AP_WAIT"'), (r'"TRP"', '"WAIT_RP"'), (r'"TRCD"', '"WAIT_RCD"')]),
 ("bm-rename-signals", "litedram/core/bankmachine.py", [(r"\brow_opened\b", "is_open"), (r"\brow_close\b", "do_close"), (r"\brow_open\b", "do_open"), (r"\btrascon\b", "ras_gate"), (r"\btwtpcon\b", "wtp_gate"), (r"\btrccon\b", "rc_gate")]),
 ("mux-rename-states", "litedram/core/multiplexer.py", [(r'"READ"', '"RD_MODE"'), (r'"WRITE"', '"WR_MODE"'), (r'"WTR"', '"W2R"'), (r'"RTW"', '"R2W"')]),
 ("mux-rename-choosers", "litedram/core/multiplexer.py", [(r"\bchoose_req\b", "req_sel"), (r"\bchoose_cmd\b", "cmd_sel"), (r"\bras_allowed\b", "act_ok"), (r"\bcas_allowed\b", "col_ok")]),
 ("mux-rename-gates", "litedram/core/multiplexer.py", [(r"\btrrdcon\b", "rrd_gate"), (r"\btfawcon\b", "faw_gate"), (r"\btccdcon\b", "ccd_gate"), (r"\btwtrcon\b", "wtr_gate")]),
 ("refresher-rename", "litedram/core/refresher.py", [(r'"DO-REFRESH"', '"REFRESHING"'), (r'"WAIT-BANK-MACHINES"', '"WAIT_GNT"'), (r"\bwants_refresh\b", "need_ref"), (r"\bwants_zqcs\b", "need_zq")]),
 ("xbar-rename", "litedram/core/crossbar.py", [(r"\blocked\b", "busy_elsewhere"), (r"\bmaster_locked\b", "masters_busy"), (r"\bbank_selected\b", "sel")]),
 ("dma-rename", "litedram/frontend/dma.py", [(r"\bres_fifo\b", "reservation"), (r"\bfifo\b", "data_fifo")]),
 ("axi-rename", "litedram/frontend/axi.py", [(r"\bw_buffer_send\b", "w_go"), (r"\bw_buffer_level\b", "w_reserved"), (r"\br_buffer_level\b", "r_reserved"), (r"\bcan_write\b", "w_ok"), (r"\bcan_read\b", "r_ok")]),
 ("wb-rename", "litedram/frontend/wishbone.py", [(r"\baborted\b", "dropped"), (r"\brd_cache_valid\b", "cache_ok"), (r"\bwr_can_merge\b", "mergeable")]),
 ("avalon-rename", "litedram/frontend/avalon.py", [(r"\bcmd_ready_seen\b", "cmds_done"), (r"\bcmd_ready_count\b", "cmds_left"), (r"\bburst_count\b", "beats_left"), (r'"BURST_READ"', '"RD_BURST"'), (r'"BURST_WRITE"', '"WR_BURST"')]),
 ("adapter-rename", "litedram/frontend/adapter.py", [(r"\bnext_cmd\b", "close_word"), (r"\bcmd_count\b", "sub_idx"), (r"\bwdata_sel\b", "lane_mask")]),
 ("ecc-rename", "litedram/frontend/ecc.py", [(r"\becc_width_from\b", "w_in"), (r"\becc_width_to\b", "w_out")]),
 ("bist-rename", "litedram/frontend/bist.py", [(r"\bcmd_counter\b", "n_cmd"), (r"\bdata_counter\b", "n_data")]),
 ("fifo-rename", "litedram/frontend/fifo.py", [(r"\bproduce\b", "wr_ptr"), (r"\bconsume\b", "rd_ptr"), (r"\bdram_store\b", "to_dram")]),
 ("common-rename", "litedram/common.py", [(r"\bcba_upper\b", "hi"), (r"\bcount\b", "cnt")]),
 ("modules-rename", "litedram/modules.py", [(r"\bclk_period_ns\b", "period")]),
 ("model-rename", "litedram/phy/model.py", [(r"\bbanks_read_data\b", "rd_bus"), (r"\bbank_write_col\b", "wr_col"), (r"\bnew_banks_read\b", "rd_v_q"), (r"\bnew_bank_write\b", "wr_q")]),
 ("dfi-rename", "litedram/phy/dfi.py", [(r"\bsigs_m\b", "slow_sigs"), (r"\bsig_m\b", "wide")]),
 ("utils-rename", "litedram/phy/utils.py", [(r"\bvalids_hist\b", "history"), (r"\bca_phase_slip\b", "ca_per_cs")]),
 ("init-rename", "litedram/init.py", [(r"\bcl_to_mr0\b", "cl_code"), (r"\bwr_to_mr0\b", "wr_code"), (r"\binvert_masks\b", "inv")]),
]


def run(t):
    name, file, subs = t
    tmp = tempfile.mkdtemp(prefix="lsa_twin_")
    try:
        shutil.copytree("/repo/litedram", os.path.join(tmp, "litedram"))
        p = os.path.join(tmp, file)
        s = open(p).read()
        for a, b in subs:
            s = re.sub(a, b, s)
        open(p, "w").write(s)
        try:
            compile(s, p, "exec")
        except SyntaxError as e:
            return name, [("compile", str(e))]
        bad = []
        for prop in PROPS:
            r = subprocess.run([sys.executable, "-m", "lsa.check", prop], cwd=V, env=dict(os.environ, LSA_REPO=tmp, LSA_NO_EVIDENCE="1"), capture_output=True, text=True)
            if r.returncode != 0:
                lines = [l for l in r.stdout.splitlines() if l.startswith(("REFUTED", "ANALYSIS-ERROR"))]
                bad.append((prop, r.returncode, lines[:2]))
        return name, bad
    finally:
        shutil.rmtree(tmp, ignore_errors=True)


jobs = int(sys.argv[sys.argv.index("-j") + 1]) if "-j" in sys.argv else 8
nbad = 0
with ThreadPoolExecutor(max_workers=jobs) as ex:
    for name, bad in ex.map(run, T):
        print("%-22s %s" % (name, "ok" if not bad else "FLAGGED"))
        for b in bad:
            nbad += 1
            print("     ", str(b)[:400])
print("twin battery: %d refactorings x %d checks, %d flagged" % (len(T), len(PROPS), nbad))
sys.exit(0 if not nbad else 2)
