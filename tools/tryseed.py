#!/usr/bin/env python3
"""tools/tryseed.py <patch.diff> <PROP> [<PROP>...]: apply a patch to a scratch copy of /repo/litedram and run checks on it."""
import os, shutil, subprocess, sys, tempfile
V = os.path.dirname(os.path.dirname(os.path.abspath(__file__)))
patch, props = sys.argv[1], sys.argv[2:]
tmp = tempfile.mkdtemp(prefix="lsa_seed_")
try:
    shutil.copytree("/repo/litedram", os.path.join(tmp, "litedram"))
    r = subprocess.run(["patch", "-p1", "-s", "-d", tmp, "-i", os.path.abspath(patch)], capture_output=True, text=True)
    if r.returncode:
        print("PATCH FAILED", r.stdout, r.stderr); sys.exit(3)
    for p in props:
        r = subprocess.run([sys.executable, "-m", "lsa.check", p], cwd=V, env=dict(os.environ, LSA_REPO=tmp, LSA_NO_EVIDENCE="1"), capture_output=True, text=True)
        lines = [l for l in r.stdout.splitlines() if l.startswith(("REFUTED", "ANALYSIS-ERROR", "KNOWN"))]
        print("%s exit=%d" % (p, r.returncode)); print("\n".join("   " + l[:300] for l in lines))
finally:
    shutil.rmtree(tmp, ignore_errors=True)
