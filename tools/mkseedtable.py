#!/usr/bin/env python3
"""Regenerate the seeded-changes table inside DESIGN.md (between the SEEDTABLE markers) from /verif/seeded/*/meta.json."""
import json, os, re
V = os.path.dirname(os.path.dirname(os.path.abspath(__file__)))
rows = []
for d in sorted(os.listdir(os.path.join(V, "seeded"))):
    mp = os.path.join(V, "seeded", d, "meta.json")
    if not os.path.exists(mp):
        continue
    m = json.load(open(mp))
    summ = (m.get("summary") or "").replace("\n", " ").replace("|", "/")
    if len(summ) > 210:
        summ = summ[:207] + "..."
    det = ", ".join(m["detected_by"]) if m.get("detected_by") else "**missed**"
    note = (m.get("note") or "").replace("|", "/")
    rows.append("| %s | %s | %s | %s | %s |" % (d, m["property"], summ, det, note))
tab = "| seed | property | change (author's summary) | caught by | note |\n|---|---|---|---|---|\n" + "\n".join(rows)
p = os.path.join(V, "DESIGN.md")
s = open(p).read()
s = re.sub(r"<!-- SEEDTABLE -->.*<!-- /SEEDTABLE -->", "<!-- SEEDTABLE -->\n" + tab + "\n<!-- /SEEDTABLE -->", s, flags=re.S)
open(p, "w").write(s)
print(len(rows), "seeds")
