"""C14 - BIST: generator/checker sibling agreement, advance-once-per-word, error counting, address units."""
from ..ruleutil import *

BIST = "litedram.frontend.bist"
NATIVE = {"isinstance:dram_port:LiteDRAMNativePort": True, "isinstance:dram_port:LiteDRAMAXIPort": False}
AXI = {"isinstance:dram_port:LiteDRAMNativePort": False, "isinstance:dram_port:LiteDRAMAXIPort": True}


def views(ctx, ha):
    g = elab(ctx, BIST, "_LiteDRAMBISTGenerator", hasattrs=ha)
    c = elab(ctx, BIST, "_LiteDRAMBISTChecker", hasattrs=ha)
    return g, c


def gens(v):
    return [o for o in v.d.instances.values() if o.cls == "Generator" and "." not in o.path]


def roles(v):
    """data generator / address generator / DMA engine / address mask of one BIST core, found by what they feed (not by their names)."""
    gs = gens(v)
    dma = [o for o in v.d.instances.values() if o.cls in ("LiteDRAMDMAWriter", "LiteDRAMDMAReader") and "." not in o.path]
    R = {"data": None, "addr": None, "dma": dma[0].path if len(dma) == 1 else None, "mask": None}
    if R["dma"] is None:
        return R
    lf = sink_addr_leaf(v, R["dma"])
    ed = expected_data(v)
    for o in gs:
        ok_ = str(o) + ".o"
        if lf is not None and any(key(t) == ok_ for t in subterms(lf.value)):
            R["addr"] = o
            for t in subterms(lf.value):
                if isinstance(t, Op) and t.op == "&" and len(t.args) == 2 and any(key(a) == ok_ for a in t.args):
                    R["mask"] = deref(v, [a for a in t.args if key(a) != ok_][0])
        if any(key(t) == ok_ for e in ed for t in subterms(e)):
            R["data"] = o
    return R


def term_of(v, tk):
    ds = v.drivers(tk)
    return ds[0].value if len(ds) == 1 and not ds[0].guards else None


def sink_addr_leaf(v, dma="dma"):
    ls = [l for l in v.leaves if l.kind == "assign" and l.inst == "" and key(l.target).startswith(dma + ".sink.address")]
    return ls[0] if len(ls) == 1 else None


def expected_data(v):
    """the Replicate(data_gen.o, n)[:dw] term wherever it is used"""
    out = []
    for l in v.leaves:
        terms = [l.value] if l.value is not None and isinstance(l.value, V) else []
        terms += [c for c, p in l.guards]
        for t0 in terms:
            for t in subterms(t0):
                if isinstance(t, Op) and t.op == "slice" and isinstance(t.args[0], Op) and t.args[0].op == "Replicate":
                    out.append(t)
    return out


def unit(t, ashift_key, units):
    """'B' byte quantity, 'W' word quantity, None unitless; raises ValueError(msg) on a mixed operation"""
    if isinstance(t, (Obj, Sym)):
        return units.get(key(t))
    if isinstance(t, Const):
        return None
    if isinstance(t, Op):
        if t.op == "slice":
            u = unit(t.args[0], ashift_key, units)
            if key(t.args[1]) == ashift_key and isinstance(t.args[2], Const) and t.args[2].v is None:
                if u == "W":
                    raise ValueError("%s shifts a word quantity down by ashift again" % key(t))
                return "W" if u == "B" else u
            return u
        if t.op in ("+", "-", "&", "|", "==", "!=", "<", ">", "<=", ">="):
            us = [unit(a, ashift_key, units) for a in t.args]
            real = [u for u in us if u is not None]
            if len(set(real)) > 1:
                raise ValueError("%s combines a byte quantity with a word quantity" % key(t))
            if t.op in ("==", "!=", "<", ">", "<=", ">="):
                return None
            return real[0] if real else None
    return None


def run(ctx):
    ob1 = ctx.ob("C14.1", "generator / checker sibling agreement: identical Generator constructor arguments for data and address, identical address "
                          "mask, identical address term, identical expected-data term, identical length compare", 10)
    ob2 = ctx.ob("C14.2", "the data generator advances exactly once per accepted word on both sides (ce <=> fire(dma.sink) in the writer, ce <=> "
                          "fire(dma.source) in the checker) and the address generator once per accepted command", 6)
    ob3 = ctx.ob("C14.3", "the error counter increments exactly under fire(dma.source) & (data != expected) and is cleared at start; done is "
                          "signalled only after all words were compared", 2)
    ob4 = ctx.ob("C14.4", "address units: base/end/length are byte quantities, x[ashift:] converts to words; a mask derived from byte quantities "
                          "must not be applied to a word index (otherwise the wrapped/random sequence leaves [base, end))", 2)
    ob5 = ctx.ob("C14.5", "the generator signals done only after its DMA FIFO has drained to the port: the drain test uses source.valid of an "
                          "unbuffered FIFO (a buffered FIFO shows source.valid low for a cycle while it still holds a word)", 1)
    for tag, ha in (("native", NATIVE), ("axi", AXI)):
        g, c = views(ctx, ha)
        # ---- C14.1 ----
        gg, cg = gens(g), gens(c)
        if not ob1.need(len(gg) == 2 and len(cg) == 2, "%s: expected two Generator instances per side" % tag):
            continue

        def sig(o):
            return (tuple(key(a) for a in o.args), tuple(sorted((k, key(v_)) for k, v_ in o.kwargs.items())))
        RG, RC = roles(g), roles(c)
        if not ob1.need(all(RG[k] is not None and RC[k] is not None for k in ("data", "addr", "dma")), "%s: data / address generator or DMA engine not identified by role "
                        "(generator side %s, checker side %s)" % (tag, {k: str(x) for k, x in RG.items()}, {k: str(x) for k, x in RC.items()})):
            continue
        DG, DC = RG["dma"], RC["dma"]
        for nm in ("data", "addr"):
            a, b = [RG[nm]], [RC[nm]]
            ob1.instance("%s %s generator constructor" % (tag, nm), {"generator": sig(a[0]), "checker": sig(b[0])})
            if sig(a[0]) != sig(b[0]):
                ob1.refute("gen-args:%s_gen" % nm, "the %s generator is built with %s in the generator and %s in the checker: the two sequences differ" % (nm, sig(a[0]), sig(b[0])), b[0].loc)
            en_g, en_c = term_of(g, str(a[0]) + ".random_enable"), term_of(c, str(b[0]) + ".random_enable")
            if en_g is None or en_c is None or key(en_g) != key(en_c):
                ob1.refute("gen-mode:%s_gen" % nm, "%s generator random_enable is %s / %s" % (nm, en_g, en_c), None)

        def canon(v_, R_, t_):
            """term with the side's own instance names replaced by role names, so the two sides can be compared"""
            if t_ is None:
                return None
            k_ = key(t_)
            for role_, inst_ in (("<data_gen>", str(R_["data"])), ("<addr_gen>", str(R_["addr"])), ("<dma>", R_["dma"])):
                k_ = k_.replace(inst_ + ".", role_ + ".")
            return k_
        for what, fn in (("address mask", lambda v_, R_: R_["mask"]),
                         ("address term", lambda v_, R_: sink_addr_leaf(v_, R_["dma"]).value if sink_addr_leaf(v_, R_["dma"]) else None),
                         ("address target", lambda v_, R_: sink_addr_leaf(v_, R_["dma"]).target if sink_addr_leaf(v_, R_["dma"]) else None)):
            a, b = fn(g, RG), fn(c, RC)
            ka, kb = canon(g, RG, a), canon(c, RC, b)
            ob1.instance("%s %s" % (tag, what), {"generator": ka, "checker": kb})
            if a is None or b is None:
                ob1.unknown("%s: %s not found" % (tag, what))
            elif ka != kb:
                ob1.refute("sibling:%s:%s" % (what, tag), "%s differs: generator %s, checker %s - the checker reads addresses the generator did not "
                           "write (or compares different words)" % (what, ka, kb), None)
        ea, eb = expected_data(g), expected_data(c)
        ob1.instance("%s expected data" % tag, {"generator": [key(x) for x in ea], "checker": [key(x) for x in eb]})
        if not ea or not eb or {canon(g, RG, x) for x in ea} != {canon(c, RC, x) for x in eb}:
            ob1.refute("sibling:data:%s" % tag, "written data %s and expected data %s are different terms" % ([key(x) for x in ea], [key(x) for x in eb]), None)
        # length compare
        def length_cmp(v):
            out = set()
            for f in v.fsms(""):
                for l in v.fsm_leaves(f):
                    if l.kind == "next":
                        for a, p in v.guard_lits(l, False):
                            if p and isinstance(a, Op) and a.op == "==" and "length" in key(a):
                                cnt = [x for x in a.args if "length" not in key(x)]
                                lim = [x for x in a.args if "length" in key(x)]
                                out.add(key(lim[0]))
            return out
        la, lb = length_cmp(g), length_cmp(c)
        ob1.instance("%s length compare" % tag, {"generator": sorted(la), "checker": sorted(lb)})
        if len(la) != 1 or la != lb:
            ob1.refute("sibling:length:%s" % tag, "run length compares differ: generator %s, checker %s" % (sorted(la), sorted(lb)), None)
        # ---- C14.2 ----
        for v, side, data_fire, addr_fire, RR in ((g, "generator", {DG + ".sink.ready"}, {DG + ".sink.ready"}, RG), (c, "checker", {DC + ".source.valid"}, {DC + ".sink.ready"}, RC)):
            for nm, fire, inst_ in (("data_gen", data_fire, RR["data"]), ("addr_gen", addr_fire, RR["addr"])):
                dma = RR["dma"]
                ds = [l for l in v.leaves if l.kind == "assign" and key(l.target) == str(inst_) + ".ce"]
                ok = len(ds) == 1 and is1(ds[0].value)
                gk = v.guard_keys(ds[0], False) if ds else set()
                st_ok = False
                if ok:
                    # the partner handshake signal must be constant 1 in that state
                    partner = dma + ".sink.valid" if dma + ".sink.ready" in fire else dma + ".source.ready"
                    st_ok = any(l.kind == "assign" and key(l.target) == partner and is1(l.value) and not l.guards
                                for l in v.fsm_leaves(ds[0].fsm and v.d.fsms[ds[0].fsm], ds[0].state)) if ds[0].fsm is not None else False
                ob2.instance("%s %s %s.ce" % (tag, side, nm), {"guards": sorted(gk), "expected": sorted(fire)})
                if not ok or gk != fire or not st_ok:
                    ob2.refute("ce:%s:%s:%s" % (side, nm, tag), "%s: %s advances under %s (drivers %s), expected exactly once per accepted %s (%s with "
                               "the other handshake signal held at 1 in that state)" % (side, nm, sorted(gk), [str(d) for d in ds],
                                                                                     "word" if nm == "data_gen" else "command", sorted(fire)), ds[0].loc if ds else None)
        # a request may only be offered where its acceptance is counted: every state that raises dma.sink.valid also advances the address generator under the
        # handshake (a request accepted in any other state is issued a second time)
        for v, side, RR in ((g, "generator", RG), (c, "checker", RC)):
            dma = RR["dma"]
            ces = [l for l in v.leaves if l.kind == "assign" and key(l.target) == str(RR["addr"]) + ".ce" and not is0(l.value)]
            ce_states = {(id(l.fsm), l.state) for l in ces if l.fsm is not None}
            offers = [l for l in v.leaves if l.kind == "assign" and key(l.target) == dma + ".sink.valid" and not is0(l.value)]
            ob2.instance("%s %s: states offering a request" % (tag, side), sorted({str(l.state) for l in offers}))
            for l in offers:
                if l.fsm is not None and ces and (id(l.fsm), l.state) not in ce_states:
                    ob2.refute("offer-uncounted:%s:%s:%s" % (side, l.state, tag), "%s: state %s offers a request to the DMA (%s) but the address generator / command counter only "
                               "advance in state(s) %s: a request accepted in %s is issued again from there - the checker then reads one word more than it compares" %
                               (side, l.state, str(l)[:80], sorted({str(x.state) for x in ces}), l.state), l.loc)
        # ---- C14.3 ----
        # the error counter: the register incremented under a comparison with the returned data
        ERR = None
        for l in c.leaves:
            if l.kind == "nextvalue" and not is0(l.value) and \
                    any(isinstance(a, Op) and a.op in ("!=", "==") and any(key(z) == DC + ".source.data" for z in a.args) for a, p in c.guard_lits(l, False)):
                ERR = key(l.target)
        incs = [l for l in c.leaves if l.kind == "nextvalue" and key(l.target) == ERR and not is0(l.value)]
        clr = [l for l in c.leaves if l.kind == "nextvalue" and key(l.target) == ERR and is0(l.value)]
        if ob3.need(len(incs) == 1 and len(clr) == 1, "%s: error counter update not found" % tag):
            gk = c.guard_lits(incs[0], False)
            cmpk = [a for a, p in gk if p and isinstance(a, Op) and a.op == "!="]
            rest = {lkey(x) for x in gk if not (x[1] and isinstance(x[0], Op) and x[0].op == "!=")}
            ob3.instance("%s error increment" % tag, {"guards": sorted(litset(gk))})
            okc = len(cmpk) == 1 and {key(z) for z in cmpk[0].args} == {DC + ".source.data", key(eb[0])} if eb else False
            if rest != {DC + ".source.valid"} or not okc or not lin_eq(incs[0].value, Op("+", (incs[0].target, Const(1)))):
                ob3.refute("errors:%s" % tag, "errors is incremented under %s: expected dma.source.valid & (dma.source.data != expected word), +1" %
                           sorted(litset(gk)), incs[0].loc)
            if "start" not in c.guard_keys(clr[0], False):
                ob3.refute("errors-clear:%s" % tag, "errors is not cleared when a run is started", clr[0].loc)
            dn = [l for l in c.leaves if l.kind == "assign" and key(l.target) == "done" and is1(l.value)]
            if dn and dn[0].fsm is not None and incs[0].fsm is not None and dn[0].fsm is not incs[0].fsm:
                ob3.refute("done-fsm:%s" % tag, "done is raised by the command FSM, not by the FSM that compares the data", dn[0].loc)
        # an up/down counter written as two independent statements: when both conditions hold in one cycle only the later assignment takes effect
        for v, side in ((g, "generator"), (c, "checker")):
            by_t = {}
            for l_ in v.leaves:
                if l_.kind in ("assign", "nextvalue") and l_.domain != "comb" and l_.target is not None and l_.inst == "":
                    by_t.setdefault(key(l_.target), []).append(l_)
            for tk_, ls_ in sorted(by_t.items()):
                ups = [l_ for l_ in ls_ if lin_eq(l_.value, Op("+", (l_.target, Const(1))))]
                dns = [l_ for l_ in ls_ if lin_eq(l_.value, Op("-", (l_.target, Const(1))))]
                for u_ in ups:
                    for d_ in dns:
                        pu = [expand_term(v, c_ if p_ else Op("~", (c_,))) for c_, p_ in u_.guards]
                        pd = [expand_term(v, c_ if p_ else Op("~", (c_,))) for c_, p_ in d_.guards]
                        both, cx = implies(pu + pd, [Const(0)])
                        ob3.instance("%s %s: up/down counter %s" % (tag, side, tk_), {"+1 under": sorted(v.guard_keys(u_, False)), "-1 under": sorted(v.guard_keys(d_, False)),
                                                                                     "exclusive": both is True})
                        if both is False and any(any(o_ in k_ for o_ in (" == ", " != ", "<", ">")) for k_ in (cx or {})):
                            ob3.unknown("%s %s: whether the +1 and -1 statements of %s can hold together depends on comparisons that are not independent - not decided" % (tag, side, tk_))
                        elif both is False:
                            ob3.refute("lost-count:%s:%s:%s" % (side, tk_, tag), "%s: %s is incremented under %s and decremented under %s by two separate statements: in a cycle where both "
                                       "hold only the later one takes effect and a count is lost - a completion or level test on it is off by one from then on" %
                                       (side, tk_, sorted(v.guard_keys(u_, False)), sorted(v.guard_keys(d_, False))), d_.loc)
        # ---- C14.4 ----
        for v, side in ((g, "generator"), (c, "checker")):
            RR = RG if v is g else RC
            units = {"base": "B", "end": "B", "length": "B", str(RR["addr"]) + ".o": "W"}
            for l_ in v.leaves:       # every up-counter of the core counts words
                if l_.kind == "nextvalue" and lin_eq(l_.value, Op("+", (l_.target, Const(1)))):
                    units[key(l_.target)] = "W"
            ashift_key = None
            lf = sink_addr_leaf(v, RR["dma"])
            if lf is None:
                ob4.unknown("%s %s: address assignment not found" % (tag, side))
                continue
            for t in subterms(lf.value):
                if isinstance(t, Op) and t.op == "slice" and key(t.args[0]) == "base":
                    ashift_key = key(t.args[1])
            if ashift_key is None:
                ob4.unknown("%s %s: base[ashift:] not found in the address term" % (tag, side))
                continue
            mask = RR["mask"]
            try:
                mu = unit(mask, ashift_key, units) if mask is not None else None
                au = unit(lf.value, ashift_key, units)
                ob4.instance("%s %s address units" % (tag, side), {"mask": key(mask) if mask is not None else None, "mask_unit": mu, "address_unit": au})
            except ValueError as e:
                ob4.instance("%s %s address units" % (tag, side), {"mask": key(mask) if mask is not None else None, "problem": str(e)})
                if tag == "native":
                    ob4.refute("addr-mask-unit:%s" % side, "%s: %s (mask = %s): with a port wider than one byte the masked word index spans %s times "
                               "the configured range, so the sequence leaves [base, end)" % (side, e, key(mask) if mask is not None else None,
                                                                                            "data_width/8"), lf.loc)
        # ---- C14.5 ----
        if tag == "native":
            dmas = [o for o in g.d.instances.values() if o.cls == "LiteDRAMDMAWriter"]
            dn = [l for l in g.leaves if l.kind == "assign" and key(l.target) == "done" and is1(l.value)]
            if ob5.need(len(dmas) == 1 and len(dn) == 1 and dn[0].fsm is not None, "generator DMA / done not found"):
                f = g.d.fsms[dn[0].fsm]
                ent = [l for l in g.fsm_leaves(f) if l.kind == "next" and isinstance(l.value, Const) and l.value.v == dn[0].state]
                gk = set()
                for l in ent:
                    gk |= g.guard_keys(l, False)
                buffered = dmas[0].kwargs.get("fifo_buffered", dmas[0].args[2] if len(dmas[0].args) > 2 else Const(False))
                ob5.instance("generator done entry", {"guards": sorted(gk), "dma fifo_buffered": key(buffered)})
                if "~%s.fifo.source.valid" % DG not in gk:
                    ob5.refute("done-before-drain", "the generator reaches its done state under %s without waiting for the DMA FIFO to drain" % sorted(gk), dn[0].loc)
                elif not (isinstance(buffered, Const) and not buffered.v):
                    ob5.refute("drain-test-buffered-fifo", "done waits for ~dma.fifo.source.valid but the DMA FIFO is built with fifo_buffered=%s: a "
                               "buffered FIFO shows source.valid low for one cycle after a push into an empty FIFO, so done can rise while the last "
                               "word is still inside" % key(buffered), dmas[0].loc)
    # ---- C14.6: the DMA engines the cores are built on ----
    ob6 = ctx.ob("C14.6", "a word the BIST core sees acknowledged is a word its DMA engine really issued: the DMA writer accepts (address, data) atomically and the "
                          "DMA reader returns exactly one word per accepted address (shared with C12.1-C12.4)", 10)
    share(ctx, ob6, "C12", ("C12.1", "C12.2", "C12.3", "C12.4"))
    # ---- C14.7: every run restarts the sequences ----
    ob7 = ctx.ob("C14.7", "restart: the cores are wrapped in ResetInserter and every sequence register (LFSR state, counters) is either resettable or "
                          "re-initialised with a constant under `start`: a reset_less register keeps its value across runs, so generator and checker "
                          "sequences drift apart as soon as the two have processed a different number of words", 6)
    import ast as _ast
    bm = ctx.repo.module(BIST)
    for cname in ("_LiteDRAMBISTGenerator", "_LiteDRAMBISTChecker"):
        cn = bm.classes.get(cname)
        decos = [_ast.unparse(d) for d in cn.decorator_list] if cn is not None else []
        ob7.instance("%s decorators" % cname, decos)
        if not any(d.startswith("ResetInserter") for d in decos):
            ob7.refute("no-reset-inserter:%s" % cname, "%s is not wrapped in ResetInserter: the reset issued before a run does not reach its sequence generators" % cname, None)
    g, c = views(ctx, NATIVE)
    for v, side in ((g, "generator"), (c, "checker")):
        regs = {}
        for l in v.leaves:
            if (l.domain.startswith("sync") or l.kind == "nextvalue") and isinstance(l.target, Obj) and l.target.cls == "Signal":
                regs.setdefault(key(l.target), (l.target, []))[1].append(l)
            elif (l.domain.startswith("sync") or l.kind == "nextvalue") and isinstance(l.target, Op) and l.target.op in ("slice", "index") and isinstance(l.target.args[0], Obj):
                regs.setdefault(key(l.target.args[0]), (l.target.args[0], []))[1].append(l)
        own = {k: x for k, x in regs.items() if not k.startswith(roles(v)["dma"] + ".")}
        for k, (o, ls) in sorted(own.items()):
            rl = o.kwargs.get("reset_less")
            is_rl = isinstance(rl, Const) and bool(rl.v)
            reinit = any(isinstance(l.value, Const) and "start" in v.guard_keys(l) for l in ls)
            ob7.instance("%s register %s" % (side, k), {"reset_less": is_rl, "re-initialised under start": reinit})
            if is_rl and not reinit:
                ob7.refute("reset-less:%s:%s" % (side, k), "%s: register %s is reset_less and never re-initialised under `start`: the reset pulse before a run does not "
                           "bring it back to the start of the sequence" % (side, k), o.loc)
    ctx.assume("over a memory that stores faithfully; LFSR/counter primitives themselves (n_state, taps) are compared, not analysed")
