"""C17 - generated initialisation: encoding tables, field layout (bit provenance of the MR terms), burst length,
write-recovery provenance, C / Python emitter agreement."""
import ast
import json
import os

from ..ruleutil import *
from ..elab import eval_function
from ..elab import Elab
from ..report import VERIF

INIT = "litedram.init"
FUNCS = {"SDR": "get_sdr_phy_init_sequence", "DDR": "get_ddr_phy_init_sequence", "LPDDR": "get_lpddr_phy_init_sequence",
         "DDR2": "get_ddr2_phy_init_sequence", "DDR3": "get_ddr3_phy_init_sequence", "DDR4": "get_ddr4_phy_init_sequence"}
NOATTR = {"phy_settings.rtt_nom": False, "phy_settings.rtt_wr": False, "phy_settings.ron": False, "phy_settings.tdqs": False}


def ref():
    with open(os.path.join(VERIF, "refdata", "mode_registers.json")) as f:
        return json.load(f)


def dict_literals(fnode):
    """name -> {key: value} for every `name = {literal dict}` inside a function (incl. nested defs)"""
    out = {}
    for n in ast.walk(fnode):
        if isinstance(n, ast.Assign) and isinstance(n.value, ast.Dict) and len(n.targets) == 1 and isinstance(n.targets[0], ast.Name):
            try:
                d = {str(ast.literal_eval(k)): ast.literal_eval(v) for k, v in zip(n.value.keys, n.value.values)}
            except Exception:
                continue
            out[n.targets[0].id] = (d, n.lineno)
    return out


# ---- bit provenance of a mode-register term -----------------------------------------------------------------

def role_of(t):
    s = " ".join(sorted(support(t)))
    if "fine_refresh" in s:
        return "FGR"
    if "tWTR" in s or "tWR" in s:
        return "WR"
    if "cwl" in s:
        return "CWL"
    if ".cl" in s or s.endswith("cl"):
        return "CL"
    if "nphases" in s or "bl" in s:
        return "BL"
    return None


class Prov:
    def __init__(self):
        self.bits = {}          # position -> set of (role, code bit) | ("1",)
        self.conflicts = []
        self.unknown = []
        self.widths = {}


def prov(t, P, shift=0, mask=None):
    """accumulate into P the bit sources of term t shifted left by `shift`, restricted to `mask` (set of code bits kept)"""
    if isinstance(t, Const) and isinstance(t.v, int):
        v = t.v
        i = 0
        while v >> i:
            if (v >> i) & 1 and (mask is None or i in mask):
                _put(P, i + shift, ("1",))
            i += 1
        return
    if isinstance(t, Op):
        if t.op in ("|", "+") and len(t.args) == 2:
            prov(t.args[0], P, shift, mask)
            prov(t.args[1], P, shift, mask)
            return
        if t.op == "<<" and isinstance(t.args[1], Const) and mask is None:
            prov(t.args[0], P, shift + t.args[1].v, None)
            return
        if t.op == "&" and isinstance(t.args[1], Const) and isinstance(t.args[1].v, int) and _atomish(_strip_shift(t.args[0])[0]):
            base, down = _strip_shift(t.args[0])
            m = t.args[1].v
            keep = {i for i in range(32) if (m >> i) & 1}
            _atom(base, P, shift, down, keep)
            return
        if t.op == ">>" and isinstance(t.args[1], Const) and _atomish(t.args[0]) and mask is None:
            _atom(t.args[0], P, shift, t.args[1].v, None)
            return
    if _atomish(t):
        _atom(t, P, shift, 0, mask)
        return
    P.unknown.append(key(t)[:120])


def _strip_shift(t):
    if isinstance(t, Op) and t.op == ">>" and isinstance(t.args[1], Const):
        return t.args[0], t.args[1].v
    return t, 0


def _atomish(t):
    if isinstance(t, (Sym, Obj)):
        return True
    if isinstance(t, Op) and t.op == "index" and isinstance(t.args[0], DictV):
        return True
    if isinstance(t, Op) and t.op in ("-", "log2_int") and role_of(t) is not None:
        return True
    return False


def _atom(t, P, shift, down, keep):
    role = role_of(t)
    if role is None:
        P.unknown.append(key(t)[:120])
        return
    if isinstance(t, Op) and t.op == "index" and isinstance(t.args[0], DictV):
        vals = [v.v for k, v in t.args[0].items if isinstance(v, Const) and isinstance(v.v, int)]
        width = max([x.bit_length() for x in vals] + [1])
    else:
        width = P.widths.get(role, 3)
    P.widths[role] = max(P.widths.get(role, 0), width)
    for cb in range(width):
        j = cb - down
        if j < 0:
            continue
        if keep is not None and j not in keep:
            continue
        _put(P, shift + j, (role, cb))


def _put(P, pos, src):
    cur = P.bits.setdefault(pos, set())
    if cur and src not in cur:
        P.conflicts.append((pos, sorted(map(str, cur | {src}))))
    cur.add(src)


# ---- obligations -------------------------------------------------------------------------------------------

def run(ctx):
    R = ref()
    m = ctx.repo.module(INIT)
    if m is None:
        raise AnalysisError("C17", "litedram/init.py vanished")
    ob1 = ctx.ob("C17.1", "the mode-register encoding tables of init.py (CL/WR/BL/CWL/fine-refresh/tCCD/termination) equal the JEDEC reference "
                          "tables in refdata/mode_registers.json entry by entry", 10)
    ob2 = ctx.ob("C17.2", "field layout: bit provenance of every Load-Mode-Register term - each code bit of BL/CL/WR/CWL/fine-refresh lands on its "
                          "JEDEC bit position, fields do not overlap, table codes fit their field", 8)
    ob3 = ctx.ob("C17.3", "burst length programmed = the burst length the controller assumes (common.burst_lengths, SDR: nphases); every CL/CWL of "
                          "the default tables has an encoding", 8)
    ob4 = ctx.ob("C17.4", "write recovery programmed into MR0 is derived from the controller's tWR (timing_settings.tWR), as the adjacent comment "
                          "states (>= ceiling(tWR/tCK))", 2)
    ob5 = ctx.ob("C17.5", "the C and Python emitters render the same sequence: same DFII_* constants (equal to the CSR field order of dfii.py), the "
                          "RDIMM inversion mask list is rebuilt per command in both, with the same mask and the same `ba != 7` exemption", 5)
    # ---- C17.1 tables ----
    for fname, tabs in R["tables"].items():
        fn = m.functions.get(fname)
        if not ob1.need(fn is not None, "%s vanished" % fname):
            continue
        lits = dict_literals(fn)
        for tname, exp in tabs.items():
            if tname not in lits:
                continue    # renamed or folded: the role-based comparison below covers CL / WR / CWL / fine-refresh
            got, line = lits[tname]
            bad = {k: (v, exp.get(k)) for k, v in got.items() if k in exp and exp[k] != v}
            extra = sorted(k for k in got if k not in exp)
            ob1.instance("%s.%s" % (fname, tname), {"entries": len(got), "checked": len([k for k in got if k in exp]), "unreferenced": extra})
            for k, (v, e) in bad.items():
                ob1.refute("table:%s.%s[%s]" % (fname, tname, k), "%s: %s[%s] = %s, the JEDEC encoding is %s" % (fname, tname, k, bin(v) if isinstance(v, int) else v, bin(e)),
                           (m.rel(), line))
            if extra and tname in ("cl_to_mr0", "wr_to_mr0", "cwl_to_mr2"):
                ob1.refute("table-extra:%s.%s" % (fname, tname), "%s: %s has entries %s that the reference does not define" % (fname, tname, extra), (m.rel(), line))
            dup = [v for v in set(got.values()) if list(got.values()).count(v) > 1]
            if dup and tname.endswith(("mr0", "mr2", "mr3", "mr6")):
                ob1.refute("table-dup:%s.%s" % (fname, tname), "%s: %s maps two settings to the same code %s" % (fname, tname, dup), (m.rel(), line))
    # ---- symbolic evaluation of every sequence ----
    seqs = {}
    for mt, fname in FUNCS.items():
        el = Elab(ctx.repo, hasattrs=NOATTR, overrides={"phy_settings.is_rdimm": Const(False), "phy_settings.memtype": Const(mt)})
        env = el.modenv(INIT)
        f = env.vars.get(fname)
        if f is None:
            ob2.unknown("%s vanished" % fname)
            continue
        try:
            r = el.call_func(f, [Sym("phy_settings"), Sym("timing_settings")], {})
        except Exception as e:
            ob2.unknown("%s: symbolic evaluation failed (%s)" % (fname, e))
            continue
        ctx.stat("functions_evaluated")
        seq = r.items[0] if isinstance(r, ListV) and r.items and isinstance(r.items[0], ListV) else None
        if seq is None:
            ob2.unknown("%s: init sequence is not a literal list" % fname)
            continue
        seqs[mt] = (fname, seq)
    MRCMD = MRCMD0 = "DFII_COMMAND_RAS|DFII_COMMAND_CAS|DFII_COMMAND_WE|DFII_COMMAND_CS"
    # ---- electrical settings (second evaluation, with the optional attributes present): whatever a termination / drive-strength option is set to,
    #      it may only move the bits JEDEC gives to termination and drive strength - never a latency or mode field the controller relies on
    ELEC_OK = {"DDR2": {1: {1, 2, 6}}, "DDR3": {1: {1, 5, 2, 6, 9, 11}, 2: {9, 10}}, "DDR4": {1: {1, 2, 8, 9, 10, 11}, 2: {9, 10, 11}, 5: {6, 7, 8}}}
    ELEC_ATTR = {k_: True for k_ in NOATTR}
    for mt in ("DDR2", "DDR3", "DDR4"):
        fname = FUNCS[mt]
        el = Elab(ctx.repo, hasattrs=ELEC_ATTR, overrides={"phy_settings.is_rdimm": Const(False), "phy_settings.memtype": Const(mt)})
        f = el.modenv(INIT).vars.get(fname)
        if f is None:
            continue
        try:
            r = el.call_func(f, [Sym("phy_settings"), Sym("timing_settings")], {})
        except Exception as e:
            ob2.instance("%s electrical settings" % mt, "not evaluated (%s)" % type(e).__name__)
            continue
        seq = r.items[0] if isinstance(r, ListV) and r.items and isinstance(r.items[0], ListV) else None
        if seq is None:
            continue
        for e in seq.items:
            if not (isinstance(e, ListV) and len(e.items) == 5):
                continue
            comment, a, ba, cmd, delay = e.items
            if not (isinstance(cmd, Const) and cmd.v == MRCMD0 and isinstance(ba, Const)):
                continue
            atoms = {}
            for t in subterms(a):
                if isinstance(t, Op) and t.op == "index" and isinstance(t.args[0], DictV) and any(x in NOATTR for x in support(t.args[1])):
                    atoms[key(t)] = (t, sorted({v_.v for _, v_ in t.args[0].items if isinstance(v_, Const) and isinstance(v_.v, int)}))
                elif isinstance(t, Sym) and t.path in NOATTR and not any(key(t) in k_ for k_ in atoms):
                    atoms[key(t)] = (t, [0, 1])
            for ak, (at, vals) in sorted(atoms.items()):
                def ival(t, v):
                    if key(t) == ak:
                        return v
                    if isinstance(t, Const):
                        return int(t.v) if isinstance(t.v, (int, bool)) else 0
                    if isinstance(t, Op) and len(t.args) == 2 and t.op in ("|", "+", "<<", ">>", "&", "^", "*", "-"):
                        x, y = ival(t.args[0], v), ival(t.args[1], v)
                        return {"|": x | y, "+": x + y, "<<": x << min(y, 40), ">>": x >> min(y, 40), "&": x & y, "^": x ^ y, "*": x * y, "-": max(x - y, 0)}[t.op]
                    return 0
                outs = {v: ival(a, v) for v in vals}
                moved = 0
                for v in vals:
                    moved |= outs[v] ^ outs[vals[0]]
                pos = {i for i in range(20) if (moved >> i) & 1}
                ok_ = ELEC_OK.get(mt, {}).get(ba.v, set())
                ob2.instance("%s MR%d: bits moved by %s" % (mt, ba.v, ak[:60]), {"bits": sorted(pos), "termination / drive bits": sorted(ok_)}, nontrivial=True)
                if pos - ok_:
                    w_ = [v for v in vals if (outs[v] ^ outs[vals[0]]) & sum(1 << i for i in pos - ok_)][0]
                    ob2.refute("electrical-misplaced:%s:MR%d" % (mt, ba.v), "%s MR%d: the setting %s moves bit(s) %s (e.g. code %s gives 0x%x), which JEDEC does not give to termination / drive "
                               "strength: a latency or mode field the controller assumes fixed changes with an electrical option" %
                               (mt, ba.v, ak[:80], sorted(pos - ok_), bin(w_), outs[w_]), None)
    ROLE_TAB = {"CL": "cl_to_mr0", "WR": "wr_to_mr0", "CWL": "cwl_to_mr2", "FGR": "fine_refresh_mode_to_mr3"}
    for mt, (fname, seq) in seqs.items():
        reft = R["tables"].get(fname)
        if not reft:
            continue
        seen_roles = set()
        for e in seq.items:
            if not (isinstance(e, ListV) and len(e.items) == 5):
                continue
            for t in subterms(e.items[1]):
                if isinstance(t, Op) and t.op == "index" and isinstance(t.args[0], DictV):
                    role = role_of(t)
                    if role in ROLE_TAB and ROLE_TAB[role] in reft and (role, id(t.args[0])) not in seen_roles:
                        seen_roles.add((role, id(t.args[0])))
                        got = {str(k.v): v.v for k, v in t.args[0].items if isinstance(k, Const) and isinstance(v, Const)}
                        exp = reft[ROLE_TAB[role]]
                        bad = {k: (v, exp[k]) for k, v in got.items() if k in exp and exp[k] != v}
                        extra = sorted(k for k in got if k not in exp)
                        ob1.instance("%s %s encoding table (by role)" % (mt, role), {"entries": len(got), "unreferenced": extra})
                        for k, (v, ev) in bad.items():
                            ob1.refute("role-table:%s:%s[%s]" % (mt, role, k), "%s: the %s code for %s is %s, the JEDEC encoding is %s" % (mt, role, k, bin(v), bin(ev)), None)
                        if extra:
                            ob1.refute("role-table-extra:%s:%s" % (mt, role), "%s: the %s table has entries %s that the reference does not define" % (mt, role, extra), None)
        need = {"DDR3": {"CL", "WR"}, "DDR4": {"CL", "WR", "CWL", "FGR"}}.get(mt, set())
        for r_ in sorted(need - {x for x, _ in seen_roles}):
            ob1.unknown("%s: no %s encoding table found in the mode-register terms" % (mt, r_))
    for mt, (fname, seq) in seqs.items():
        lay = R["layouts"].get(fname, {})
        seen_roles = set()
        mr_terms = {}
        for e in seq.items:
            if not (isinstance(e, ListV) and len(e.items) == 5):
                continue
            comment, a, ba, cmd, delay = e.items
            if not (isinstance(cmd, Const) and cmd.v == MRCMD and isinstance(ba, Const)):
                continue
            P = Prov()
            prov(a, P)
            exp = lay.get(str(ba.v), {})
            fields = {}
            for pos, srcs in P.bits.items():
                for s in srcs:
                    if s != ("1",):
                        fields.setdefault(s[0], {})[s[1]] = pos
            ob2.instance("%s MR%d" % (mt, ba.v), {"term": key(a)[:160], "fields": {r_: [p for c, p in sorted(d.items())] for r_, d in fields.items()},
                                                   "const_bits": sorted(p for p, s in P.bits.items() if ("1",) in s)})
            mr_terms[str(ba.v)] = a
            for u in P.unknown:
                ob2.unknown("%s MR%d: sub-term not understood: %s" % (mt, ba.v, u))
            for pos, who in P.conflicts:
                ob2.refute("overlap:%s:MR%d:bit%d" % (mt, ba.v, pos), "%s MR%d: bit %d is driven by %s (fields overlap)" % (mt, ba.v, pos, who), None)
            for role, d in fields.items():
                seen_roles.add((str(ba.v), role))
                if role not in exp:
                    ob2.refute("unexpected-field:%s:MR%d:%s" % (mt, ba.v, role), "%s MR%d carries a %s field at bits %s; the reference layout has none there" %
                               (mt, ba.v, role, sorted(d.values())), None)
                    continue
                want = exp[role]
                for cb, pos in sorted(d.items()):
                    if cb >= len(want):
                        ob2.refute("overflow:%s:MR%d:%s" % (mt, ba.v, role), "%s MR%d: %s code bit %d does not fit the %d-bit field" % (mt, ba.v, role, cb, len(want)), None)
                    elif want[cb] != pos:
                        ob2.refute("misplaced:%s:MR%d:%s[%d]" % (mt, ba.v, role, cb), "%s MR%d: %s code bit %d lands on bit %d, JEDEC position is %d" %
                                   (mt, ba.v, role, cb, pos, want[cb]), None)
        for bank, roles in lay.items():
            for role in roles:
                if (bank, role) not in seen_roles and role not in ("BL",) and not (mt == "DDR2" and role == "WR"):
                    # a field computed arithmetically instead of through an encoding table is not found by table role: if the register term still depends on the
                    # quantity the field encodes, its placement is simply not decided here
                    qty = {"CL": ("cl",), "CWL": ("cwl",), "WR": ("wr", "tWR", "tWTR"), "FGR": ("fine_refresh",)}.get(role, ())
                    sup_ = " ".join(sorted(support(mr_terms[bank]))) if bank in mr_terms else ""
                    if bank in mr_terms and any(q_ in sup_ for q_ in qty):
                        ob2.unknown("%s MR%s: the %s field is not programmed through an encoding table (the register term is %s): its placement is not decided" %
                                    (mt, bank, role, key(mr_terms[bank])[:120]))
                    else:
                        ob2.refute("missing-field:%s:MR%s:%s" % (mt, bank, role), "%s MR%s: no %s field is programmed" % (mt, bank, role), None)
    # ---- C17.3 burst length ----
    el = Elab(ctx.repo)
    cenv = el.modenv("litedram.common")
    bl_tab = cenv.vars.get("burst_lengths")
    bl_common = {k.v: v.v for k, v in bl_tab.items} if isinstance(bl_tab, DictV) else {}
    for mt, fname in FUNCS.items():
        fn = m.functions.get(fname)
        if fn is None:
            continue
        asg = [n for n in fn.body if isinstance(n, ast.Assign) and any(isinstance(t, ast.Name) and t.id == "bl" for t in n.targets)]
        if not ob3.need(len(asg) == 1, "%s: `bl = ...` not found" % fname):
            continue
        el2 = Elab(ctx.repo, overrides={"phy_settings.memtype": Const(mt)})
        env2 = el2.modenv(INIT)
        from ..elab import Env
        v = el2.ev(asg[0].value, Env(env2))
        want = R["burst_lengths"][mt]
        ob3.instance("%s burst length" % mt, {"init.py": key(v), "controller": want, "common.burst_lengths": bl_common.get(mt)})
        if want == "nphases":
            if key(v) != "phy_settings.nphases":
                ob3.refute("bl:%s" % mt, "%s: the mode register is programmed with BL=%s but the controller's address alignment assumes a burst of "
                           "nphases beats (half-rate SDR moves 2 beats per command)" % (mt, key(v)), (m.rel(), asg[0].lineno))
        else:
            if not (isinstance(v, Const) and v.v == want):
                ob3.refute("bl:%s" % mt, "%s: BL is programmed as %s, controller and common.burst_lengths use %s" % (mt, key(v), want), (m.rel(), asg[0].lineno))
            if bl_common.get(mt) != want:
                ob3.refute("bl-common:%s" % mt, "common.burst_lengths[%s] = %s, expected %s" % (mt, bl_common.get(mt), want), None)
    # default CL/CWL coverage
    cm = ctx.repo.module("litedram.common")
    dfn = cm.functions.get("get_default_cl_cwl")
    if ob3.need(dfn is not None, "common.get_default_cl_cwl vanished"):
        # the function is evaluated with a symbolic tck: every (cl, cwl) pair it can return, whatever shape the table has in the source
        pairs = {}
        for mt in ("SDR", "DDR2", "DDR3", "DDR4"):
            try:
                r_, _ = eval_function(ctx.repo, "litedram.common", "get_default_cl_cwl", [Const(mt), Sym("tck")])
            except Exception:
                r_ = None
            for t_ in subterms(r_) if r_ is not None else ():
                if isinstance(t_, ListV) and len(t_.items) == 2 and all(isinstance(x, Const) for x in t_.items):
                    pr = (t_.items[0].v, t_.items[1].v)
                    if pr not in pairs.setdefault(mt, []):
                        pairs[mt].append(pr)
        if not ob3.need(len(pairs) == 4, "default CL/CWL table not resolved for every memory type (%s)" % sorted(pairs)):
            pairs = {}
        for mt, pl in pairs.items():
            fname = FUNCS.get(mt)
            lits = dict_literals(m.functions[fname]) if fname in m.functions else {}
            for cl, cwl in pl:
                ok = True
                why = ""
                if "cl_to_mr0" in lits and str(cl) not in lits["cl_to_mr0"][0]:
                    ok, why = False, "CL=%d has no MR0 encoding" % cl
                if "cwl_to_mr2" in lits and cwl is not None and str(cwl) not in lits["cwl_to_mr2"][0]:
                    ok, why = False, "CWL=%d has no MR2 encoding" % cwl
                if mt == "DDR3" and cwl is not None and not (5 <= cwl <= 12):
                    ok, why = False, "CWL=%d outside the 3-bit CWL-5 field" % cwl
                if mt in ("SDR", "DDR", "LPDDR", "DDR2") and not (0 < cl < 8):
                    ok, why = False, "CL=%d outside the 3-bit field" % cl
                if not ok:
                    ob3.refute("default:%s:%s/%s" % (mt, cl, cwl), "default latency pair (%s, %s) of %s: %s" % (cl, cwl, mt, why), (cm.rel(), dfn.lineno))
            ob3.instance("%s default CL/CWL pairs" % mt, pl)
    # ---- C17.4 write recovery provenance ----
    for mt in ("DDR3", "DDR4"):
        if mt not in seqs:
            continue
        fname, seq = seqs[mt]
        for e in seq.items:
            if isinstance(e, ListV) and len(e.items) == 5 and isinstance(e.items[2], Const) and e.items[2].v == 0 and isinstance(e.items[3], Const) and e.items[3].v == MRCMD:
                wr_atoms = [t for t in subterms(e.items[1]) if isinstance(t, Op) and t.op == "index" and isinstance(t.args[0], DictV) and role_of(t) == "WR"]
                if not ob4.need(bool(wr_atoms), "%s: WR table lookup not found in MR0" % mt):
                    continue
                idx = wr_atoms[0].args[1]
                sup = support(idx)
                ob4.instance("%s MR0 write recovery index" % mt, key(idx))
                if not any(s.endswith(".tWR") for s in sup):
                    ob4.refute("wr-provenance:%s" % mt, "%s: the write-recovery code is looked up with %s, which does not depend on the controller's tWR "
                               "(the comment says >= ceiling(tWR/tCK)): for faster speed grades the programmed WR is shorter than the datasheet tWR" %
                               (mt, key(idx)), (m.rel(), m.functions[fname].lineno), {"index": key(idx)})
    # ---- C17.5 emitters ----
    cf, pf = m.functions.get("get_sdram_phy_c_header"), m.functions.get("get_sdram_phy_py_header")
    if ob5.need(cf is not None and pf is not None, "header emitters vanished"):
        cdefs = {}
        for n in ast.walk(cf):
            if isinstance(n, ast.Call) and isinstance(n.func, ast.Attribute) and n.func.attr == "define" and len(n.args) == 2 and \
                    isinstance(n.args[0], ast.Constant) and isinstance(n.args[1], ast.Constant) and str(n.args[0].value).startswith("DFII_C"):
                try:
                    cdefs[n.args[0].value.lower()] = int(str(n.args[1].value), 0)
                except ValueError:
                    pass
        pdefs = {}
        for n in ast.walk(pf):
            if isinstance(n, ast.Constant) and isinstance(n.value, str) and n.value.startswith("dfii_") and "=" in n.value:
                k_, v_ = n.value.split("=")
                try:
                    pdefs[k_.strip()] = int(v_.strip(), 0)
                except ValueError:
                    pass
        want = {"dfii_control_" + k: v for k, v in R["dfii"]["control"].items()}
        want.update({"dfii_command_" + k: v for k, v in R["dfii"]["command"].items()})
        ob5.instance("C header DFII constants", cdefs)
        ob5.instance("Python header DFII constants", pdefs)
        for k, v in cdefs.items():
            if want.get(k) != v:
                ob5.refute("c-const:%s" % k, "C header defines %s = %#x, the CSR field is at %s" % (k.upper(), v, hex(want[k]) if k in want else "?"), (m.rel(), cf.lineno))
        for k, v in pdefs.items():
            if want.get(k) != v:
                ob5.refute("py-const:%s" % k, "Python header defines %s = %#x, the CSR field is at %s" % (k, v, hex(want[k]) if k in want else "?"), (m.rel(), pf.lineno))
            if k in cdefs and cdefs[k] != v:
                ob5.refute("c-py-const:%s" % k, "C and Python headers disagree on %s (%#x / %#x)" % (k, cdefs[k], v), (m.rel(), pf.lineno))
        for k in ("dfii_command_cs", "dfii_command_we", "dfii_command_cas", "dfii_command_ras", "dfii_control_sel", "dfii_control_cke", "dfii_control_odt", "dfii_control_reset_n"):
            if k not in cdefs or k not in pdefs:
                ob5.refute("const-missing:%s" % k, "%s is not defined by both emitters" % k, None)
        # dfii.py CSR field order
        dm = ctx.repo.module("litedram.dfii")
        if ob5.need(dm is not None, "dfii.py vanished"):
            order = {}
            for n in ast.walk(dm.tree):
                if isinstance(n, ast.Assign) and isinstance(n.value, ast.Call) and any(isinstance(t, ast.Attribute) and t.attr in ("_command", "_control") for t in n.targets):
                    reg = [t.attr for t in n.targets if isinstance(t, ast.Attribute)][0]
                    for kw in n.value.keywords:
                        if kw.arg == "fields" and isinstance(kw.value, ast.List):
                            names = [c.args[0].value for c in kw.value.elts if isinstance(c, ast.Call) and c.args and isinstance(c.args[0], ast.Constant)]
                            order[reg] = names
            al = R["dfii"]["csr_aliases"]
            ob5.instance("dfii.py CSR field order", order)
            for reg, pre in (("_command", "command"), ("_control", "control")):
                for i, nm in enumerate(order.get(reg, [])):
                    nm2 = al.get(nm, nm)
                    if R["dfii"][pre].get(nm2) != 1 << i:
                        ob5.refute("csr-field:%s.%s" % (reg, nm), "dfii.py places %s.%s at bit %d, the headers use %s" % (reg, nm, i, R["dfii"][pre].get(nm2)), (dm.rel(), 0))
            if not order.get("_command") or not order.get("_control"):
                ob5.unknown("CSR field lists of dfii.py not found")
        # loop structure
        shapes = {}
        for nm, fn in (("C", cf), ("Python", pf)):
            loops = [n for n in ast.walk(fn) if isinstance(n, ast.For) and isinstance(n.iter, ast.Name) and n.iter.id == "init_sequence"]
            if not ob5.need(len(loops) == 1, "%s emitter: loop over init_sequence not found" % nm):
                continue
            lp = loops[0]
            # the list of (address, bank) XOR masks a command is sent with: a local rebuilt in the loop body, or the result of a helper that builds
            # a fresh list on every call (either way: a new list per command)
            inner = [n for n in lp.body if isinstance(n, ast.For) and isinstance(n.iter, (ast.Name, ast.Call))]
            scope = lp
            body_ = lp.body
            mv = "invert_masks"
            if inner and isinstance(inner[0].iter, ast.Name):
                mv = inner[0].iter.id
            elif inner and isinstance(inner[0].iter, ast.Call) and isinstance(inner[0].iter.func, ast.Name) and inner[0].iter.func.id in m.functions:
                hf = m.functions[inner[0].iter.func.id]
                rets = [n for n in ast.walk(hf) if isinstance(n, ast.Return) and isinstance(n.value, ast.Name)]
                if rets:
                    mv = rets[0].value.id
                    scope = hf
                    body_ = hf.body
            reinit = [s for s in body_ if isinstance(s, ast.Assign) and any(isinstance(t, ast.Name) and t.id == mv for t in s.targets) and isinstance(s.value, (ast.List, ast.Tuple))]
            appended = [ast.literal_eval(c.args[0]) for c in ast.walk(scope) if isinstance(c, ast.Call) and isinstance(c.func, ast.Attribute) and c.func.attr == "append"
                        and isinstance(c.func.value, ast.Name) and c.func.value.id == mv and c.args and isinstance(c.args[0], ast.Tuple)]
            exempt = [ast.unparse(c) for c in ast.walk(scope) if isinstance(c, ast.Compare) and isinstance(c.left, ast.Name) and c.left.id == "ba"]
            init_val = ast.literal_eval(reinit[0].value) if reinit else None
            if init_val is not None:
                init_val = [tuple(x) for x in init_val]
            shapes[nm] = {"reinit_per_command": bool(reinit), "init": init_val, "appended": appended, "exemption": exempt}
            ob5.instance("%s emitter loop" % nm, shapes[nm])
            if not reinit:
                ob5.refute("masks-not-reset:%s" % nm, "the %s emitter does not rebuild invert_masks for every command: masks appended for one command leak "
                           "into all later commands (RDIMM: RCD words re-sent inverted, mode registers written repeatedly)" % nm, (m.rel(), lp.lineno))
        if len(shapes) == 2 and shapes["C"]["reinit_per_command"] and shapes["Python"]["reinit_per_command"]:
            for k_ in ("init", "appended", "exemption"):
                if shapes["C"][k_] != shapes["Python"][k_]:
                    ob5.refute("emitters-differ:%s" % k_, "C and Python emitters differ in %s: %s vs %s" % (k_, shapes["C"][k_], shapes["Python"][k_]), None)
    lpddr5_frange(ctx, m)
    phy_wrappers(ctx)
    ctx.assume("reference tables in /verif/refdata/mode_registers.json were transcribed by hand from the JEDEC documents cited there")


def lpddr5_frange(ctx, m):
    ob6 = ctx.ob("C17.6", "LPDDR5: the frequency-range row whose MR / nWR codes are programmed into MR1 / MR2 is selected by BOTH latencies the PHY operates with "
                          "(WL from phy_settings.cwl and RL from phy_settings.cl), and that pair identifies exactly one row of the JEDEC table for each WCK:CK "
                          "ratio - a lookup on one latency alone returns the first, slower row that shares it", 3)
    fn = m.functions.get("get_lpddr5_phy_init_sequence")
    bp = ctx.repo.module("litedram.phy.lpddr5.basephy")
    if not ob6.need(fn is not None and bp is not None, "LPDDR5 init generator / basephy vanished"):
        return
    # which local comes from which PHY setting
    origin = {}
    for n in ast.walk(fn):
        if isinstance(n, ast.Assign) and len(n.targets) == 1 and isinstance(n.targets[0], ast.Name) and isinstance(n.value, ast.Attribute) \
                and isinstance(n.value.value, ast.Name) and n.value.value.id == "phy_settings":
            origin[n.targets[0].id] = n.value.attr
    # the row selection: a loop over FREQUENCY_RANGES[...] with a comparison of row fields against those locals
    fields = {}
    sets = {}
    for loop in [n for n in ast.walk(fn) if isinstance(n, ast.For)]:
        if "FREQUENCY_RANGES" not in ast.unparse(loop.iter):
            continue
        for c in ast.walk(loop):
            if isinstance(c, ast.Compare) and len(c.ops) == 1 and isinstance(c.ops[0], ast.Eq):
                for a, b in ((c.left, c.comparators[0]), (c.comparators[0], c.left)):
                    if isinstance(a, ast.Attribute) and isinstance(b, (ast.Name, ast.Attribute)):
                        src = origin.get(b.id) if isinstance(b, ast.Name) else (b.attr if isinstance(b.value, ast.Name) and b.value.id == "phy_settings" else None)
                        if src:
                            fields[a.attr] = src
            if isinstance(c, ast.Call) and isinstance(c.func, ast.Attribute) and c.func.attr == "for_set":
                for kw in c.keywords:
                    if isinstance(kw.value, ast.Constant):
                        sets[kw.arg] = kw.value.value
    ob6.instance("row selection compares", fields)
    if not ob6.need(bool(fields), "row selection loop over FREQUENCY_RANGES not found in get_lpddr5_phy_init_sequence"):
        return
    # the table
    cls = bp.classes.get("FreqRange")
    order = [b.target.id for b in cls.body if isinstance(b, ast.AnnAssign) and isinstance(b.target, ast.Name)] if cls is not None else []
    table = None
    for n in bp.tree.body:
        if isinstance(n, ast.Assign) and any(isinstance(t, ast.Name) and t.id == "FREQUENCY_RANGES" for t in n.targets) and isinstance(n.value, ast.Dict):
            table = n.value
    if not ob6.need(table is not None and bool(order), "FREQUENCY_RANGES / FreqRange not found in basephy"):
        return
    wl_i = {"A": 0, "B": 1}.get(sets.get("wl_set", "A"), 0)
    rl_i = sets.get("rl_set", 0) if isinstance(sets.get("rl_set", 0), int) else 0
    for k, v in zip(table.keys, table.values):
        ratio = ast.literal_eval(k)
        rows = []
        for call in v.elts:
            try:
                vals = [ast.literal_eval(a) for a in call.args]
            except Exception:
                ob6.unknown("ratio %s: a table row is not a literal" % ratio)
                return
            rows.append(dict(zip(order, vals)))
        seen = {}
        for i, r_ in enumerate(rows):
            proj = tuple((f_, (r_[f_][wl_i if f_ == "wl" else rl_i] if isinstance(r_.get(f_), tuple) else r_.get(f_))) for f_ in sorted(fields))
            if proj in seen and (rows[seen[proj]]["mr"], rows[seen[proj]]["n_wr_op"]) != (r_["mr"], r_["n_wr_op"]):
                ob6.refute("frange-ambiguous:%s" % ratio, "WCK:CK %s:1: rows %d and %d of FREQUENCY_RANGES agree on %s but carry different MR / nWR codes (%s vs %s): the first "
                           "one wins, so the faster range is initialised with the slower range's read latency and write recovery" %
                           (ratio, seen[proj], i, dict(proj), (rows[seen[proj]]["mr"], rows[seen[proj]]["n_wr_op"]), (r_["mr"], r_["n_wr_op"])), (m.rel(), fn.lineno))
            seen.setdefault(proj, i)
        ob6.instance("WCK:CK %s:1 table" % ratio, {"rows": len(rows), "distinct keys": len(seen)})



def _simp_none(t):
    """fold `x is None` / `x is not None` where x is a join of non-None constants, and the if-expressions that test it"""
    if not isinstance(t, Op):
        return t
    a = tuple(_simp_none(x) for x in t.args)
    if t.op in ("is", "isnot") and len(a) == 2 and isinstance(a[1], Const) and a[1].v is None:
        leaves = []

        def arms(x):
            if isinstance(x, Op) and x.op in ("phi", "ifexp"):
                arms(x.args[1]); arms(x.args[2])
            else:
                leaves.append(x)
        arms(a[0])
        if leaves and all(isinstance(x, Const) and x.v is not None for x in leaves):
            return Const(t.op == "isnot")
        if leaves and all(isinstance(x, Const) and x.v is None for x in leaves):
            return Const(t.op == "is")
    if t.op in ("phi", "ifexp") and isinstance(a[0], Const) and isinstance(a[0].v, bool):
        return a[1] if a[0].v else a[2]
    return Op(t.op, a)


def phy_wrappers(ctx):
    """C17.7: a PHY that wraps another PHY (half-rate around full-rate, quarter-rate around half-rate) publishes in ITS PhySettings - which is what the
    initialisation code reads - the CAS (write) latency the INNER PHY really operates with."""
    import glob as _g
    ob7 = ctx.ob("C17.7", "a PHY built around another PHY publishes the same CL / CWL in its PhySettings as the inner PHY was built with (the init sequence programs the "
                          "published value into the mode register, the inner PHY times its data path with its own)", 1)
    root = ctx.repo.root if hasattr(ctx.repo, "root") else os.environ.get("LSA_REPO", "/repo")
    n = 0
    for f in sorted(_g.glob(os.path.join(root, "litedram", "phy", "*.py"))):
        src = open(f).read()
        if "PhySettings(" not in src:
            continue
        mod = "litedram.phy." + os.path.basename(f)[:-3]
        pm = ctx.repo.module(mod)
        if pm is None:
            continue
        for cname, cnode in pm.classes.items():
            seg = ast.get_source_segment(src, cnode) or ""
            if "PhySettings(" not in seg:
                continue
            init = [b for b in cnode.body if isinstance(b, ast.FunctionDef) and b.name == "__init__"]
            if not init:
                continue
            formals = [a.arg for a in init[0].args.args][1:]
            kw = {a_: (Const(None) if a_ in ("cl", "cwl") else Sym(a_)) for a_ in formals if a_ in ("sys_clk_freq", "cl", "cwl")}
            kw["pads"] = pobj("pads")
            try:
                v = elab(ctx, mod, cname, kwargs=kw)
            except Exception as e:       # a PHY the elaborator cannot read is no evidence either way
                ctx.notes.append("C17.7: %s.%s not elaborated (%s)" % (mod, cname, str(e)[:80]))
                continue
            own = [o for o in v.d.objs if o.cls == "PhySettings" and (o.path or "").count(".") == 0 and not (o.path or "").startswith(tuple(
                (i.path or "~") + "." for i in v.d.instances.values() if i.path))]
            inner = [o for o in v.d.objs if o.cls == "PhySettings" and o not in own]
            if len(own) != 1 or not inner:
                continue
            for io in inner:
                n += 1
                for fld in ("cl", "cwl"):
                    a_, b_ = own[0].kwargs.get(fld), io.kwargs.get(fld)
                    if a_ is None or b_ is None:
                        continue
                    ka, kb = key(_simp_none(a_)), key(_simp_none(b_))
                    ob7.instance("%s.%s around %s: %s" % (mod.split(".")[-1], cname, io.path, fld), {"published": ka[:160], "inner": kb[:160]})
                    if ka != kb:
                        ob7.refute("wrapper-%s:%s" % (fld, cname), "%s publishes %s = %s in its PhySettings but the PHY it wraps (%s) is built with %s = %s: for the clock range in "
                                   "which the two differ the mode register is programmed with one latency and the data path is timed with the other" %
                                   (cname, fld, ka[:200], io.path, fld, kb[:200]), own[0].loc)
    if n == 0:
        ob7.unknown("no PHY wrapper (a PHY class instantiating another PHY with its own PhySettings) found")
