"""C10 - Wishbone port: one acknowledge per access, abort handling, no stale cache / merge buffer, lane placement, addresses."""
from ..ruleutil import *

WB = "litedram.frontend.wishbone"
CYC, STB, WE, ACK = "wishbone.cyc", "wishbone.stb", "wishbone.we", "wishbone.ack"


def wb_view(ctx, bus, port):
    return elab(ctx, WB, "LiteDRAMWishbone2Native", kwargs={"wishbone": pobj("wishbone"), "port": pobj("port"), "base_address": Sym("base_address")},
                overrides={"len(wishbone.dat_w)": Const(bus), "len(port.wdata.data)": Const(port), "port.data_width": Const(port), "wishbone.addressing": Const("word"),
                           "len(wishbone.adr)": Const(30), "port.mode": Const("both")})


def idle_state(f):
    return f.reset_state


def ack_rules(ctx, ob, v, tag):
    fs = [f for f in v.fsms("")]
    if not ob.need(len(fs) == 1, "%s: bridge FSM not found" % tag):
        return None
    f = fs[0]
    idle = idle_state(f)
    edges, _ = fsm_graph(v, f)
    post = set()
    for s, d, l in edges:
        if "port.cmd.ready" in v.guard_keys(l, False) or "port.cmd.ready" in {k for k in v.guard_keys(l)}:
            post.add(d)
    # states reached from post states without returning to idle (e.g. none) - keep direct ones
    acks = [l for l in v.fsm_leaves(f) if l.kind == "assign" and key(l.target) == ACK and not is0(l.value)]
    if not ob.need(len(acks) >= 2, "%s: fewer than two acknowledge sites" % tag):
        return f
    ab = None
    for l in v.fsm_leaves(f):
        if l.kind == "nextvalue" and is0(l.value) and l.state == idle and not l.guards:
            ab = key(l.target)
    if not ob.need(ab is not None, "%s: abort flag (cleared unconditionally in the idle state) not found" % tag):
        return f
    for l in acks:
        facts = v.guard_keys(l, False) | litset(conj(l.value))
        st = l.state
        ob.instance("%s ack in state %s" % (tag, st), sorted(facts))
        if st == idle:
            # idle-state ack: guarded by cyc (an Elif after ~cyc) and stb
            if not ({CYC, STB} <= facts):
                ob.refute("%s:idle-ack:%s" % (tag, sorted(facts)[:3]), "%s: acknowledge in the idle state under %s: not conditioned on cyc & stb" % (tag, sorted(facts)), l.loc)
            continue
        if not ({CYC, "~" + ab} <= facts):
            ob.refute("%s:ack-abort:%s" % (tag, st), "%s: acknowledge in state %s is asserted under %s without cyc & ~%s: a cycle the master dropped after the "
                      "command was issued is still acknowledged - the ack is taken by whatever access the master started meanwhile" % (tag, st, sorted(facts), ab), l.loc)
        base = v.guard_keys(l, False) - {CYC, "~" + ab}
        back = [m for m in v.fsm_leaves(f, st) if m.kind == "next" and isinstance(m.value, Const) and m.value.v == idle and v.guard_keys(m, False) <= v.guard_keys(l, False)]
        if not back:
            ob.refute("%s:ack-stays:%s" % (tag, st), "%s: state %s acknowledges without returning to the idle state in the same step: the beat can be "
                      "acknowledged twice" % (tag, st), l.loc)
    # sticky abort in every state that acks after a command
    for st in sorted({l.state for l in acks if l.state != idle} | (post - {idle})):
        ls = v.fsm_leaves(f, st)
        has_ack = any(l.state == st for l in acks)
        if not has_ack:
            continue
        upd = [l for l in ls if l.kind == "nextvalue" and key(l.target) == ab]
        okk = len(upd) == 1 and not upd[0].guards and litset(disj(upd[0].value)) == {"~" + CYC, ab}
        ob.instance("%s abort flag in state %s" % (tag, st), [str(u) for u in upd])
        if not okk:
            ob.refute("%s:abort-sticky:%s" % (tag, st), "%s: in state %s the abort flag is updated with %s, expected ~cyc | %s (sticky): a cycle dropped and "
                      "re-opened before the memory answers is no longer recognised as aborted" % (tag, st, [key(u.value) for u in upd], ab), (upd or ls)[0].loc)
    # every state on the way from the idle state to an acknowledging state (waiting for the read command to be accepted, ...) must notice a dropped
    # cycle as well: it either returns to idle under ~cyc or records ~cyc in the abort flag
    ack_states = {l.state for l in acks if l.state != idle}
    for st in f.states:
        if st == idle or st in ack_states:
            continue
        succ = {d for s_, d, _ in edges if s_ == st}
        if not (succ & ack_states):
            continue
        ls = v.fsm_leaves(f, st)
        leaves_on_drop = any(l.kind == "next" and isinstance(l.value, Const) and l.value.v == idle and "~" + CYC in v.guard_keys(l, False) for l in ls)
        records = any(l.kind == "nextvalue" and key(l.target) == ab and not is0(l.value) for l in ls)
        ob.instance("%s: waiting state %s before an acknowledging state" % (tag, st), {"returns to idle on ~cyc": leaves_on_drop, "records ~cyc": records})
        if not (leaves_on_drop or records):
            ob.refute("%s:drop-unnoticed:%s" % (tag, st), "%s: state %s waits (for the native command) before an acknowledging state but neither returns to idle on ~cyc nor "
                      "records it in %s: a cycle dropped and re-opened while waiting there is acknowledged with the old access's data" % (tag, st, ab), ls[0].loc if ls else None)
    clr = [l for l in v.fsm_leaves(f) if l.kind == "nextvalue" and key(l.target) == ab and is0(l.value)]
    if any(l.state != idle for l in clr):
        ob.refute("%s:abort-clear" % tag, "%s: the abort flag is cleared outside the idle state" % tag, clr[0].loc)
    return f


def run(ctx):
    ob1 = ctx.ob("C10.1", "one acknowledge per access: idle-state acknowledges need cyc & stb; acknowledges after the native command was issued need cyc & ~aborted "
                          "and return to the idle state in the same step; the abort flag is sticky (~cyc | aborted) in every such state and cleared only in the "
                          "idle state", 8)
    ob2 = ctx.ob("C10.2", "no stale data: every path that accepts a write beat clears the read-cache valid bit; cache hits and read commands only with no "
                          "pending merged write; the cache is filled from port.rdata together with the address used for the command; ~cyc invalidates", 3)
    ob3 = ctx.ob("C10.3", "write merge: a beat is merged only into the same wide address and a free lane; data and byte enables are placed with the same "
                          "lane index; the merge registers are cleared when the write data is accepted", 3)
    ob4 = ctx.ob("C10.4", "addresses: bus address minus base_address >> log2(bytes), wide address / lane split partitions the narrow address", 3)
    for bus, port_, tag in ((32, 32, "equal width"), (64, 32, "wider bus")):
        v = wb_view(ctx, bus, port_)
        ack_rules(ctx, ob1, v, tag)
        # every read of this path waits for its data before it acknowledges, so every read command must ask for its data now (cmd.last): a converter behind the
        # port may otherwise hold the beat back for merging and the access is never acknowledged
        cl = [l for l in v.leaves if l.kind == "assign" and key(l.target).endswith("port.cmd.last") and l.fsm is None and l.inst == ""]
        if ob1.need(len(cl) >= 1, "%s: driver of port.cmd.last not found" % tag):
            conds = []
            for l in cl:
                t_ = Const(1)
                for x_ in leaf_cond(l):
                    t_ = Op("&", (t_, expand_term(v, x_)))
                conds.append(t_)
            lastv = conds[0]
            for t_ in conds[1:]:
                lastv = Op("|", (lastv, t_))
            okl, cex = implies([Op("~", (Sym(WE),))], [lastv])
            ob1.instance("%s: port.cmd.last" % tag, {"value": key(lastv)[:160], "set for every read": okl})
            if okl is False:
                ob1.refute("%s:read-not-last" % tag, "%s: a read command can be issued with port.cmd.last = 0 (%s false under %s): the bridge waits for that read's data before it "
                           "acknowledges, but a width converter behind the port keeps a non-last command for merging - the access hangs" %
                           (tag, key(lastv)[:120], sorted(k_ for k_, x_ in cex.items() if x_)), cl[0].loc)
        if bus == port_:
            # one data beat per command: with equal widths the write data may only be offered in the state entered after the write command
            # was accepted (last assignment wins over the unconditional stb & we)
            f_ = v.fsms("")[0]
            wst = sorted({l.value.v for l in v.fsm_leaves(f_, f_.reset_state) if l.kind == "next" and isinstance(l.value, Const) and WE in v.guard_keys(l, False)})
            ds_ = sorted(v.drivers("port.wdata.valid"), key=lambda l_: l_.order)
            if ob1.need(len(wst) == 1 and bool(ds_), "%s: write state / port.wdata.valid drivers not found" % tag):
                og = key(Op("call", (Sym("ongoing"), Sym("fsm"), Const(wst[0]))))
                cands = []
                for l in ds_:
                    for t_ in [l.value] + [c_ for c_, _ in l.guards]:
                        for st_ in subterms(t_):
                            if isinstance(st_, Op) and key(st_).startswith("ongoing(") and wst[0] in key(st_):
                                cands.append(key(st_))
                ogk = cands[0] if cands else og
                # every state the FSM can be in after the write command was accepted (the write state and any state reachable from it before the idle state)
                edges_, _ = fsm_graph(v, f_)
                post = {wst[0]}
                grow = True
                while grow:
                    grow = False
                    for s0, d0, _l in edges_:
                        if s0 in post and d0 != f_.reset_state and d0 not in post:
                            post.add(d0); grow = True
                envp = {ogk: False}
                for l in ds_:
                    for t_ in [l.value] + [c_ for c_, _ in l.guards]:
                        for st_ in subterms(t_):
                            if isinstance(st_, Op) and key(st_).startswith("ongoing(") and any(repr(p_) in key(st_) or ("'%s'" % p_) in key(st_) for p_ in post):
                                envp[key(st_)] = False
                final = None          # can the winning assignment give 1 while the FSM is in none of those states?
                for l in ds_:
                    fires = leaf_fires(v, l, envp)
                    if fires is False:
                        continue
                    val = eval3(l.value, envp)
                    if fires is True:
                        final = val
                    else:
                        final = None if (final is not False or val is not False) else False
                ob1.instance("%s: write data offered outside the write state %s" % (tag, wst[0]), {"drivers": [str(l) for l in ds_], "possible": final is not False})
                if final is not False:
                    ob1.refute("%s:wdata-before-cmd" % tag, "%s: port.wdata.valid can be 1 while the bridge is not in state %s (%s): a port that takes write data before the "
                               "command is accepted (any FIFO-fronted port) receives the beat twice - once in the command state and again in %s" %
                               (tag, wst[0], [str(l) for l in ds_], wst[0]), ds_[0].loc)
        a = [l for l in v.leaves if l.kind == "assign" and key(l.target).endswith("port.cmd.addr") or (l.kind == "assign" and key(l.target) == "new_port.cmd.addr")]
        if ob4.need(len(a) >= 1, "%s: command address not found" % tag):
            val = a[0].value
            sh = (bus // 8).bit_length() - 1
            exp = Op("-", (Sym("wishbone.adr"), Op(">>", (Sym("base_address"), Const(sh)))))
            ob4.instance("%s command address" % tag, key(val))
            if key(val) != key(exp) and not any("wishbone.adr" in x for x in support(val)):
                ob4.unknown("%s: the command address found is %s, which is not built from the bus address directly (a converter's own address): the bridge's address is not decided here" % (tag, key(val)))
            elif key(val) != key(exp):
                ob4.refute("addr:%s" % tag, "%s: command address is %s, expected wishbone.adr - (base_address >> %d)" % (tag, key(val), sh), a[0].loc)
    n = wb_view(ctx, 32, 128)
    f = ack_rules(ctx, ob1, n, "narrow bus")
    if f is None:
        return
    v = n
    idle = idle_state(f)
    # role: the wide-address signal = source of the register that addresses the read command
    WIDE = WIDE_T = None
    rdst = {l.state for l in v.fsm_leaves(f) if l.kind == "assign" and key(l.target) == "port.cmd.we" and is0(l.value)}
    for l in v.fsm_leaves(f):
        if l.kind == "assign" and key(l.target) == "port.cmd.addr" and l.state in rdst:
            for m_ in v.fsm_leaves(f, idle):
                if m_.kind == "nextvalue" and key(m_.target) == key(l.value):
                    WIDE_T = deref(v, m_.value)
                    WIDE = key(WIDE_T)
    if WIDE is None:
        ob4.unknown("narrow path: wide-address signal not identified")
        return
    # ---- C10.2 ---- (signals found by role, not by name)
    idle_ls = v.fsm_leaves(f, idle)
    wacks = [l for l in idle_ls if l.kind == "assign" and key(l.target) == ACK and WE in v.guard_keys(l, False)]
    if not ob2.need(len(wacks) >= 1, "write-accept acknowledge not found"):
        return
    wg = v.guard_keys(wacks[0], False)
    WV = None            # role: pending merged write
    for l in idle_ls:
        if l.kind == "nextvalue" and is1(l.value) and v.guard_keys(l, False) == wg and isinstance(l.target, (Obj, Sym)):
            WV = key(l.target)
    racks = [l for l in idle_ls if l.kind == "assign" and key(l.target) == ACK and "~" + WE in v.guard_keys(l, False)]
    H = None
    CV = CA = None
    if racks and WV:
        base = {CYC, STB, "~" + WE, "~" + WV, "~" + "~" + CYC}
        extra = [x for x in v.guard_lits(racks[0], False) if lkey(x) not in base]
        flat = []
        for a_, p_ in extra:
            d_ = deref(v, a_)
            flat.extend(conj(d_, p_))
        H = sorted(lkey(x) for x in extra)
        for a_, p_ in flat:
            if p_ and isinstance(a_, (Obj, Sym)):
                CV = key(a_)
            if p_ and isinstance(a_, Op) and a_.op == "==":
                CA = [key(deref(v, x)) for x in a_.args]
        if len(flat) != 2:
            CV = CA = None
    ob2.instance("roles", {"pending_write": WV, "cache_hit": H, "cache_valid": CV, "cache_addr_compare": CA})
    if not ob2.need(WV is not None and H is not None and CV is not None and CA is not None, "read-cache / merge-buffer signals not identified by role"):
        return
    if WIDE not in CA:
        ob2.refute("hit-def", "the cache hit compares %s: not against the wide address of the current access" % CA, None)
    inval = [l for l in v.fsm_leaves(f) if l.kind == "nextvalue" and key(l.target) == CV and is0(l.value)]
    for l in wacks:
        g = v.guard_keys(l, False)
        okk = any(v.guard_keys(i, False) <= g for i in inval if i.state == idle)
        ob2.instance("write beat accepted", {"guards": sorted(g), "invalidates": [sorted(v.guard_keys(i, False)) for i in inval if i.state == idle]})
        if not okk:
            # an invalidation restricted to writes that target the cached word: ack & cache-hit must imply it
            hit_t = [expand_term(v, a_ if p_ else Op("~", (a_,))) for a_, p_ in extra]
            ack_t = [expand_term(v, c_ if p_ else Op("~", (c_,))) for c_, p_ in l.guards if l.fsm is None or True]
            res_ = None
            for i in inval:
                if i.state != idle:
                    continue
                inv_t = [expand_term(v, c_ if p_ else Op("~", (c_,))) for c_, p_ in i.guards]
                r_, _cx = implies(ack_t + hit_t, inv_t)
                if r_:
                    res_ = True
                    break
            if res_:
                ob2.instance("invalidation restricted to writes that hit the cached word", True)
                continue
            cached_ = [k_ for k_ in CA if k_ != WIDE]
            def on_cache(i):
                sp_ = set()
                for c_, p_ in i.guards:
                    sp_ |= support(expand_term(v, c_))
                return bool(sp_ & set(cached_))
            if any(on_cache(i) for i in inval if i.state == idle and "~" + WE not in v.guard_keys(i, False)):
                ob2.unknown("a write beat is acknowledged under %s, the read cache is invalidated under %s (a condition on the cache itself): whether every write "
                            "to the cached word is covered is not decided" % (sorted(g), [sorted(v.guard_keys(i, False)) for i in inval if i.state == idle]))
                continue
        if not okk:
            ob2.refute("write-keeps-cache", "a write beat is acknowledged under %s but the read cache is only invalidated under %s: a merged (not yet "
                       "flushed) write leaves the cached word valid and a following read of that word returns the old bytes" %
                       (sorted(g), [sorted(v.guard_keys(i, False)) for i in inval if i.state == idle]), l.loc)
    for l in racks:
        g = v.guard_keys(l, False)
        ob2.instance("cache hit", sorted(g))
        if "~" + WV not in g:
            ob2.refute("hit-with-pending-write", "a cache hit is served under %s: not excluded while a merged write is pending" % sorted(g), l.loc)
    rd_states = {l.state for l in v.fsm_leaves(f) if l.kind == "assign" and key(l.target) == "port.cmd.we" and is0(l.value)}
    rd_edges = [l for l in idle_ls if l.kind == "next" and isinstance(l.value, Const) and l.value.v in rd_states]
    for l in rd_edges:
        if "~" + WV not in v.guard_keys(l, False):
            ob2.refute("read-with-pending-write", "a read command is started under %s while a merged write may be pending" % sorted(v.guard_keys(l, False)), l.loc)
    ob2.need(len(racks) >= 1 and len(rd_edges) >= 1, "cache-hit / read-command paths not found")
    fills = [l for l in v.fsm_leaves(f) if l.kind == "nextvalue" and key(l.value) == "port.rdata.data"]
    cache_addr = [x for x in CA if x != WIDE]
    afill = [l for l in v.fsm_leaves(f) if l.kind == "nextvalue" and cache_addr and key(l.target) == cache_addr[0]]
    cmd_addr = [l for l in v.fsm_leaves(f) if l.kind == "assign" and key(l.target) == "port.cmd.addr" and l.state in rd_states]
    ob2.instance("cache fill", {"data": [str(x) for x in fills], "addr": [str(x) for x in afill]})
    if len(fills) != 1 or len(afill) != 1 or not cmd_addr:
        ob2.unknown("read-cache fill site not identified (data fills %d, address fills %d, read-command address drivers %d)" % (len(fills), len(afill), len(cmd_addr)))
    elif "port.rdata.valid" not in v.guard_keys(fills[0], False) or v.guard_keys(fills[0], False) != v.guard_keys(afill[0], False):
        ob2.refute("cache-fill", "the read cache data is loaded under %s but its address tag under %s: the tag and the data can belong to different reads" %
                   (sorted(v.guard_keys(fills[0], False)), sorted(v.guard_keys(afill[0], False))), fills[0].loc)
    elif not any(key(afill[0].value) == key(c_.value) for c_ in cmd_addr):
        if len(cmd_addr) == 1:
            ob2.refute("cache-fill", "the read cache is tagged with %s but the read command was issued for %s: a later hit returns another word's data" %
                       (key(afill[0].value), key(cmd_addr[0].value)), afill[0].loc)
        else:
            ob2.unknown("read-cache tag %s matches none of the %d read-command address drivers %s" % (key(afill[0].value), len(cmd_addr), [key(c_.value) for c_ in cmd_addr]))
    ncyc = [i for i in inval if i.state == idle and v.guard_keys(i, False) == {"~" + CYC}]
    if not ncyc:
        ob2.refute("cyc-invalidate", "the read cache is not invalidated when the master ends the cycle (~cyc)", None)
    # ---- C10.3 ----
    cmn = [x for x in v.guard_lits(wacks[0], False) if lkey(x) not in (CYC, STB, WE, "~" + "~" + CYC)]
    cm = deref(v, cmn[0][0]) if len(cmn) == 1 and cmn[0][1] else None
    dj = disj(cm) if cm is not None else []
    okm = False
    if len(dj) == 2:
        ks = [nkeys(v, conj(a, p)) for a, p in dj]
        okm = {"~" + WV} in ks and any(len(k) == 2 and any(WIDE in x and "==" in x for x in k) and any(x.startswith("~(") and "&" in x for x in k) for k in ks)
    ob3.instance("wr_can_merge", key(cm) if cm is not None else None)
    if okm:
        # the data path ORs whole lanes together, so "free" must be tested per LANE: both operands of the free test are ratio (= 4) bits wide
        for a_, p_ in dj:
            for x_, q_ in conj(a_, p_):
                if (not q_) and isinstance(x_, Op) and x_.op == "&":
                    ws_ = []
                    for o_ in x_.args:
                        o2 = o_ if isinstance(o_, Obj) else None
                        w_ = o2.args[0].v if (o2 is not None and o2.args and isinstance(o2.args[0], Const)) else None
                        if w_ is None and o2 is not None and isinstance(o2.meta.get("like"), Obj) and o2.meta["like"].args and isinstance(o2.meta["like"].args[0], Const):
                            w_ = o2.meta["like"].args[0].v
                        ws_.append(w_)
                    ob3.instance("free-lane test operands", {key(o_): w_ for o_, w_ in zip(x_.args, ws_)})
                    if any(w_ is not None and w_ != 4 for w_ in ws_):
                        ob3.refute("free-test-granularity", "the merge condition tests free BYTES (%s, widths %s) but the merged data is OR-ed per 32-bit lane: a second partial write to "
                                   "a lane that already holds a beat is accepted and its unselected data bytes are OR-ed into the pending word" % (key(x_), ws_), None)
    if not okm:
        ob3.refute("can-merge", "the merge condition is %s, expected ~pending | ((pending_addr == wide_addr) & ((selected_lanes & lane_bit) == 0))" % (key(cm) if cm is not None else None), None)
    lanes_d, lanes_w = {}, {}
    for l in v.leaves:
        if l.kind == "assign" and isinstance(l.target, Op) and l.target.op == "slice":
            cs = [c for c, p in l.guards if isinstance(c, Op) and c.op == "case"]
            if cs and isinstance(cs[0].args[1], Const):
                i = cs[0].args[1].v
                b = (l.target.args[1].v, l.target.args[2].v) if isinstance(l.target.args[1], Const) and isinstance(l.target.args[2], Const) else None
                if key(l.value) == "wishbone.dat_w":
                    lanes_d[i] = (b, key(l.value))
                if key(l.value) == "wishbone.sel":
                    lanes_w[i] = (b, key(l.value))
    ob3.instance("lane placement", {"data": lanes_d, "we": lanes_w})
    for i in range(4):
        if lanes_d.get(i) is None or lanes_w.get(i) is None:
            ob3.unknown("lane %d: placement of the bus data / byte enables into the wide word not found in the Case-per-lane form" % i)
        elif lanes_d.get(i) != ((32 * i, 32 * (i + 1)), "wishbone.dat_w") or lanes_w.get(i) != ((4 * i, 4 * (i + 1)), "wishbone.sel"):
            ob3.refute("lane:%d" % i, "lane %d: data goes to %s and byte enables to %s, expected bits [%d,%d) / [%d,%d)" %
                       (i, lanes_d.get(i), lanes_w.get(i), 32 * i, 32 * (i + 1), 4 * i, 4 * (i + 1)), None)
    clr = {key(l.target) for l in v.fsm_leaves(f) if l.kind == "nextvalue" and is0(l.value) and "port.wdata.ready" in v.guard_keys(l, False)}
    ob3.instance("cleared on write-data accept", sorted(clr))
    wr_states = {l.state for l in v.fsm_leaves(f) if l.kind == "assign" and key(l.target) in ("port.cmd.we", "port.wdata.valid") and is1(l.value)}
    wd = [l for l in v.fsm_leaves(f) if l.kind == "assign" and key(l.target) in ("port.wdata.data", "port.wdata.we") and l.state in wr_states]
    m = {key(l.target): key(l.value) for l in wd}
    # a merge register must be cleared at the flush if (and only if) later beats are OR-ed into it; a register whose lanes are overwritten beat by beat needs no
    # clearing (its stale lanes are protected by the byte enables, which do have to be cleared)
    def or_merged(rk):
        for l_ in v.fsm_leaves(f):
            if l_.kind == "nextvalue" and key(l_.target) == rk and isinstance(l_.value, V):
                if any(isinstance(t_, Op) and t_.op == "|" and any(key(a_) == rk for a_ in t_.args) for t_ in subterms(l_.value)):
                    return True
        return False
    accum = {key(l_.target) for l_ in v.fsm_leaves(f) if l_.kind == "nextvalue" and isinstance(l_.target, (Obj, Sym)) and or_merged(key(l_.target))}
    merge_regs = set(m.values()) | (set(support(cm)) if cm is not None else set())       # registers of the write-merge path only (not e.g. the abort flag)
    need_clr = {WV} | (accum & merge_regs) | ({m["port.wdata.we"]} if "port.wdata.we" in m else set())
    if len(m) != 2:
        ob3.unknown("write-data registers of the flush state not identified (%s)" % m)
    elif not need_clr <= clr:
        ob3.refute("merge-clear", "the merge registers %s are not all cleared when the write data is accepted (cleared: %s): bytes of the flushed word are OR-ed into / enabled "
                   "for the next one" % (sorted(need_clr), sorted(clr)), None)
    # ---- C10.4 narrow ----
    wa = WIDE_T
    na = ch = None
    NARROW = None
    if isinstance(wa, Op) and wa.op == "slice":
        na = deref(v, wa.args[0])
        NARROW = key(na)
        for l in v.leaves:
            for t_ in subterms(l.value) if l.value is not None else ():
                if isinstance(t_, Op) and t_.op == "slice" and key(deref(v, t_.args[0])) == NARROW and isinstance(t_.args[1], Const) and t_.args[1].v is None:
                    ch = t_
    exp_na = key(Op("-", (Sym("wishbone.adr"), Op(">>", (Sym("base_address"), Const(2))))))
    ob4.instance("narrow path address split", {"narrow": NARROW, "wide": key(wa) if wa is not None else None, "lane": key(ch) if ch is not None else None})

    def bounds(t_):
        return tuple(x.v if isinstance(x, Const) else "?" for x in t_.args[1:3])
    if na is None or NARROW != exp_na or bounds(wa) != (2, None) or ch is None or bounds(ch) != (None, 2):
        ob4.refute("narrow-addr", "narrow path: address split is %s / %s / %s, expected adr - (base>>2), [2:], [:2] for a 32-on-128-bit bridge" %
                   (NARROW, key(wa) if wa is not None else None, key(ch) if ch is not None else None), None)
    # reverse bridge
    r = elab(ctx, WB, "LiteDRAMNative2Wishbone", kwargs={"port": pobj("port"), "wishbone": pobj("wishbone"), "base_address": Sym("base_address")},
             overrides={"len(wishbone.dat_w)": Const(32), "len(port.wdata.data)": Const(32), "len(wishbone.sel)": Const(4)})
    rf = r.fsms("")
    if ob1.need(len(rf) == 1, "reverse bridge FSM not found"):
        f2 = rf[0]
        for st in f2.states:
            outs = [l for l in r.fsm_leaves(f2, st) if l.kind == "next"]
            if st != f2.reset_state:
                okk = all(ACK in r.guard_keys(l, False) for l in outs) and bool(outs)
                ob1.instance("reverse bridge state %s exits" % st, [sorted(r.guard_keys(l, False)) for l in outs])
                if not okk:
                    ob1.refute("reverse:%s" % st, "reverse bridge state %s is left without the Wishbone acknowledge" % st, outs[0].loc if outs else None)
        # write cycles of the reverse bridge: a Wishbone write (stb with we) is started only with valid write data, takes its data / byte
        # enables from the native write-data channel, and that channel is acknowledged exactly on the Wishbone acknowledge
        wstb = [l for l in r.fsm_leaves(f2) if l.kind == "assign" and key(l.target) == "wishbone.stb" and is1(l.value)]
        wwe = [l for l in r.fsm_leaves(f2) if l.kind == "assign" and key(l.target) == "wishbone.we" and is1(l.value)]
        wstates = sorted({l.state for l in wwe})
        for l in wstb:
            if l.state in wstates:
                g = r.guard_keys(l, False)
                ob1.instance("reverse bridge write cycle (state %s)" % l.state, sorted(g))
                if "port.wdata.valid" not in g:
                    ob1.refute("reverse:write-without-data:%s" % l.state, "reverse bridge: the Wishbone write cycle is started under %s without port.wdata.valid: data and "
                               "byte enables of a beat that is not there yet are written, and the real beat is never consumed (or pairs with the next command)" % sorted(g), l.loc)
        if ob1.need(len(wstates) == 1, "reverse bridge write state not found"):
            for tgt, src in (("wishbone.dat_w", "port.wdata.data"), ("wishbone.sel", "port.wdata.we")):
                ds = [l for l in r.fsm_leaves(f2, wstates[0]) if l.kind == "assign" and key(l.target) == tgt]
                if len(ds) != 1 or key(ds[0].value) != src:
                    ob1.refute("reverse:write-payload:%s" % tgt, "reverse bridge: %s is driven by %s in the write state, expected %s" % (tgt, [key(l.value) for l in ds], src), ds[0].loc if ds else None)
            rdy = [l for l in r.fsm_leaves(f2) if l.kind == "assign" and key(l.target) == "port.wdata.ready" and is1(l.value)]
            ob1.instance("reverse bridge write-data acknowledge", [sorted(r.guard_keys(l, False)) for l in rdy])
            if len(rdy) != 1 or not {"wishbone.ack", "port.wdata.valid"} <= r.guard_keys(rdy[0], False) or rdy[0].state != wstates[0]:
                ob1.refute("reverse:wdata-ready", "reverse bridge: port.wdata.ready is asserted under %s, expected only on the Wishbone acknowledge of a cycle started with valid data" %
                           [sorted(r.guard_keys(l, False)) for l in rdy], rdy[0].loc if rdy else None)
    ob5 = ctx.ob("C10.5", "a bus wider than the port goes through the native down-converter: one access = exactly `ratio` sub-commands with consecutive addresses (the "
                          "splitting discipline of C07.1 is a necessary condition of this bridge as well)", 1)
    share(ctx, ob5, "C07", ("C07.1",))
    ctx.assume("data values and memory-side timing are not decided; the address-width adjustment of the bridge is covered by C07.3")
