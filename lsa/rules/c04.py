"""C04 - refresh is never starved and keeps the datasheet rate (structural necessary conditions)."""
import re
from ..ruleutil import *
from ..report import Ctx
from .c03 import BMRoles, MuxRoles, REFR

RK = {"zqcs_freq": Sym("zqcs_freq"), "postponing": Sym("postponing"), "clk_freq": Sym("clk_freq")}


def counter_period(view, inst, ob, what):
    """RefreshTimer template -> period term (or None)."""
    done = inst.attrs.get("done")
    wait = inst.attrs.get("wait")
    regs = [k for k, ds in view.defs.items() if k.startswith(str(inst) + ".") and all(d.domain.startswith("sync") for d in ds)]
    if len(regs) != 1:
        ob.unknown("%s: expected one counter register, found %s" % (what, regs))
        return None
    ck = regs[0]
    ds = view.defs[ck]
    dec = [d for d in ds if lin_diff(d.target, d.value) is not None and lin_diff(d.target, d.value).is_const() and lin_diff(d.target, d.value).constval() == 1]
    rel = [d for d in ds if d not in dec]
    if len(dec) != 1 or len(rel) != 1:
        ob.unknown("%s: counter drivers do not match the decrement / reload template" % what)
        return None
    cobj = dec[0].target
    reset = cobj.kwargs.get("reset") if isinstance(cobj, Obj) else None
    if reset is None or key(rel[0].value) != key(reset):
        ob.unknown("%s: reload value %s is not the counter's reset value %s" % (what, key(rel[0].value), reset))
        return None
    # done == (count == 0) through comb definitions
    dk = prim_keys(view, [(done, True)])
    if dk != {"~" + ck}:
        ob.unknown("%s: done is %s, expected (count == 0)" % (what, sorted(dk)))
        return None
    # decrement exactly while wait & ~done, reload otherwise
    g = view.guard_keys(dec[0], False)
    if g != {key(wait), "~" + key(done)}:
        ob.unknown("%s: decrement guard is %s, expected wait & ~done" % (what, sorted(g)))
        return None
    return Op("+", (reset, Const(1))), wait


def timers(ctx):
    ob = ctx.ob("C04.1", "the refresh timer is free-running: its `wait` depends only on its own `done`; derived period (reset value + 1) = tREFI "
                         "exactly, the ZQCS timer period is int(clk_freq/zqcs_freq)", 2)
    ob2 = ctx.ob("C04.2", "postponer and sequencer receive the same `postponing`; the postponer emits one request per `postponing` timer ticks "
                          "and the sequencer executes reset+1 = `postponing` refresh sequences per request (debt cannot accumulate)", 4)
    r = elab(ctx, REFR, "Refresher", kwargs=RK).variant_map({"(settings.timing.tZQCS is None)": False, "(settings.timing.tZQCS isnot None)": True})
    tm = [o for o in r.instances_of("RefreshTimer")]
    if not ob.need(len(tm) == 2, "expected refresh timer + ZQCS timer, found %d RefreshTimer instances" % len(tm)):
        return
    for t in tm:
        arg = t.args[0] if t.args else None
        res = counter_period(r, t, ob, str(t))
        if res is None:
            continue
        period, wait = res
        # RefreshTimer(trefi): reset = trefi - 1 with trefi bound to arg
        isz = "zqcs" in str(t)
        exp = arg
        eq = lin_eq(period, exp)
        ob.instance("%s period" % t, {"period": key(period), "parameter": key(arg)})
        if not eq:
            ob.refute("period:%s" % t, "%s has period %s cycles, not its parameter %s" % (t, key(period), key(arg)), t.loc)
        if not isz:
            if not (isinstance(arg, Sym) and arg.path == "settings.timing.tREFI"):
                la = lin(arg)
                if la is not None and all(len(m_) <= 1 and all(a_.startswith("settings.timing.") for a_ in m_) for m_ in la.t):
                    ob.refute("trefi-param", "the refresh timer is built from %s, expected settings.timing.tREFI" % key(arg), t.loc)
                else:
                    ob.unknown("the refresh timer is built from %s and not from settings.timing.tREFI alone: a different division of work between timer and "
                               "postponer, the average rate is not decided by this rule" % key(arg))
            wd = r.drivers(wait)
            sup = set()
            for d in wd:
                sup |= support(d.value) | {key(c) for c, p in d.guards}
            ob.instance("%s wait" % t, {"drivers": [str(d) for d in wd], "support": sorted(sup)})
            own = {s for s in sup if s.startswith(str(t) + ".")}
            if sup != own or not wd:
                ob.refute("timer-not-free-running", "the refresh timer's wait input depends on %s: the tREFI tick can be stretched by traffic / "
                          "the refresh sequence, so the long-run refresh rate drops below 1/tREFI" % sorted(sup - own), wd[0].loc if wd else t.loc)
        else:
            ok = isinstance(arg, Op) and arg.op == "int" and key(arg.args[0]) == "/(clk_freq, zqcs_freq)"
            if not ok:
                ob.refute("zqcs-period", "ZQCS timer period is %s, expected int(clk_freq/zqcs_freq)" % key(arg), t.loc)
    # C04.2
    post = [o for o in r.instances_of("RefreshPostponer") if "." not in o.path]
    seq = [o for o in r.instances_of("RefreshSequencer") if "." not in o.path]
    if ob2.need(len(post) == 1 and len(seq) == 1, "postponer / sequencer instances not found"):
        pa = post[0].args[0] if post[0].args else post[0].kwargs.get("postponing")
        sa = seq[0].args[3] if len(seq[0].args) > 3 else seq[0].kwargs.get("postponing")
        ob2.instance("postponing terms", {"postponer": key(pa) if pa is not None else None, "sequencer": key(sa) if sa is not None else None})
        if pa is None or sa is None or key(pa) != key(sa):
            ob2.refute("postponing-mismatch", "the postponer counts %s timer ticks per request but the sequencer executes %s refreshes per "
                       "request" % (key(pa) if pa is not None else "1 (default)", key(sa) if sa is not None else "1 (default)"), seq[0].loc)
        # postponer input / output wiring
        pi = prim_keys(r, [(post[0].attrs["req_i"], True)])
        rt = [t for t in tm if "zqcs" not in str(t)]
        if rt and pi != prim_keys(r, [(rt[0].attrs["done"], True)]):
            ob2.refute("postponer-input", "the postponer is ticked by %s, expected the refresh timer's done" % sorted(pi), post[0].loc)
    s = elab(ctx, REFR, "RefreshSequencer", kwargs={"cmd": Sym("cmd"), "trp": Sym("trp"), "trfc": Sym("trfc"), "postponing": Sym("postponing")})
    start = s.top.attrs["start"]
    cnt = []
    for l in s.leaves:
        if l.kind == "assign" and l.domain.startswith("sync") and l.inst == "" and key(start) in s.guard_keys(l, False) and isinstance(l.target, Obj) \
                and l.target not in cnt:
            cnt.append(l.target)
    if ob2.need(len(cnt) == 1, "RefreshSequencer: the register reloaded on start was not found"):
        c = cnt[0]
        c.kwargs.setdefault("reset", Const(0))
        n = Op("+", (c.kwargs["reset"], Const(1)))
        reload = [d for d in s.drivers(c) if key(start) in s.guard_keys(d, False)]
        ob2.instance("sequencer executions per request", {"count.reset + 1": key(n), "reload": [str(d) for d in reload]})
        exotic_ = not lin_eq(n, Sym("postponing")) and any(any(x_ in k_ for x_ in ("**", "<<")) and "postponing" in k_ for k_ in [key(n)] + [key(d.value) for d in reload])
        if exotic_:
            ob2.unknown("the sequencer keeps its remaining-sequence count in another encoding than a binary down counter (reset value %s, e.g. a string of ones shifted out): the "
                        "number of sequences per request is not decided" % key(c.kwargs["reset"]))
        if not exotic_:
            if not lin_eq(n, Sym("postponing")):
                ob2.refute("sequencer-count", "the sequencer runs %s refresh sequences per request, expected `postponing` (the postponer only asks "
                           "once per `postponing` intervals)" % key(n), c.loc)
            if not reload or any(key(d.value) != key(c.kwargs["reset"]) for d in reload):
                ob2.refute("sequencer-reload", "on start the sequencer's counter is loaded with %s, not postponing-1" % [key(d.value) for d in reload], c.loc)
            ex = s.instances_of("RefreshExecuter")
            if ex:
                st = prim_keys(s, [(ex[0].attrs["start"], True)]) if False else None
                dv = s.single_comb_def(ex[0].attrs["start"])
                dk = litset(disj(dv)) if dv is not None else set()
                ob2.instance("executer.start", sorted(dk))
                if dk != {key(start), key(c)}:
                    # another shape: some trigger input of the executer must still depend on the remaining-count register, otherwise only ONE sequence runs per request
                    trig = [l_ for l_ in s.leaves if l_.kind == "assign" and l_.inst == "" and key(l_.target).startswith(str(ex[0]) + ".") and isinstance(l_.value, V)]
                    if any(key(c) in support(expand_term(s, l_.value)) for l_ in trig):
                        ob2.unknown("the executer is re-triggered by %s: not the `start | (count != 0)` form this rule understands" % [str(l_)[:80] for l_ in trig])
                    else:
                        ob2.refute("sequencer-restart", "executer.start is %s and no trigger of the executer depends on the remaining-sequence counter %s: only one refresh sequence "
                                   "runs per request although the postponer asks once per `postponing` intervals" % (sorted(dk), key(c)), ex[0].loc)
                dd = s.single_comb_def(s.top.attrs["done"])
                dk2 = litset(conj(dd)) if dd is not None else set()
                if dk2 != {key(ex[0].attrs["done"]), "~" + key(c)}:
                    ob2.refute("sequencer-done", "sequencer.done is %s, expected executer.done & (count == 0)" % sorted(dk2), ex[0].loc)
    p = elab(ctx, REFR, "RefreshPostponer", kwargs={"postponing": Sym("postponing")})
    pc = []
    for l in p.leaves:
        if l.kind == "assign" and l.domain.startswith("sync") and isinstance(l.target, Obj) and l.target is not p.top.attrs.get("req_o") and l.target not in pc:
            pc.append(l.target)
    for o in pc:
        o.kwargs.setdefault("reset", Const(0))
    if ob2.need(len(pc) == 1, "RefreshPostponer counter not found"):
        n = Op("+", (pc[0].kwargs["reset"], Const(1)))
        ob2.instance("postponer ticks per request", key(n))
        if not lin_eq(n, Sym("postponing")):
            ob2.refute("postponer-count", "the postponer emits a request every %s ticks, expected `postponing`" % key(n), pc[0].loc)
        out = p.drivers(p.top.attrs["req_o"])
        sets = [d for d in out if is1(d.value)]
        if not sets or any(not {key(p.top.attrs["req_i"]), "~" + key(pc[0])} <= p.guard_keys(d, False) for d in sets):
            ob2.refute("postponer-out", "req_o is not raised under req_i & (count == 0): %s" % [str(d) for d in sets], pc[0].loc)


def _expand_all(v, t_, depth=6):
    """term with every single-definition comb signal (also those of sub-blocks) replaced by its definition"""
    if depth == 0:
        return t_
    if isinstance(t_, Op):
        return Op(t_.op, tuple(_expand_all(v, a_, depth) for a_ in t_.args))
    if isinstance(t_, (Obj, Sym)):
        d_ = v.single_comb_def(t_)
        if d_ is not None:
            return _expand_all(v, d_, depth - 1)
    return t_


_TRAFFIC = re.compile(r"choose_|bm\d+\.cmd|bank_machines|_available|\.req\.|cmd_buffer|max_time")


def _covered(exits, free):
    """the exits, taken together, are open whenever every `free` condition holds (e.g. one exit per value of a mode flag)"""
    extra = sorted({a.lstrip("~") for g in exits for a in g} - {a.lstrip("~") for a in free})
    if not extra or len(extra) > 8:
        return False
    if any(a.startswith("~") for a in free):
        return False
    import itertools
    for vals in itertools.product((False, True), repeat=len(extra)):
        env = dict(zip(extra, vals))
        def sat(a):
            neg = a.startswith("~")
            n = a.lstrip("~")
            if n in env:
                return env[n] != neg
            return not neg          # a free condition, assumed to hold
        if not any(all(sat(a) for a in g) for g in exits):
            return False
    return True


def priority(ctx):
    ob = ctx.ob("C04.3", "priority: in the bank machine's idle/column state the refresh request is tested first and alone (guard = {refresh_req}), "
                         "everything else there is under ~refresh_req; in the multiplexer's read/write states the go_to_refresh transition is "
                         "the last NextState (later assignment wins) guarded only by the grants; every other multiplexer state has an exit "
                         "that does not depend on port traffic", 5)
    for ap in (True, False):
        R = BMRoles(ctx, ob, {"settings.with_auto_precharge": ap})
        if not R.ok:
            return
        v = R.v
        rr = key(R.refresh_req)
        gnt_states = R.refresh_states
        ent = [(s, l) for (s, d, l) in R.edges if d in gnt_states and s not in gnt_states]
        if not ob.need(len(ent) >= 1, "no edge into the refresh-grant state"):
            continue
        for s, l in ent:
            g = v.guard_keys(l, False)
            ob.instance("auto_precharge=%s: %s -> refresh state" % (ap, s), sorted(g))
            if g != {rr}:
                ob.refute("bm-refresh-entry:%s" % s, "the bank machine enters its refresh state from %s under %s, not under refresh_req alone: "
                          "traffic that keeps the extra condition false postpones refresh indefinitely" % (s, sorted(g)), l.loc)
            others = [m for m in v.fsm_leaves(R.fsm, s) if m is not l]
            bad = [m for m in others if "~" + rr not in v.guard_keys(m, False)
                   and not (m.kind == "assign" and key(m.target) == key(R.refresh_gnt))]      # granting at once is not "other work"
            if bad:
                ob.refute("bm-refresh-priority:%s" % s, "state %s does other work while refresh_req is high (%s): the refresh request does not "
                          "take priority" % (s, bad[0]), bad[0].loc)
        # every other state must be left without depending on the request queue (bounded time to reach the idle state)
        col = [s for s, r_ in R.sites.items() if r_ == "COL"][0]
        if not any(s == col for s, l in ent):
            ob.refute("bm-refresh-from-idle", "the refresh state is not entered from the state that serves column commands (%s)" % col, ent[0][1].loc)
        qk = {k for k in v.defs if False}
        for s in R.fsm.states:
            if s == col or s in gnt_states:
                continue
            outs = [l for (src, d, l) in R.edges if src == s]
            cmdk = key(R.cmd)
            allowed = {cmdk + ".ready"} | {key(g.attrs["ready"]) for g in R.gates.values()}
            exits = [v.guard_keys(l, False) for l in outs]
            okk = any(g <= allowed for g in exits) or _covered(exits, allowed)
            ob.instance("auto_precharge=%s: state %s exits" % (ap, s), [sorted(g) for g in exits])
            if outs and not okk:
                qd = re.compile(r"cmd_buffer|lookahead|req\.|row_hit|refresh_req")
                if all(any(qd.search(a) for a in g - allowed) for g in exits):
                    ob.refute("bm-wait:%s" % s, "state %s can only be left under %s: depends on more than timing gates / command acceptance" %
                              (s, [sorted(g) for g in exits]), outs[0].loc)
                else:
                    ob.unknown("auto_precharge=%s: state %s is left under %s: whether these conditions come true in bounded time is not decided" %
                               (ap, s, [sorted(g) for g in exits]))
    for nph in (1, 4):
        M = MuxRoles(ctx, ob, nph)
        if not M.ok:
            return
        v = M.v
        gnts = {"bm0.refresh_gnt", "bm1.refresh_gnt"}
        for s in (M.read_state, M.write_state):
            nx = [l for l in v.fsm_leaves(M.fsm, s) if l.kind == "next"]
            last = nx[-1] if nx else None
            # the refresher's own request next to the grants is not port traffic (the grants already imply it)
            okk = last is not None and isinstance(last.value, Const) and last.value.v in M.refresh_states and \
                (v.guard_keys(last) - {"go_to_refresh", "refresher.cmd.valid"}) == gnts
            ob.instance("nphases=%d: state %s NextState order" % (nph, s), [str(l) for l in nx])
            if not okk:
                ob.refute("mux-refresh-priority:%s:%d" % (s, nph), "in state %s the transition to the refresh state is not the last (winning) "
                          "NextState guarded by the grants alone: %s" % (s, [str(l) for l in nx]), (last or M.fsm.acts[s][0]).loc)
        # wait-for cycle: a bank machine grants only from its idle state, so a command it already presents must still be acceptable while the refresh
        # request is pending - the choosers' accept conditions may not depend on the refresher's request
        rq = key(Sym("refresher.cmd.valid"))
        for ch in (M.req, M.cmdch):
            rk = key(ch.attrs["cmd"]) + ".ready"
            for l in v.drivers(rk):
                dep = {x.lstrip("~") for x in v.guard_keys(l)} | {x for x in support(_expand_all(v, l.value))}
                ob.instance("nphases=%d: %s accept condition (state %s)" % (nph, rk, l.state), {"depends on refresh request": rq in dep})
                if rq in dep:
                    ob.refute("accept-blocked-by-refresh:%d:%s" % (nph, l.state), "in state %s the chooser accepts commands only under a condition that depends on the refresher's "
                              "request (%s): a bank machine that already presents an ACT when the request rises can neither get it accepted nor return to the state "
                              "in which it grants - the refresh is never served" % (l.state, key(l.value)[:160]), l.loc)
        gates = {M.ready(g) for g in M.gates}
        for s in M.fsm.states:
            if s in (M.read_state, M.write_state):
                continue
            outs = [l for (src, d, l) in M.edges if src == s]
            free = gates | {"refresher.cmd.last"}
            exits = [v.guard_keys(l) for l in outs]
            okk = any(g <= free for g in exits) or _covered(exits, free)
            ob.instance("nphases=%d: state %s exits" % (nph, s), [sorted(g) for g in exits])
            if not okk:
                # positive witness only: every exit waits for something the ports decide (a request being presented / accepted)
                if exits and all(any(_TRAFFIC.search(a) for a in g - free) for g in exits):
                    ob.refute("mux-wait:%s:%d" % (s, nph), "multiplexer state %s has no exit independent of port traffic: %s" %
                              (s, [sorted(g) for g in exits]), M.fsm.acts[s][0].loc)
                else:
                    ob.unknown("nphases=%d: multiplexer state %s is left under %s: whether these conditions come true without port traffic is not decided" %
                               (nph, s, [sorted(g) for g in exits]))
        for nm, (t, d, loc) in M.delayed.items():
            ob.instance("nphases=%d: delayed chain %s -> %s" % (nph, nm, t), key(d))


def persistence(ctx):
    ob = ctx.ob("C04.5", "request persistence: a periodic request that is a one-cycle pulse must be consumed under a level condition (an FSM state), "
                         "not only in a cycle selected by another pulse; otherwise it is served only on a one-cycle coincidence", 2)
    for zq in (False, True):
        r = elab(ctx, REFR, "Refresher", kwargs=RK).variant_map({"(settings.timing.tZQCS is None)": not zq, "(settings.timing.tZQCS isnot None)": zq})
        fs = r.fsms("")
        if not ob.need(len(fs) == 1, "Refresher FSM not found"):
            return
        f = fs[0]
        sources = {}
        for o in r.instances_of("RefreshTimer"):
            if "." not in o.path:
                sources[key(o.attrs["done"])] = o
        for o in r.instances_of("RefreshPostponer"):
            if "." not in o.path:
                sources[key(o.attrs["req_o"])] = o
        def deps(sig, depth=3, seen=None):
            seen = set() if seen is None else seen
            k = key(sig)
            if k in seen or depth < 0:
                return set()
            seen.add(k)
            out = {k}
            for d in r.drivers(k):
                for n_ in support(d.value) | {x for c, p in d.guards for x in support(c)}:
                    out |= deps(n_, depth - 1, seen)
            return out
        reqs = []
        cand = {}
        for l in r.fsm_leaves(f):
            for a, p in r.guard_lits(l, False):
                if p and isinstance(a, (Obj, Sym)):
                    cand[key(a)] = a
        for k, sig in sorted(cand.items()):
            if deps(sig) & set(sources):
                reqs.append(sig)
        # requests consumed directly (no intermediate signal)
        if not ob.need(len(reqs) >= (2 if zq else 1), "zqcs=%s: periodic request signals not identified (found %s)" % (zq, [str(x) for x in reqs])):
            continue
        for sig in reqs:
            pulse = is_pulse(r, sig)
            sites = [l for l in r.fsm_leaves(f) if key(sig) in r.guard_keys(l, False)]
            windowed = []
            for l in sites:
                others = [a for a, p in r.guard_lits(l, False) if p and key(a) != key(sig) and isinstance(a, (Obj, Sym))]
                wp = [key(a) for a in others if is_pulse(r, a)]
                windowed.append(wp)
            ob.instance("zqcs=%s request %s" % (zq, sig), {"pulse": pulse, "consumer_sites": [(l.state, sorted(r.guard_keys(l, False))) for l in sites],
                                                           "windowing_pulses": windowed})
            if pulse and sites and all(windowed):
                ob.refute("pulse-on-pulse:%s" % sig, "%s is a one-cycle pulse and every site that consumes it is itself enabled only in the cycle "
                          "of another pulse (%s): the request is served only if both pulses coincide - the periodic operation practically "
                          "never runs" % (sig, windowed), sites[0].loc, {"sites": [str(l) for l in sites]})
            if pulse and sites and not all(windowed):
                # the pulse is only seen while the FSM waits in its consumer state(s): nothing but the pulse itself may take the FSM away from there,
                # otherwise a pulse that falls into the other sequence is never seen and a whole batch of refreshes is skipped
                wait_states = {l.state for l, w_ in zip(sites, windowed) if not w_}
                edges_, _dl = fsm_graph(r, f)
                for src_, dst_, l in edges_:
                    if src_ in wait_states and dst_ not in wait_states and key(sig) not in r.guard_keys(l, False):
                        ob.refute("pulse-lost:%s:%s" % (sig, src_), "%s is a one-cycle pulse seen only in state %s, but the FSM also leaves that state under %s (to %s): a pulse "
                                  "arriving while that other sequence runs is lost - the periodic operation it requests is skipped" %
                                  (sig, src_, sorted(r.guard_keys(l, False)), dst_), l.loc)
                ob.instance("zqcs=%s: exits of the state(s) %s that wait for pulse %s" % (zq, sorted(wait_states), sig),
                            [(src_, dst_, sorted(r.guard_keys(l, False))) for src_, dst_, l in edges_ if src_ in wait_states])
            if pulse and sites and not all(windowed):
                ctx.assume("%s is a pulse consumed while the refresher FSM waits in %s; a pulse arriving while a sequence is still running is "
                           "lost unless the sequence is shorter than postponing*tREFI (runtime quantity, not decided)" %
                           (sig, sorted({l.state for l, w in zip(sites, windowed) if not w})))


def release_and_overrides(ctx):
    ob7 = ctx.ob("C04.7", "traffic resumes after every sequence: wherever the refresher raises cmd.last (end of the sequence) it drops cmd.valid in the "
                          "same step - all exits agree (sibling consistency); otherwise the bank machines still see the request for one cycle, grant again, "
                          "and the multiplexer re-enters its refresh state with nobody left to release it", 2)
    ob9 = ctx.ob("C04.9", "each refresher state that is entered by starting a sequencer / executer is left only on that same block's done", 2)
    ob8 = ctx.ob("C04.8", "the executers share the command registers under last-assignment-wins: no executer places an UNCONDITIONAL default "
                          "assignment to cmd.a/ba/ras/cas/we after another executer's timeline (it would override that executer's commands every cycle)", 5)
    for zq in (False, True):
        r = elab(ctx, REFR, "Refresher", kwargs=RK).variant_map({"(settings.timing.tZQCS is None)": not zq, "(settings.timing.tZQCS isnot None)": zq})
        fs = r.fsms("")
        if not ob7.need(len(fs) == 1, "Refresher FSM not found"):
            return
        f = fs[0]
        cmdk = key(r.top.attrs.get("cmd"))
        lasts = [l for l in r.fsm_leaves(f) if l.kind == "assign" and key(l.target) == cmdk + ".last" and is1(l.value)]
        if not ob7.need(len(lasts) >= (2 if zq else 1), "zqcs=%s: end-of-sequence sites not found" % zq):
            continue
        for l in lasts:
            g = r.guard_keys(l, False)
            drops = [m for m in r.fsm_leaves(f, l.state) if m.kind == "assign" and key(m.target) == cmdk + ".valid" and is0(m.value) and r.guard_keys(m, False) <= g]
            ob7.instance("zqcs=%s state %s end of sequence" % (zq, l.state), {"guards": sorted(g), "drops_valid": bool(drops)})
            if not drops:
                ob7.refute("last-without-release:%s" % l.state, "state %s raises cmd.last under %s but keeps cmd.valid (= refresh_req of every bank machine) high in "
                           "that cycle, unlike the other exits: the bank machines grant once more and the multiplexer re-enters its refresh state while the "
                           "refresher is already idle - traffic stalls until the next refresh" % (l.state, sorted(g)), l.loc)
        # every state entered by starting an executer / sequencer waits for THAT block's done
        started_by = {}
        for l in r.fsm_leaves(f):
            if l.kind == "assign" and is1(l.value) and key(l.target).endswith(".start"):
                blk = key(l.target)[:-len(".start")]
                g = r.guard_keys(l, False)
                for e in r.fsm_leaves(f, l.state):
                    if e.kind == "next" and isinstance(e.value, Const) and r.guard_keys(e, False) == g:
                        started_by.setdefault(e.value.v, set()).add(blk)
        for st_, blks in sorted(started_by.items()):
            exits = [e for e in r.fsm_leaves(f, st_) if e.kind == "next"]
            for e in exits:
                g = r.guard_keys(e, False)
                dones = {k_[:-len(".done")] for k_ in g if k_.endswith(".done")}
                ob9.instance("zqcs=%s state %s (started %s) exit to %s" % (zq, st_, sorted(blks), e.value.v if isinstance(e.value, Const) else "?"), sorted(g))
                if not dones & blks:
                    ob9.refute("waits-for-wrong-done:%s" % "+".join(sorted(blks)), "state %s is entered by starting %s but is left under %s, which does not contain %s.done: the block "
                               "it waits for is idle, the state is never left, refresh_req stays high and the multiplexer never leaves its refresh state" %
                               (st_, sorted(blks), sorted(g), "/".join(sorted(blks))), e.loc)
        if not zq:
            continue
        # C04.8
        for field in ("a", "ba", "cas", "ras", "we"):
            tk = "%s.%s" % (cmdk, field)
            uncond = [l for l in r.leaves if l.kind == "assign" and l.domain.startswith("sync") and key(l.target) == tk and not l.guards]
            tls = [l for l in r.leaves if l.kind == "timeline" and any(isinstance(st, Assign) and key(st.target) == tk for t_, sts in l.stmt.events for st in sts)]
            ob8.instance("cmd.%s writers" % field, {"unconditional": [(l.inst, l.order) for l in uncond], "timelines": [(l.inst, l.order) for l in tls]})
            for u in uncond:
                over = [t for t in tls if t.order < u.order and t.inst != u.inst]
                if over:
                    ob8.refute("default-after-timeline:%s" % field, "%s assigns cmd.%s = %s unconditionally AFTER the timeline of %s in statement order: under "
                               "last-assignment-wins that executer's precharge-all / refresh commands never reach the command bus" %
                               (u.inst or "Refresher", field, key(u.value), over[0].inst), u.loc)
        if not any(True for _ in r.leaves):
            ob8.unknown("no leaves")


def shared(ctx):
    ob = ctx.ob("C04.6", "the tREFI handed to the controller is the datasheet entry of the refresh mode in use, rounded down (shared with C16.3 / C16.4 / C16.7), and each executer starts with precharge-all "
                         "(shared with C02.1)", 2)
    from . import c16, c02
    sub = Ctx("C16", ctx.tier, ctx.seed, ctx.repo)
    c16.run(sub)
    for o in sub.obligations:
        if o.oid == "C16.3":
            for i in o.instances:
                ob.instance("C16.3: " + i["what"], i["detail"])
            for r in o.refutations:
                ob.refute(r["key"], r["msg"], r.get("loc"))
            for u in o.unknowns:
                ob.unknown(u)
        if o.oid in ("C16.4", "C16.7"):
            # the interval is the datasheet entry of the refresh mode in use (DDR4 2x / 4x halve / quarter it): looked up with the mode, from the per-mode tables
            for i in o.instances:
                if "tREFI" in i["what"]:
                    ob.instance(o.oid + ": " + i["what"], i["detail"])
            for r in o.refutations:
                if "tREFI" in r["key"] or o.oid == "C16.7":
                    ob.refute(o.oid + ":" + r["key"], r["msg"], r.get("loc"))
    sub2 = Ctx("C02", ctx.tier, ctx.seed, ctx.repo)
    c02.encodings(sub2)
    for o in sub2.obligations:
        for i in o.instances:
            if "events" in i["what"]:
                ob.instance("C02.1: " + i["what"], i["detail"])
        for r in o.refutations:
            if r["key"].startswith("events:"):
                ob.refute(r["key"], r["msg"], r.get("loc"))


def run(ctx):
    timers(ctx)
    priority(ctx)
    persistence(ctx)
    release_and_overrides(ctx)
    shared(ctx)
    ob10 = ctx.ob("C04.10", "the refresher's commands (precharge-all, refresh, ZQ calibration) reach EVERY rank: on the phase the multiplexer steers them to, all chip selects "
                            "are asserted for any refresher command (shared with C02.6, truth table of the extracted steerer on 2 and 4 phases)", 2)
    from ..report import Ctx as _Ctx
    from . import c02 as _c02
    _sub = _Ctx("C02", ctx.tier, ctx.seed, ctx.repo)
    _c02.rank_decode(_sub)
    for _o in _sub.obligations:
        for _i in _o.instances:
            ob10.instance(_o.oid + ": " + _i["what"], _i["detail"] or "ok")
        for _r in _o.refutations:
            ob10.refute(_o.oid + ":" + _r["key"], _r["msg"], _r.get("loc"))
        for _u in _o.unknowns:
            ob10.unknown(_u)
    ctx.assume("numeric service-latency bound and long-run rate under adversarial traffic are NOT decided (they need the time a bank machine "
               "takes to reach its idle state); tREFI >= 100 cycles is enforced by the Refresher itself")
