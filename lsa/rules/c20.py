"""C20 - LPDDR4 / LPDDR5 command encoding: resolved encoder matrix vs truth table, decoder agreement, DFI mapping, pipeline slots."""
import ast
import json
import os
import re

from ..ruleutil import *
from ..elab import Elab
from ..report import VERIF

DFI_CODE = {"NOP": 0, "ZQC": 1, "ACT": 2, "PRE": 3, "RD": 4, "WR": 5, "REF": 6, "MRS": 7}     # Cat(we, ras, cas)
LP5_MAP = {"ACT": ["ACT-1", "ACT-2"], "RD": ["CAS", "RD16"], "WR:0": ["CAS", "WR16"], "WR:1": ["CAS", "MWR"], "PRE": ["DES", "PRE"], "REF": ["DES", "REF"],
           "ZQC:0": ["DES", "MPC"], "ZQC:1": ["CAS", "MRR"], "ZQC:2": ["DES", "NOP"], "MRS": ["MRW-1", "MRW-2"]}


def expand_ranges(s):
    return re.sub(r"([A-Z]+)(\d+)-(\d+)", lambda m: " ".join("%s%d" % (m.group(1), i) for i in range(int(m.group(2)), int(m.group(3)) + 1)), s)


def lp5_table(raw):
    out = {}
    for k, v in raw.items():
        a, b = v.split("|")
        out[k] = [expand_ranges(a).split(), expand_ranges(b).split()]
    return out


def expected_source(sym, cmdname, gen, dfi="dfi"):
    """key of the term a truth-table symbol must resolve to; None = not checked (WCK sync bits)"""
    if sym == "H":
        return "1"
    if sym in ("L", "V", "X", "BL", "RFM", "WRX", "WXSA", "WXSB") or re.match(r"^(SB|DC)\d+$", sym):
        return "0"
    if sym in ("AP", "AB"):
        return "%s.address[10]" % dfi
    m = re.match(r"^([A-Z]+)(\d+)$", sym)
    if not m:
        return None
    n, i = m.group(1), int(m.group(2))
    if n == "BA":
        return "%s.bank[%d]" % (dfi, i)
    if n == "R":
        return "%s.address[%d]" % (dfi, i)
    if n == "C":
        return "%s.address[%d]" % (dfi, i + (4 if gen == 5 else 0))
    if n == "MA":
        return "%s.%s[%d]" % (dfi, "bank" if cmdname.startswith("MRW") else "address", i)
    if n == "OP":
        if gen == 5 and cmdname == "MPC":
            return "MPCOP[%d]" % i
        return "%s.address[%d]" % (dfi, i)
    return None


def adapter_matrix(v, nbits):
    """{case path: {(slot, bit): term}} for slots 0..3 of the adapter output, plus cs per path"""
    top_map = {}
    for l in v.leaves:
        if l.inst == "" and l.kind == "assign" and isinstance(l.target, Obj) and re.match(r"^ca\[\d\]$", str(l.target)):
            top_map[key(l.value)] = int(str(l.target)[3])
    out = {}
    cs = {}
    for l in v.leaves:
        if l.kind != "assign" or l.inst != "":
            continue
        path = []
        for c, p in l.guards:
            if isinstance(c, Op) and c.op == "case":
                kv = c.args[1]
                path.append((key(c.args[0]), kv.v if isinstance(kv, Const) else str(kv)))
        if not path:
            continue
        pk = tuple(path)
        t = l.target
        if isinstance(t, Op) and t.op == "index" and isinstance(t.args[1], Const) and key(t.args[0]) in top_map:
            out.setdefault(pk, {})[(top_map[key(t.args[0])], t.args[1].v)] = l.value
        elif key(t) in ("cmd1.cs[0]", "cmd2.cs[0]", "cmd1.cs", "cmd2.cs") and is1(l.value):
            cs.setdefault(pk, set()).add(0 if key(t).startswith("cmd1") else 1)
        elif key(t) == "valid":
            cs.setdefault(pk, set()).add("valid" if is1(l.value) else "invalid")
    return out, cs


def encoder(ctx, gen):
    ob = ctx.ob("C20.%d" % (1 if gen == 4 else 3),
                ("LPDDR4 encoder resolved statically: for every DFI command (and masked / unmasked write, MPC / MRR via bank) each of the 4x6 CA "
                 "values equals the JEDEC truth table of refdata/lpddr4_commands.json (H/L constants, BA/R/C/MA/OP/AP/AB operand bits), sub-commands sit in "
                 "the documented slots (single commands in the second slot) and CS is high exactly for non-DESELECT slots") if gen == 4 else
                ("LPDDR5 encoder resolved statically: every DFI command maps to the documented sub-command pair, every CA bit is what the module's own "
                 "truth table says at that position, operand symbols resolve to the documented DFI bits (MRW: MA from bank, OP from address unmodified; "
                 "MPC: ZQ-latch substitution only there; C bits offset by 4), CS high exactly for non-DES slots"), 8)
    mod = "litedram.phy.lpddr%d.commands" % gen
    nbits = 6 if gen == 4 else 7
    el = Elab(ctx.repo)
    env = el.modenv(mod)
    if env is None:
        ob.unknown("%s vanished" % mod)
        return None
    raw = el.find_class_const(env.vars.get("Command"), "TRUTH_TABLE")
    if not isinstance(raw, DictV):
        ob.unknown("Command.TRUTH_TABLE not a literal dict")
        return None
    if gen == 4:
        table = {k.v: [x.v.split() for x in v.items] for k, v in raw.items}
        with open(os.path.join(VERIF, "refdata", "lpddr4_commands.json")) as f:
            R = json.load(f)
        reft = {k: [x.split() for x in v] for k, v in R["truth_table"].items()}
        dmap = R["dfi_map"]
        # literal comparison of the module's table with the JEDEC table: a cell that is a constant (H / L) or a JEDEC operand symbol in BOTH tables and differs is a
        # positive witness.  A cell holding a symbol of the module's own (e.g. one row serving two commands through a selector bit) or a missing row is a
        # restructured table: what it encodes is decided by the resolved comparison below, not here.
        known_syms = {c_ for rows_ in reft.values() for r_ in rows_ for c_ in r_}
        for k, v in table.items():
            if k in reft and reft[k] != v:
                diff = [(i_, j_, v[i_][j_], reft[k][i_][j_]) for i_ in range(min(len(v), len(reft[k]))) for j_ in range(min(len(v[i_]), len(reft[k][i_])))
                        if v[i_][j_] != reft[k][i_][j_]]
                hard = [d_ for d_ in diff if d_[2] in known_syms]
                if hard or len(v) != len(reft[k]) or any(len(a_) != len(b_) for a_, b_ in zip(v, reft[k])):
                    ob.refute("table:%s" % k, "LPDDR4 TRUTH_TABLE[%s] = %s, JEDEC: %s" % (k, v, reft[k]), None)
                else:
                    ob.instance("TRUTH_TABLE[%s] uses module-local symbols" % k, {"cells": diff})
        missing_rows = [k for k in reft if k not in table]
        if missing_rows:
            ob.instance("JEDEC rows without a row of their own in the module's table", missing_rows)
        spec = reft
    else:
        table = lp5_table({k.v: v.v for k, v in raw.items})
        dmap = LP5_MAP
        spec = table
    for mw in (0, 1):
        v = elab(ctx, mod, "DFIPhaseAdapter", kwargs={"dfi_phase": Sym("dfi"), "masked_write": Const(bool(mw))})
        mat, cs = adapter_matrix(v, nbits)
        if not ob.need(len(mat) >= 8, "encoder statements not resolved (only %d case paths)" % len(mat)):
            return None
        mpcop = None
        for l in v.leaves:
            if l.kind == "assign" and "mpc_op" in key(l.target) and not is_const(l.value):
                mpcop = True
        for dk, subs in dmap.items():
            name, _, sub = dk.partition(":")
            if name == "WR" and int(sub) != mw:
                continue
            code = DFI_CODE[name]
            paths = [p for p in mat if p[0][1] == code and (len(p) == 1 or name in ("ZQC",) and str(p[-1][1]) == sub or name == "WR")]
            if name == "ZQC":
                paths = [p for p in mat if p[0][1] == code and len(p) >= 2 and str(p[-1][1]) == sub]
            elif name == "WR":
                # masked / unmasked write is chosen by a configuration constant: by a two-entry Case (whose live arm has key == selector)
                # or by an If/Else the elaborator has already folded (then the path has no second element)
                def live(p):
                    for sel_, val_ in p[1:]:
                        cv = {"True": 1, "False": 0}.get(sel_, int(sel_) if sel_.lstrip("-").isdigit() else None)
                        if cv is None or int(val_) != cv:
                            return False
                    return True
                paths = [p for p in mat if p[0][1] == code and live(p)]
            else:
                paths = [p for p in mat if p == ((p[0][0], code),)]
            if not ob.need(len(paths) == 1, "LPDDR%d: case path for DFI %s not found (%s)" % (gen, dk, [p for p in mat if p[0][1] == code])):
                continue
            m_ = mat[paths[0]]
            bad = []
            for slot in range(4):
                sc = subs[slot // 2]
                syms = spec[sc][slot % 2]
                for b, sym in enumerate(syms):
                    exp = expected_source(sym, sc, gen)
                    got = m_.get((slot, b))
                    if exp is None:
                        continue
                    gk = key(got) if got is not None else None
                    if exp.startswith("MPCOP"):
                        okb = False
                        if isinstance(got, Op) and got.op == "index" and key(got.args[1]) == exp[6:-1]:
                            ds = v.drivers(got.args[0])
                            vals = sorted(key(d.value) for d in ds)
                            gds = [v.guard_keys(d, False) for d in ds]
                            okb = len(ds) == 2 and "dfi.address" in vals and any(isinstance(d.value, Const) for d in ds) and \
                                all(g in ({"~dfi.address"}, {"dfi.address"}) for g in gds)
                    else:
                        okb = gk == exp
                    if not okb:
                        bad.append("slot %d CA%d (%s of %s): %s, expected %s" % (slot, b, sym, sc, gk, exp))
            want_cs = {i for i, sc in enumerate(subs) if sc not in ("DESELECT", "DES")} | {"valid"}
            got_cs = cs.get(paths[0], set())
            if mw == 1 or name == "WR":
                ob.instance("LPDDR%d DFI %s -> %s" % (gen, dk, subs), {"cs": sorted(map(str, got_cs)), "mismatches": len(bad)})
            if bad:
                ob.refute("encode:%s" % dk, "LPDDR%d: DFI %s is encoded wrongly: %s" % (gen, dk, "; ".join(bad[:4])), None, bad)
            if got_cs != want_cs:
                ob.refute("cs:%s" % dk, "LPDDR%d: DFI %s drives CS/valid %s, expected %s" % (gen, dk, sorted(map(str, got_cs)), sorted(map(str, want_cs))), None)
        # default paths must be invalid
        for p, st in cs.items():
            if p[-1][1] == "default" and "valid" in st:
                ob.refute("default-valid:%s" % (p,), "LPDDR%d: an unknown DFI command is marked valid" % gen, None)
    return table


def is_const(t):
    return isinstance(t, Const)


def decoder_agreement(ctx, gen, table):
    ob = ctx.ob("C20.2" if gen == 4 else "C20.5", "LPDDR%d writer/reader agreement: every opcode constant the bundled DRAM simulator compares the first CA word with "
                "equals the constant prefix of exactly the encoder truth-table commands, and every encoded command family is recognised" % gen, 6)
    simmod = ctx.repo.module("litedram.phy.lpddr%d.sim" % gen)
    if not ob.need(simmod is not None and table is not None, "sim.py / table not available"):
        return
    sig = "cs_high" if gen == 4 else "ca_p"
    consts = []
    for fn in ast.walk(simmod.tree):
        if not isinstance(fn, ast.FunctionDef):
            continue
        local = {}
        dictvals = {}
        for n in ast.walk(fn):
            if isinstance(n, ast.Assign) and len(n.targets) == 1 and isinstance(n.targets[0], ast.Name):
                if isinstance(n.value, ast.Constant) and isinstance(n.value.value, int):
                    local[n.targets[0].id] = [n.value.value]
                elif isinstance(n.value, ast.Dict):
                    vals = [v.value for v in n.value.values if isinstance(v, ast.Constant) and isinstance(v.value, int)]
                    if vals:
                        dictvals[n.targets[0].id] = vals
        for n in ast.walk(fn):
            if isinstance(n, ast.Compare) and isinstance(n.left, ast.Subscript) and isinstance(n.left.value, ast.Attribute) and n.left.value.attr == sig \
                    and isinstance(n.left.slice, ast.Slice) and n.left.slice.lower is None and isinstance(n.left.slice.upper, ast.Constant) \
                    and isinstance(n.ops[0], ast.Eq):
                N = n.left.slice.upper.value
                c = n.comparators[0]
                vals = []
                if isinstance(c, ast.Constant) and isinstance(c.value, int):
                    vals = [c.value]
                elif isinstance(c, ast.Name):
                    vals = local.get(c.id) or [x for vs in dictvals.values() for x in vs]
                for val in vals:
                    consts.append((fn.name, N, val))
    if not ob.need(len(consts) >= 6, "fewer than 6 opcode comparisons found in the simulator (%d)" % len(consts)):
        return
    jedec_syms = None
    if gen == 4:
        try:
            with open(os.path.join(VERIF, "refdata", "lpddr4_commands.json")) as f_:
                jedec_syms = {c_ for rows_ in json.load(f_)["truth_table"].values() for r_ in rows_ for c_ in r_.split()}
        except Exception:
            jedec_syms = None
    pre = {}
    for name, (e0, e1) in table.items():
        if name in ("DESELECT", "DES"):
            continue
        bits = []
        for s in e0:
            if s in ("H", "L"):
                bits.append(1 if s == "H" else 0)
            elif jedec_syms is not None and s not in jedec_syms:
                bits.append(None)         # a selector symbol of the module's own (one row serving two commands): either value
            else:
                break
        while bits and bits[-1] is None:
            bits.pop()
        pre[name] = bits
    seen = set()
    for fname, N, val in consts:
        want = [(val >> i) & 1 for i in range(N)]
        hits = [n for n, b in pre.items() if len(b) >= N and all(x_ is None or x_ == w_ for x_, w_ in zip(b[:N], want))]
        ob.instance("%s: %s[:%d] == %s" % (fname, sig, N, bin(val)), hits)
        if not hits:
            ob.refute("decode-const:%s:%d:%s" % (fname, N, bin(val)), "LPDDR%d simulator %s recognises %s[:%d] == %s, which no encoder command emits as "
                      "its constant prefix (encoder prefixes: %s)" % (gen, fname, sig, N, bin(val), {k: "".join("x" if x_ is None else str(x_) for x_ in b) for k, b in pre.items()}), None)
        seen |= set(hits)
    need = {"ACTIVATE-1", "ACTIVATE-2", "PRECHARGE", "REFRESH", "MRW-1", "MRW-2", "CAS-2", "READ-1", "WRITE-1", "MASK WRITE-1", "MPC"} if gen == 4 else \
        {"ACT-1", "ACT-2", "PRE", "REF", "MRW-1", "MRW-2", "CAS", "MPC"}
    for n in sorted((need & set(pre)) - seen):
        ob.refute("decode-missing:%s" % n, "LPDDR%d: no simulator handler recognises the encoder's %s prefix %s" % (gen, n, pre.get(n)), None)
    # encoder prefixes must be mutually distinguishable
    names = sorted(pre)
    for i, a in enumerate(names):
        for b in names[i + 1:]:
            n = min(len(pre[a]), len(pre[b]))
            if n and pre[a][:n] == pre[b][:n] and len(pre[a]) == len(pre[b]) and None not in pre[a][:n]:
                ob.refute("ambiguous:%s/%s" % (a, b), "LPDDR%d: commands %s and %s have the same constant prefix" % (gen, a, b), None)


def pipeline(ctx):
    ob = ctx.ob("C20.4", "pipeline slot arithmetic: CS bit-slip = phase, CA bit-slip = phase*(ca_width/cs_width); the overlap mask of phase p looks at "
                         "exactly the span-1 previous phases [nphases+p-(span-1), nphases+p) of a history that is wide enough (2*nphases bits)", 6)
    nph, span = 8, 4
    ads = []
    for i in range(nph):
        a = pobj("a%d" % i)
        ads.append(a)
    for ext in (False, True):
        v = elab(ctx, "litedram.phy.utils", "CommandsPipeline", args=[ListV(ads)],
                 kwargs={"cs_ser_width": Const(8), "ca_ser_width": Const(8), "ca_nbits": Const(6), "cmd_nphases_span": Const(span), "extended_overlaps_check": Const(ext)})
        slips = [o for o in v.d.instances.values() if o.cls == "ConstBitSlip"]
        cs_bs = [o for o in slips if key(o.kwargs.get("dw")) == "8" and any(l.kind == "assign" and key(l.target) == str(o) + ".i" and ".cs" in key(l.value) for l in v.leaves)]
        if not ob.need(len(cs_bs) == nph, "ext=%s: expected %d CS bit-slips, found %d" % (ext, nph, len(cs_bs))):
            continue
        cs_win = {}
        for ph, o in enumerate(cs_bs):
            slp = o.kwargs.get("slp")
            if not (isinstance(slp, Const) and slp.v == ph):
                ob.refute("cs-slip:%d" % ph, "phase %d's CS is slipped by %s bits, expected %d" % (ph, key(slp), ph), o.loc)
            ins = [l for l in v.leaves if l.kind == "assign" and key(l.target) == str(o) + ".i"]
            win = None
            base = None
            for t in subterms(ins[0].value):
                if isinstance(t, Op) and t.op == "slice" and isinstance(t.args[1], Const) and isinstance(t.args[2], Const) and "cs" not in key(t.args[0]):
                    win, base = (t.args[1].v, t.args[2].v), t.args[0]
            if win is None:
                # no mask at all on the way into the bit-slip: the slipped word spans the cycle boundary, so a mask applied later (to the outputs, or one cycle
                # late) cannot cut exactly the slots of the suppressed command
                if not any(isinstance(t_, (Obj, Sym)) and ".cs" not in key(t_) and "cs" != key(t_) for t_ in subterms(ins[0].value) if not isinstance(t_, Op)):
                    ob.refute("cs-unmasked:%s:%d" % (ext, ph), "phase %d: CS enters its bit-slip as %s, without the overlap mask: a command that overlaps one still in flight "
                              "is not suppressed where it is issued (masking the slipped outputs later also removes the carried-over slots of legal commands)" %
                              (ph, key(ins[0].value)[:100]), ins[0].loc)
                else:
                    ob.unknown("ext=%s phase %d: overlap window slice not found in %s" % (ext, ph, key(ins[0].value)[:120]))
                continue
            bw = None
            if isinstance(base, Obj):
                w = base.args[0] if base.args else (base.meta.get("like").args[0] if isinstance(base.meta.get("like"), Obj) and base.meta.get("like").args else None)
                bw = w.v if isinstance(w, Const) else None
            exp = (nph + ph - (span - 1), nph + ph)
            cs_win[ph] = (key(base), win)
            if ph in (0, 5, 7):
                ob.instance("ext=%s phase %d overlap window" % (ext, ph), {"history": key(base), "history_width": bw, "window": win, "expected": exp})
            if win != exp:
                ob.refute("window:%s:%d" % (ext, ph), "phase %d masks on history bits [%d,%d), expected [%d,%d) (the %d previous phases)" %
                          (ph, win[0], win[1], exp[0], exp[1], span - 1), ins[0].loc)
            if bw is None:
                ob.unknown("ext=%s phase %d: width of the history signal %s unknown" % (ext, ph, key(base)))
            elif bw < exp[1]:
                ob.refute("history-width:%s:%d" % (ext, ph), "phase %d's overlap window [%d,%d) does not fit the %d-bit history signal %s: the slice is "
                          "clipped silently and a command overlapping a command issued on the previous phases is no longer suppressed" %
                          (ph, exp[0], exp[1], bw, key(base)), ins[0].loc)
        if ext:
            # the refined history: bit i is "really sent" = valid and no really-sent command on the span-1 phases before it (same window as the mask)
            nref = 0
            for l in v.leaves:
                if l.inst != "" or l.kind != "assign" or not (isinstance(l.target, Op) and l.target.op == "index" and isinstance(l.target.args[1], Const)):
                    continue
                hb = l.target.args[0]
                i_ = l.target.args[1].v
                sl = [t for t in subterms(l.value) if isinstance(t, Op) and t.op == "slice" and t.args[0] is hb and isinstance(t.args[1], Const) and isinstance(t.args[2], Const)]
                if not sl:
                    continue
                nref += 1
                got_w = (sl[0].args[1].v, sl[0].args[2].v)
                exp_w = (max(0, i_ - (span - 1)), i_)
                if i_ in (0, 4, 15):
                    ob.instance("ext=True refined history bit %d" % i_, {"window": got_w, "expected": exp_w})
                if got_w != exp_w:
                    ob.refute("refined-window:%d" % i_, "extended overlap check: history bit %d is cleared by really-sent commands on bits [%d,%d), expected [%d,%d) (the %d "
                              "previous phases): a command exactly %d phases after a sent one is marked as not sent although it is, so a following command is "
                              "OR-ed on top of it" % (i_, got_w[0], got_w[1], exp_w[0], exp_w[1], span - 1, span), l.loc)
            if nref < 2 * nph:
                ob.unknown("ext=True: refined history definition found for %d of %d bits" % (nref, 2 * nph))
        ca_bs = [o for o in slips if o not in cs_bs and any(l.kind == "assign" and key(l.target) == str(o) + ".i" and ".ca" in key(l.value) for l in v.leaves)]
        if ob.need(len(ca_bs) == nph * 6, "ext=%s: expected %d CA bit-slips, found %d" % (ext, nph * 6, len(ca_bs))):
            for idx, o in enumerate(ca_bs):
                ph = idx // 6
                slp = o.kwargs.get("slp")
                if not (isinstance(slp, Const) and slp.v == ph * 1):
                    ob.refute("ca-slip:%d" % ph, "phase %d's CA is slipped by %s, expected phase*ca_phase_slip = %d" % (ph, key(slp), ph), o.loc)
                # a suppressed command must be suppressed on EVERY pin: the CA lanes of all phases are OR-ed together, so an unmasked CA pattern of a
                # suppressed command corrupts the command still in flight
                ins = [l for l in v.leaves if l.kind == "assign" and key(l.target) == str(o) + ".i"]
                wins = {(key(t.args[0]), (t.args[1].v, t.args[2].v)) for l in ins for t in subterms(l.value)
                        if isinstance(t, Op) and t.op == "slice" and isinstance(t.args[1], Const) and isinstance(t.args[2], Const) and ".ca" not in key(t.args[0])}
                if idx % 6 == 0 and ph in (0, 7):
                    ob.instance("ext=%s phase %d CA lane 0 mask" % (ext, ph), {"mask windows": sorted(map(str, wins)), "cs window": str(cs_win.get(ph))})
                if ph in cs_win and cs_win[ph] not in wins:
                    ob.refute("ca-unmasked:%s:%d" % (ext, ph), "phase %d: CA lane %d enters its bit-slip as %s, without the overlap mask its CS uses (history %s bits [%d,%d)): when the "
                              "command of this phase is suppressed its CA bits are still OR-ed into the command in flight and change that command's bank / row / opcode" %
                              (ph, idx % 6, key(ins[0].value)[:120] if ins else None, cs_win[ph][0], cs_win[ph][1][0], cs_win[ph][1][1]), o.loc)


def phy_wiring(ctx):
    """C20.6: how the LPDDR4 base PHY puts encoder and pipeline together (the file is one of the property's anchors)"""
    ob = ctx.ob("C20.6", "LPDDR4 base PHY: one command adapter per DFI phase in phase order feeds the pipeline; the pipeline's overlap span equals the number of slots a "
                         "command occupies in the adapter; CS / every CA line of the pads is the pipeline's line of the same index", 3)
    try:
        v = elab(ctx, "litedram.phy.lpddr4.basephy", "LPDDR4PHY", kwargs={"pads": pobj("pads"), "sys_clk_freq": Sym("sys_clk_freq"), "ser_latency": pobj("ser_latency"),
                                                                       "des_latency": pobj("des_latency"), "phytype": Const("X")},
                 opaque=("DFIPhaseAdapter", "CommandsPipeline", "DQOePattern", "DQSPattern", "ConstBitSlip", "TappedDelayLine", "Latency"))
    except Exception as e:
        ob.unknown("LPDDR4PHY not elaborated (%s)" % str(e)[:80])
        return
    cp = [o for o in v.d.objs if o.cls == "CommandsPipeline"]
    ads = [o for o in v.d.objs if o.cls == "DFIPhaseAdapter"]
    if not ob.need(len(cp) == 1 and len(ads) >= 2, "command pipeline / phase adapters not found in LPDDR4PHY (%d / %d)" % (len(cp), len(ads))):
        return
    lst = cp[0].kwargs.get("adapters", cp[0].args[0] if cp[0].args else None)
    order = [str(x) for x in lst.items] if isinstance(lst, ListV) else None
    phases = {str(o): key(o.kwargs.get("dfi_phase", o.args[0] if o.args else None)) for o in ads}
    ob.instance("adapters handed to the pipeline", {"order": [phases.get(n_) for n_ in (order or [])]})
    if order is None:
        ob.unknown("the pipeline's adapter list is not a resolved list")
    else:
        got = [phases.get(n_) for n_ in order]
        exp = ["dfi.p%d" % i for i in range(len(got))]
        if got != exp or len(got) != len(ads):
            ob.refute("adapter-order", "the pipeline receives the adapters of phases %s, expected one adapter per DFI phase in phase order %s: a command is emitted at the slot of "
                      "another phase (or a phase has no adapter)" % (got, exp), cp[0].loc)
    # slots per command: the length of the adapter's CS / CA lists
    a4 = elab(ctx, "litedram.phy.lpddr4.commands", "DFIPhaseAdapter", kwargs={"dfi_phase": Sym("dfi"), "masked_write": Const(True)})
    cs_attr = a4.top.attrs.get("cs")
    nslots = None
    if isinstance(cs_attr, Obj) and cs_attr.args and isinstance(cs_attr.args[0], Const):
        nslots = cs_attr.args[0].v
    ca_attr = a4.top.attrs.get("ca")
    if nslots is None and isinstance(ca_attr, ListV):
        nslots = len(ca_attr.items)
    span = cp[0].kwargs.get("cmd_nphases_span")
    ob.instance("overlap span", {"cmd_nphases_span": key(span) if span is not None else None, "slots per command in the adapter": nslots})
    if nslots is None or span is None:
        ob.unknown("slots per command / cmd_nphases_span not resolved")
    elif not (isinstance(span, Const) and span.v == nslots):
        ob.refute("span", "the pipeline masks overlaps over %s phases but an LPDDR4 command occupies %d slots: a command issued %s phases after another one is OR-ed onto its "
                  "tail" % (key(span), nslots, key(span)), cp[0].loc)
    cab = cp[0].kwargs.get("ca_nbits")
    pins = {}
    for l in v.leaves:
        if l.inst == "" and l.kind == "assign" and key(l.target).startswith("out.c"):
            pins[key(l.target)] = key(l.value)
    ob.instance("pad lines", pins)
    nca = cab.v if isinstance(cab, Const) else None
    want = {"out.cs": str(cp[0]) + ".cs"}
    for b in range(nca or 0):
        want["out.ca[%d]" % b] = "%s.ca[%d]" % (cp[0], b)
    bad = {k_: pins.get(k_) for k_, w_ in want.items() if pins.get(k_) != w_}
    if nca is None:
        ob.unknown("ca_nbits not resolved")
    elif bad:
        ob.refute("pad-lines", "pad lines %s are not driven by the pipeline line of the same index (expected %s)" % (bad, {k_: want[k_] for k_ in bad}), cp[0].loc)


def lp5_slots(ctx):
    """C20.7: LPDDR5 base PHY - a DFI command is two CA words; the second one is buffered for the next CK"""
    ob = ctx.ob("C20.7", "LPDDR5 base PHY slot sequencing: the pads carry the buffered second word when one is pending, else the first word of a command presented now, "
                         "else idle; the second word of a command is buffered exactly when its first word is emitted (a command arriving while a second word is going out "
                         "is ignored as a whole); the buffered word is the adapter's second word", 3)
    from ..ceval import CEval
    from ..bits import Unresolved
    import itertools
    try:
        v = elab(ctx, "litedram.phy.lpddr5.basephy", "LPDDR5PHY", kwargs={"pads": pobj("pads"), "sys_clk_freq": Sym("sys_clk_freq"), "ser_latency": pobj("ser_latency"),
                                                                       "des_latency": pobj("des_latency"), "phytype": Const("X")},
                 opaque=("DFIPhaseAdapter", "TappedDelayLine", "DQOePattern", "DQSPattern", "ConstBitSlip", "Latency", "HoldValid"))
    except Exception as e:
        ob.unknown("LPDDR5PHY not elaborated (%s)" % str(e)[:80])
        return
    bufs = [o for o in v.d.objs if o.cls in ("PipeValid", "Buffer") and v.drivers(str(o) + ".sink.valid")]
    ads = [o for o in v.d.objs if o.cls == "DFIPhaseAdapter"]
    if not ob.need(len(bufs) == 1 and len(ads) == 1, "second-word buffer / command adapter not found in LPDDR5PHY (%d / %d)" % (len(bufs), len(ads))):
        return
    B, A = str(bufs[0]), str(ads[0])
    bv, av = B + ".source.valid", A + ".valid"
    push = v.single_comb_def(Sym(B + ".sink.valid"))
    if ob.need(push is not None, "push condition of the second-word buffer not a single definition"):
        want = [Sym(av), Op("~", (Sym(bv),))]
        r1, c1 = implies([push], want)
        r2, c2 = implies(want, [push])
        ob.instance("second-word push", {"condition": key(push), "== first word emitted now (adapter.valid & ~pending)": bool(r1 and r2)})
        if r1 is False:
            ob.refute("lp5-push", "the second word is buffered under %s, also when %s: the first word of that command is not emitted (a buffered second word is going out / no "
                      "command is presented), so its second word later appears alone on CS/CA and overwrites another command's slot" %
                      (key(push), sorted(k_ if x_ else "~" + k_ for k_, x_ in c1.items())), v.drivers(B + ".sink.valid")[0].loc)
        elif r2 is False:
            ob.refute("lp5-push", "the second word is not buffered although the first word is emitted (%s false for %s): the command loses its second half" %
                      (key(push), sorted(k_ if x_ else "~" + k_ for k_, x_ in c2.items())), v.drivers(B + ".sink.valid")[0].loc)
    pay = {f_: v.single_comb_def(Sym("%s.sink.%s" % (B, f_))) for f_ in ("cs", "ca_p", "ca_n")}
    exp_pay = {"cs": A + ".cmd2.cs", "ca_p": A + ".cmd2.ca[0]", "ca_n": A + ".cmd2.ca[1]"}
    ob.instance("buffered payload", {f_: key(t_) if t_ is not None else None for f_, t_ in pay.items()})
    for f_, t_ in pay.items():
        if t_ is not None and key(t_) != exp_pay[f_]:
            ob.refute("lp5-payload:%s" % f_, "the buffer's %s is %s, expected the adapter's second word %s" % (f_, key(t_), exp_pay[f_]), None)
    # pad lines by truth table
    cfg = {"len(%s.source.ca_p)" % B: 7, "len(%s.source.ca_n)" % B: 7, "len(%s.cmd1.ca[0])" % A: 7, "len(%s.cmd1.ca[1])" % A: 7}
    bad = None
    n = 0
    try:
        for pend, val in itertools.product((0, 1), repeat=2):
            for bits in itertools.product((0, 1), repeat=2):
                env = {bv: pend, av: val, B + ".source.cs": bits[0], A + ".cmd1.cs": bits[1],
                       B + ".source.ca_p": 0x7F if bits[0] else 0, B + ".source.ca_n": 0x7F if bits[0] else 0,
                       A + ".cmd1.ca[0]": 0x7F if bits[1] else 0, A + ".cmd1.ca[1]": 0x7F if bits[1] else 0}
                ce = CEval(v, env, cfg)
                exp = bits[0] if pend else (bits[1] if val else 0)
                for line in ("out.cs", "out.ca[0][0]", "out.ca[3][1]", "out.ca[6][0]", "out.ca[6][1]"):
                    t_ = Sym("out.cs") if line == "out.cs" else Op("index", (Op("index", (Sym("out.ca"), Const(int(line[7])))), Const(int(line[10]))))
                    dk_ = key(t_)
                    ds_ = sorted(v.drivers(dk_), key=lambda l_: l_.order)
                    if not ds_:
                        raise Unresolved("no driver of %s" % dk_)
                    got = 0
                    for l_ in ds_:          # last assignment whose guards hold wins
                        if ce.guard_true(l_, ds_):
                            got = ce.val(l_.value) & 1
                    n += 1
                    if got != exp and bad is None:
                        bad = (line, pend, val, bits, got, exp)
    except Unresolved as e:
        ob.unknown("pad lines of LPDDR5PHY not evaluable (%s)" % e)
        return
    ob.instance("pad line truth table", {"rows": n}, nontrivial=True)
    if bad:
        line, pend, val, bits, got, exp = bad
        ob.refute("lp5-pads:%s" % line, "%s is %d with pending second word=%d, command presented=%d, (buffered bit, first-word bit)=%s; expected %d (pending second word first, "
                  "then a new first word, else idle)" % (line, got, pend, val, bits, exp), None)


def run(ctx):
    phy_wiring(ctx)
    lp5_slots(ctx)
    t4 = encoder(ctx, 4)
    decoder_agreement(ctx, 4, t4)
    t5 = encoder(ctx, 5)
    decoder_agreement(ctx, 5, t5)
    pipeline(ctx)
    ctx.assume("LPDDR4 reference table transcribed by hand from JESD209-4; for LPDDR5 no reference table is armed (its own table + decoder agreement only); "
               "multi-cycle overlap behaviour and serializer timing are not decided")
