"""C01 - every read returns the last bytes written (whole core): ordering, pairing, alignment and routing clauses."""
from ..ruleutil import *
from .c03 import BMRoles, MuxRoles, mux_view, BM, MUX

XBAR = ("litedram.core.crossbar", "LiteDRAMCrossbar")


def xbar_view(ctx, nbanks=2, nmasters=2, modes=None):
    return elab(ctx, *XBAR, overrides={"controller.nbanks": Const(nbanks), "controller.nranks": Const(1), "self.finalized": Const(False),
                                       "controller.settings.address_mapping": Const("ROW_BANK_COL")},
                calls=tuple(("get_port", (), ({"mode": Const(modes[i])} if modes else {})) for i in range(nmasters)) + (("do_finalize", (), {}),))


def bank_queue(ctx):
    ob = ctx.ob("C01.1", "per-bank FIFO discipline: the request record feeds a SyncFIFO whose output feeds a one-entry Buffer by whole-record "
                         "connects; command address / row compare / direction depend on the request only through the Buffer's output (queue "
                         "head), the look-ahead entry is read only by the auto-precharge comparison; the head is popped iff its column command "
                         "is accepted (wdata_ready / rdata_valid = cmd.ready on a path that presents cas under row_opened & row_hit with matching "
                         "direction)", 8)
    for ap in (True, False):
        R = BMRoles(ctx, ob, {"settings.with_auto_precharge": ap})
        if not R.ok:
            return
        v = R.v
        tag = "auto_precharge=%s" % ap
        fifos = [o for o in v.d.objs if o.cls == "SyncFIFO"]
        bufs = [o for o in v.d.objs if o.cls == "Buffer"]
        if not ob.need(len(fifos) == 1 and len(bufs) == 1, "%s: expected one SyncFIFO and one Buffer in the bank machine" % tag):
            return
        fk, bk = str(fifos[0]), str(bufs[0])
        req = key(R.req)
        c1 = find_connect(v, src=req, dst=fk + ".sink")
        c2 = find_connect(v, src=fk + ".source", dst=bk + ".sink")
        ob.instance("%s: queue connects" % tag, [str(c.stmt) for c in c1 + c2])
        other = [l for l in v.leaves if l.kind == "assign" and (key(l.target).startswith(fk + ".sink.") or key(l.target).startswith(bk + ".sink."))]
        # payload fields of the first stage that are computed from the request itself (e.g. the address stored as separate row / column fields) are another
        # representation of the same entry; anything else driving a queue input is a second writer
        derived = [l for l in other if key(l.target).startswith(fk + ".sink.") and key(l.target).rsplit(".", 1)[-1] not in ("valid", "ready", "first", "last")
                   and not l.guards and isinstance(l.value, V) and any(s_.startswith(req + ".") for s_ in support(l.value))
                   and not any((not s_.startswith(req + ".")) and (v.drivers(s_) or s_.startswith((fk + ".", bk + "."))) for s_ in support(l.value))]
        hs_ok = len(c1) == 1 and not c1[0].guards and (c1[0].stmt.keep is None or {"valid", "ready"} <= c1[0].stmt.keep) and \
            not (c1[0].stmt.omit and c1[0].stmt.omit & {"valid", "ready"})
        full_ok = hs_ok and (c1[0].stmt.keep is None or {"we", "addr"} <= c1[0].stmt.keep) and not (c1[0].stmt.omit and c1[0].stmt.omit & {"we", "addr"})
        if not full_ok:
            if hs_ok and derived:
                ob.unknown("%s: the request enters the look-ahead FIFO as %s plus derived payload fields %s: this entry layout is not understood" %
                           (tag, [str(c.stmt) for c in c1], [key(l.target) for l in derived]))
                return
            ob.refute("req-connect", "the request record is not connected to the look-ahead FIFO with valid/ready/we/addr: %s" % [str(c.stmt) for c in c1], None)
        if len(c2) != 1 or c2[0].guards or c2[0].stmt.keep is not None or c2[0].stmt.omit:
            ob.refute("fifo-connect", "the look-ahead FIFO is not connected whole to the one-entry buffer: %s" % [str(c.stmt) for c in c2], None)
        for l in other:
            if l in derived and not full_ok:
                continue
            ob.refute("queue-extra-driver", "%s is also driven outside the queue connects: %s" % (key(l.target), l), l.loc)
        # cone of influence
        cmdk = key(R.cmd)
        look_users = []
        for l in v.leaves:
            if l.inst != "":
                continue
            sup = set()
            if l.value is not None and l.kind in ("assign", "nextvalue"):
                sup |= support(l.value)
            for c, p in l.guards:
                sup |= support(c)
            if any(s.startswith(fk + ".source.") and not s.endswith(".valid") for s in sup):
                look_users.append(l)
        a10 = None
        for l in v.drivers(cmdk + ".a"):
            for t in subterms(l.value):
                if isinstance(t, Op) and t.op == "<<" and isinstance(t.args[1], Const) and t.args[1].v == 10:
                    a10 = key(t.args[0])
        bad = [l for l in look_users if not (l.kind == "assign" and key(l.target) == a10)]
        ob.instance("%s: readers of the look-ahead entry's payload" % tag, [str(l)[:160] for l in look_users])
        for l in bad:
            tk = key(l.target) if l.target is not None else None
            # positive witness: what the DRAM sees (the command record), the row the machine believes open, or the FSM's course
            if tk is None or l.kind == "next" or tk.startswith(cmdk + ".") or tk == key(R.belief):
                ob.refute("lookahead-read:%s" % tk, "%s depends on the look-ahead FIFO's output payload, not on the queue head: %s" %
                          (tk if tk is not None else "a transition", str(l)[:200]), l.loc)
            else:
                ob.unknown("%s: %s is computed from the look-ahead FIFO's output payload (%s): whether it is only used once that entry has become the "
                           "queue head is not decided" % (tag, tk, str(l)[:160]))
        heads = 0
        for tgt in (cmdk + ".a", key(R.belief)):
            for l in v.drivers(tgt):
                pass
        for l in v.drivers(cmdk + ".a"):
            if bk + ".source.addr" in support(l.value):
                heads += 1
        if heads < 1:
            ob.refute("addr-not-head", "cmd.a does not derive from the queue head's address (%s.source.addr)" % bk, None)
        # pop-iff-issue
        rd = v.single_comb_def(Sym(bk + ".source.ready"))
        pops = litset(disj(rd)) if rd is not None else set()
        ob.instance("%s: head pop condition" % tag, sorted(pops))
        if pops != {req + ".wdata_ready", req + ".rdata_valid"}:
            ob.refute("pop", "the queue head is popped under %s, expected req.wdata_ready | req.rdata_valid" % sorted(pops), None)
        col = [s for s, r_ in R.sites.items() if r_ == "COL"][0]
        site = v.guard_keys(R.site_leaves[col][0], False)
        need_site = {bk + ".source.valid", key(R.belief)}
        if not need_site <= site:
            ob.refute("col-site-guard", "the column command is presented under %s, which lacks %s" % (sorted(site), sorted(need_site - site)), R.site_leaves[col][0].loc)
        for nm, pol, strobe in (("wdata_ready", True, "is_write"), ("rdata_valid", False, "is_read")):
            ds = v.drivers(req + "." + nm)
            ob.instance("%s: %s drivers" % (tag, nm), [str(d) for d in ds])
            if not ds:
                ob.refute("no-driver:%s" % nm, "req.%s is never driven" % nm, None)
            for d in ds:
                g = v.guard_keys(d, False)
                wek = bk + ".source.we"
                okd = key(d.value) == cmdk + ".ready" and d.state == col and site <= g and ((wek in g) if pol else ("~" + wek in g))
                if okd:
                    # same path must assert cas and the matching class
                    ls = v.fsm_leaves(R.fsm, col)
                    cas = [x for x in v.asserted(ls, cmdk + ".cas") if v.guard_keys(x, False) <= g]
                    cls_ = [x for x in v.asserted(ls, cmdk + "." + strobe) if v.guard_keys(x, False) <= g]
                    okd = bool(cas) and bool(cls_)
                if not okd:
                    ob.refute("strobe:%s" % nm, "req.%s is driven by `%s`: expected = cmd.ready, in the column state, under queue-head valid & "
                              "row_opened & row_hit & %swe, together with cas and %s" % (nm, d, "" if pol else "~", strobe), d.loc)


def alignment(ctx):
    ob = ctx.ob("C01.2", "data-phase alignment: register stages between fire(cmd) and the DFI wrdata_en/rddata_en strobes in the steerer (counted) "
                         "+ phy.write_latency/read_latency (PHY contract) + register stages in the multiplexer datapath (counted) equal the "
                         "crossbar delay applied to wdata_ready / rdata_valid", 4)
    x = xbar_view(ctx)
    m = mux_view(ctx, 2)
    # steerer stages
    st = {}
    for tgt in ("wrdata_en", "rddata_en"):
        ds = m.drivers("dfi.p0." + tgt)
        if not ob.need(len(ds) == 1, "dfi.p0.%s driver not found" % tgt):
            return
        st[tgt] = 1 if ds[0].domain.startswith("sync") else 0
    dp = {}
    for nm, pat in (("wdata", "interface.wdata"), ("rdata", "interface.rdata")):
        ls = [l for l in m.leaves if l.kind == "assign" and l.inst == "" and (pat in support(l.value) or key(l.target) == pat)]
        if not ob.need(len(ls) >= 1, "multiplexer datapath for %s not found" % nm):
            return
        dp[nm] = max(1 if l.domain.startswith("sync") else 0 for l in ls)
    for port_sig, en, path, lat in (("wdata.ready", "wrdata_en", "wdata", "write_latency"), ("rdata.valid", "rddata_en", "rdata", "read_latency")):
        for pn in ("port", "port~2"):
            ds = x.drivers("%s.%s" % (pn, port_sig))
            if not ob.need(len(ds) == 1, "crossbar driver of %s.%s not found" % (pn, port_sig)):
                continue
            # register-stage profile of the strobe: the (symbolic) number of register stages on EVERY path from a primitive signal to the port strobe, whatever
            # the shape of the delay logic (one chain per master, or one shared chain plus a delayed owner index decoded afterwards)
            def stages(t_, dep=0):
                if dep > 12:
                    return None
                if isinstance(t_, Op) and t_.op == "delay":
                    r_ = stages(t_.args[0], dep + 1)
                    return None if r_ is None else {(s0, Op("+", (n0, t_.args[1]))) for s0, n0 in r_}
                if isinstance(t_, Op):
                    out_ = set()
                    for a_ in t_.args:
                        if isinstance(a_, Const):
                            continue
                        r_ = stages(a_, dep + 1)
                        if r_ is None:
                            return None
                        out_ |= r_
                    return out_
                if isinstance(t_, (Obj, Sym)):
                    dd_ = x.drivers(t_)
                    if dd_ and all(d_.domain.startswith("sync") for d_ in dd_):
                        out_ = set()
                        for d_ in dd_:
                            r_ = stages(d_.value, dep + 1)
                            if r_ is None:
                                return None
                            out_ |= {(s0, Op("+", (n0, Const(1)))) for s0, n0 in r_}
                        return out_
                    cd_ = x.single_comb_def(t_)
                    if cd_ is not None and not isinstance(cd_, Const):
                        return stages(cd_, dep + 1)
                    return {(key(t_), Const(0))}
                return set()
            prof = stages(ds[0].value)
            if ds[0].domain.startswith("sync") and prof is not None:
                prof = {(s0, Op("+", (n0, Const(1)))) for s0, n0 in prof}
            exp = Op("+", (Op("+", (Sym("controller.settings.phy." + lat), Const(st[en]))), Const(dp[path])))
            if not ob.need(prof is not None and len(prof) > 0, "%s.%s: register-stage profile not computable" % (pn, port_sig)):
                continue
            ob.instance("%s.%s delay" % (pn, port_sig), {"stage profile": sorted((s0, key(n0)) for s0, n0 in prof)[:8], "steerer_stages": st[en], "datapath_stages": dp[path],
                                                        "expected": key(exp)})
            wrong = sorted((s0, key(n0)) for s0, n0 in prof if not lin_eq(n0, exp))
            if wrong:
                ob.refute("align:%s.%s" % (pn, port_sig), "the crossbar delays %s by %s cycles (from %s) but the data phase is reached %s cycles after the "
                          "command is accepted (steerer %d + phy.%s + datapath %d): data would be taken/returned in the wrong cycle" %
                          (port_sig, wrong[0][1], wrong[0][0], key(exp), st[en], lat, dp[path]), ds[0].loc)
            if not any(("bank0." + ("wdata_ready" if "wdata" in port_sig else "rdata_valid")) in s0 for s0, _ in prof):
                ob.refute("align-src:%s.%s" % (pn, port_sig), "%s is not derived from the banks' %s strobes" % (port_sig, port_sig), ds[0].loc)


def routing(ctx):
    ob = ctx.ob("C01.3", "write routing and byte-mask polarity: controller.wdata/wdata_we are selected by the Cat of the same delayed ready strobes "
                         "that drive master.wdata.ready, arm 2**nm takes master nm's data/we, the default arm drives we = 0; read data is "
                         "broadcast from controller.rdata; in the multiplexer the DFI mask is ~wdata_we and wrdata/rddata use the same phase "
                         "order; the bundled model writes bytes where ~mask", 5)
    # structural valuations: all ports read/write, and a mixed one (read-only port FIRST, then write-capable ones): a design may legitimately leave
    # read-only ports out of the write multiplexer, but then arm j must still belong to the master whose strobe is bit j of the selector
    vals_ = (((2, 2), None), ((2, 3), ("read", "both", "write"))) if ctx.tier == "quick" else (((2, 2), None), ((4, 3), None), ((2, 3), ("read", "both", "write")), ((2, 3), ("write", "read", "both")))
    for (nb, nm_), modes in vals_:
        x = xbar_view(ctx, nb, nm_, modes)
        ports = [r for n_, r in x.top.meta.get("results", []) if n_ == "get_port"]
        pk = [key(p) for p in ports]
        if not ob.need(len(pk) == nm_, "crossbar.get_port did not return %d ports" % nm_):
            continue
        readys = [x.drivers(k + ".wdata.ready")[0].value if x.drivers(k + ".wdata.ready") else None for k in pk]
        owner = {key(r): k for r, k in zip(readys, pk) if r is not None}
        for tgt, fld in (("controller.wdata", "data"), ("controller.wdata_we", "we")):
            ds = x.drivers(tgt)
            arms = {}
            for d in ds:
                cs = [c for c, p in d.guards if isinstance(c, Op) and c.op == "case"]
                if len(cs) != 1:
                    ob.unknown("%s driven outside a Case: %s" % (tgt, d))
                    continue
                sel, k = cs[0].args
                arms[k.v if isinstance(k, Const) else str(k)] = (sel, d)
            ob.instance("banks=%d masters=%d modes=%s: %s arms" % (nb, nm_, modes or "both", tgt), {str(k): key(d.value) for k, (s_, d) in arms.items()})
            served = set()
            for k, (sel, d) in sorted(arms.items(), key=lambda kv: str(kv[0])):
                if k == "default":
                    continue
                sargs = list(sel.args) if isinstance(sel, Op) and sel.op == "Cat" else [sel]
                j = k.bit_length() - 1 if isinstance(k, int) and k > 0 and (k & (k - 1)) == 0 else None
                if j is None or j >= len(sargs):
                    ob.refute("wdata-arm-key:%s:%s/%d" % (fld, k, nm_), "%s arm key %s is not a one-hot value of the %d-bit selector %s" % (tgt, k, len(sargs), key(sel)[:160]), d.loc)
                    continue
                own = owner.get(key(sargs[j]))
                if own is None:
                    ob.refute("wdata-sel:%s/%d" % (fld, nm_), "bit %d of the write-data selector is %s, which is not the delayed wdata.ready strobe of any master" %
                              (j, key(sargs[j])[:160]), d.loc)
                    continue
                served.add(own)
                if key(d.value) != "%s.wdata.%s" % (own, fld):
                    ob.refute("wdata-arm:%s:%d/%d" % (fld, pk.index(own), nm_), "modes=%s: %s arm %s is selected when master %d (%s) is given its write-data strobe (selector bit %d) but "
                              "takes %s: that master's write stores another port's data / byte enables" % (modes or "both", tgt, k, pk.index(own), own, j, key(d.value)), d.loc)
            for i, p in enumerate(pk):
                if p not in served and (modes is None or modes[i] != "read"):
                    ob.refute("wdata-arm:%s:%d/%d" % (fld, i, nm_), "modes=%s: write-capable master %d (%s) has no arm in the %s multiplexer: its writes are dropped" %
                              (modes or "both", i, p, tgt), ds[0].loc if ds else None)
            dflt = arms.get("default")
            if fld == "we" and (dflt is None or not is0(dflt[1].value)):
                ob.refute("wdata-default-we", "the default arm does not drive wdata_we = 0 (bytes would be written when no master is selected)",
                          dflt[1].loc if dflt else None)
        for p in pk:
            ds = x.drivers(p + ".rdata.data")
            if len(ds) != 1 or key(ds[0].value) != "controller.rdata":
                ob.refute("rdata:%s" % p, "%s.rdata.data is %s, expected controller.rdata" % (p, [key(d.value) for d in ds]), ds[0].loc if ds else None)
    for nph in (2, 4):
        m = mux_view(ctx, nph)
        phases = ["dfi.p%d" % i for i in range(nph)]
        forms = {}
        for l in m.leaves:
            if l.inst != "" or l.kind != "assign":
                continue
            tk, vk = key(l.target), key(l.value)
            if tk == "interface.rdata":
                forms["rdata"] = (l, [key(a) for a in l.value.args] if isinstance(l.value, Op) and l.value.op == "Cat" else None)
            if vk == "interface.wdata":
                forms["wdata"] = (l, [key(a) for a in l.target.args] if isinstance(l.target, Op) and l.target.op == "Cat" else None)
            if "interface.wdata_we" in support(l.value):
                forms["mask"] = (l, [key(a) for a in l.target.args] if isinstance(l.target, Op) and l.target.op == "Cat" else None)
        if not ob.need(set(forms) == {"rdata", "wdata", "mask"}, "nphases=%d: datapath statements not found (%s)" % (nph, sorted(forms))):
            continue
        ob.instance("nphases=%d datapath" % nph, {k: str(f[0]) for k, f in forms.items()})
        for nm, suffix in (("rdata", ".rddata"), ("wdata", ".wrdata"), ("mask", ".wrdata_mask")):
            if forms[nm][1] != [p + suffix for p in phases]:
                ob.refute("phase-order:%s:%d" % (nm, nph), "%s is built from %s, expected the phases in order %s" % (nm, forms[nm][1], [p + suffix for p in phases]), forms[nm][0].loc)
        a, p = literal(forms["mask"][0].value)
        if p or key(a) != "interface.wdata_we":
            ob.refute("mask-polarity:%d" % nph, "the DFI write mask is %s, expected ~interface.wdata_we (mask bit 1 = byte NOT written)" % key(forms["mask"][0].value), forms["mask"][0].loc)
        if any(f[0].domain != "comb" for f in forms.values()) and len({f[0].domain for f in forms.values()}) != 1:
            ob.refute("datapath-mixed:%d" % nph, "datapath statements are in different domains", forms["wdata"][0].loc)
    # sibling: the bundled DRAM model writes where ~mask
    mod = ctx.repo.module("litedram.phy.model")
    if ob.need(mod is not None, "phy/model.py vanished"):
        import ast
        hits = []
        for n in ast.walk(mod.tree):
            if isinstance(n, ast.Attribute) and n.attr == "we" and isinstance(n.ctx, ast.Load):
                pass
        src = mod.src
        pm = [l for l in src.splitlines() if "write_mask" in l or "wrdata_mask" in l]
        inv = [l for l in pm if "~" in l and ("mask" in l)]
        ob.instance("model mask usage", [l.strip() for l in pm][:8])
        bm = elab(ctx, "litedram.phy.model", "BankModel", kwargs={"data_width": Sym("data_width"), "nrows": Const(4), "ncols": Const(4), "burst_length": Const(1),
                                                                    "nphases": Const(1), "we_granularity": Const(8), "init": ListV([])})
        wes = [l for l in bm.leaves if l.kind == "assign" and key(l.target).endswith(".we") and "write" in " ".join(support(l.value) | {key(c) for c, p in l.guards})]
        polar = None
        for l in wes:
            for t in subterms(l.value):
                if isinstance(t, Op) and t.op == "~" and "mask" in key(t):
                    polar = True
        if wes and polar is None:
            ob.refute("model-mask-polarity", "the bundled DRAM model's write-enable is not derived from the inverted DFI mask: %s" % [str(l) for l in wes][:2], wes[0].loc)


def lock_analysis(R):
    """Classify the disjuncts of req.lock.  -> dict(stages covered, level term, occupancy counter, unknown disjuncts, fifo, buf, text)
    An occupancy counter is a register compared with 0 whose drivers are exactly +1 on (accept & ~execute) and -1 on (execute & ~accept), with accept =
    fire(req) and execute = fire(queue head) - decided by truth table over the strobes, not by the way the If/Elif is written."""
    v = R.v
    fifos = [o for o in v.d.objs if o.cls == "SyncFIFO"]
    bufs = [o for o in v.d.objs if o.cls == "Buffer"]
    out = {"ok": bool(fifos and bufs), "stages": set(), "level": False, "occupancy": None, "unknown": [], "foreign": [], "fifo": fifos[0] if fifos else None, "buf": bufs[0] if bufs else None}
    lk = v.single_comb_def(Sym(key(R.req) + ".lock"))
    out["term"] = lk
    if lk is None or not out["ok"]:
        out["ok"] = False
        return out
    f_valid, b_valid, f_level = str(fifos[0]) + ".source.valid", str(bufs[0]) + ".source.valid", str(fifos[0]) + ".level"
    reqk = key(R.req)
    push = [expand_term(v, Sym(reqk + ".valid")), expand_term(v, Sym(reqk + ".ready"))]
    pop = [expand_term(v, Sym(str(bufs[0]) + ".source.valid")), expand_term(v, Sym(str(bufs[0]) + ".source.ready"))]
    for a, p in disj(expand_term(v, lk)):
        k_ = lkey((a, p))
        if k_ == f_valid or k_ == b_valid:
            out["stages"].add(k_)
        elif k_ == f_level:
            out["level"] = True
        elif p and isinstance(a, (Obj, Sym)) and v.drivers(a) and all(d.domain.startswith("sync") for d in v.drivers(a)):
            ds = v.drivers(a)
            inc = [d for d in ds if lin_diff(d.value, d.target) is not None and lin_diff(d.value, d.target).is_const() and lin_diff(d.value, d.target).constval() == 1]
            dec = [d for d in ds if lin_diff(d.target, d.value) is not None and lin_diff(d.target, d.value).is_const() and lin_diff(d.target, d.value).constval() == 1]
            if len(inc) == 1 and len(dec) == 1 and len(ds) == 2:
                def cond(l_):
                    return [expand_term(v, c_ if p_ else Op("~", (c_,))) for c_, p_ in l_.guards]
                npop = Op("~", (Op("&", tuple(pop)),))
                npush = Op("~", (Op("&", tuple(push)),))
                r1, _ = implies(cond(inc[0]), push + [npop])
                r2, _ = implies(push + [npop], cond(inc[0]))
                r3, _ = implies(cond(dec[0]), pop + [npush])
                r4, _ = implies(pop + [npush], cond(dec[0]))
                if r1 and r2 and r3 and r4:
                    out["occupancy"] = key(a)
                    continue
            if inc or dec:
                out["unknown"].append(k_)        # counter-like, but not recognised as the occupancy of the queue
            else:
                out["foreign"].append(k_)
        else:
            out["foreign"].append(k_)
    out["names"] = (f_valid, b_valid, f_level)
    return out


def grant_and_lock(ctx):
    ob4 = ctx.ob("C01.4", "response routing needs a frozen grant: wdata_ready/rdata_valid are routed by arbiter.grant == nm, so the arbiter may only "
                          "advance when the bank is neither valid nor locked, and the bank lock must cover both queue stages' valid from the cycle "
                          "after acceptance (an unbuffered first stage)", 4)
    ob5 = ctx.ob("C01.5", "one bank at a time per master: a master is selected on a bank only if no OTHER bank holds its lock under that bank's "
                          "grant, evaluated combinationally (no register between lock and selection); cmd.ready = grant & selected & bank.ready", 1)
    for nb, nm_ in ((2, 2),) if ctx.tier == "quick" else ((2, 2), (4, 3)):
        x = xbar_view(ctx, nb, nm_)
        ports = [key(r) for n_, r in x.top.meta.get("results", []) if n_ == "get_port"]
        for b in range(nb):
            ce = x.drivers("arbiters[%d].ce" % b)
            if not ob4.need(len(ce) == 1, "arbiters[%d].ce driver not found" % b):
                continue
            c = x.value_conj_keys(ce[0].value, False)
            ob4.instance("banks=%d: arbiter %d ce" % (nb, b), sorted(c))
            need = {"~controller.bank%d.valid" % b, "~controller.bank%d.lock" % b}
            if not need <= c:
                ob4.refute("arbiter-ce:%d/%d" % (b, nb), "bank %d's arbiter can advance under %s: without %s the grant can change while a command "
                           "of the granted master is still queued, and its wdata_ready/rdata_valid goes to another master" % (b, sorted(c), sorted(need - c)), ce[0].loc)
        # C01.5 by truth table of the extracted crossbar (lsa/ceval.py): every combination of the masters' valid / target bank, the arbiters' grants, the banks'
        # lock / ready (and of any register found in the cone).  Specification (safety direction): master m's command is accepted only if some bank b has
        # grant[b] == m, m addresses b, bank b is ready, and no OTHER bank holds a lock while granted to m; and a bank sees a valid request only from the
        # granted master under the same conditions.
        from ..ceval import CEval
        from ..bits import Unresolved
        import itertools
        cfgx = {"controller.settings.geom.colbits": 10, "controller.address_align": 3, "controller.settings.bank_byte_alignment": 0, "controller.data_width": 16,
                "controller.address_width": 21, "controller.nbanks": nb, "controller.nranks": 1}
        cba = 7
        for p_ in ports:
            cfgx["len(%s.cmd.addr)" % p_] = 21 + (nb.bit_length() - 1)
        def build(vals, regs):
            vld, bnk, gnt, lck, rdy = vals
            env = dict(regs)
            for m_, p_ in enumerate(ports):
                env[p_ + ".cmd.valid"] = vld[m_]
                env[p_ + ".cmd.addr"] = (bnk[m_] << cba) | 0x55
                env[p_ + ".cmd.we"] = 0
            for b_ in range(nb):
                env["arbiters[%d].grant" % b_] = gnt[b_]
                env["controller.bank%d.lock" % b_] = lck[b_]
                env["controller.bank%d.ready" % b_] = rdy[b_]
            return env
        space = [list(itertools.product((0, 1), repeat=nm_)), list(itertools.product(range(nb), repeat=nm_)), list(itertools.product(range(nm_), repeat=nb)),
                 list(itertools.product((0, 1), repeat=nb)), list(itertools.product((0, 1), repeat=nb))]
        rows = list(itertools.product(*space))
        if len(rows) > 4096:
            import random
            rows = random.Random(ctx.seed).sample(rows, 4096)
        regs = []
        try:
            ce0 = CEval(x, build(rows[-1], {}), cfgx)
            for p_ in ports:
                ce0.val(Sym(p_ + ".cmd.ready"))
            for b_ in range(nb):
                ce0.val(Sym("controller.bank%d.valid" % b_))
            regs = sorted(ce0.missing)
        except Unresolved as e:
            ob5.unknown("banks=%d masters=%d: crossbar routing not evaluable (%s)" % (nb, nm_, e))
            continue
        if len(regs) > 6:
            ob5.unknown("banks=%d masters=%d: %d registers in the acceptance cone (%s...)" % (nb, nm_, len(regs), regs[:3]))
            continue
        bad = None
        nrow = 0
        seen_ready = False
        try:
            for vals in rows:
                vld, bnk, gnt, lck, rdy = vals
                for rv in itertools.product((0, 1), repeat=len(regs)):
                    ce = CEval(x, build(vals, dict(zip(regs, rv))), cfgx)
                    nrow += 1
                    for m_, p_ in enumerate(ports):
                        def allowed(b_):
                            return gnt[b_] == m_ and bnk[m_] == b_ and not any(lck[o_] and gnt[o_] == m_ for o_ in range(nb) if o_ != b_)
                        got = ce.val(Sym(p_ + ".cmd.ready")) & 1
                        seen_ready = seen_ready or bool(got)
                        if got and not any(allowed(b_) and rdy[b_] for b_ in range(nb)) and bad is None:
                            bad = ("ready", m_, vals, dict(zip(regs, rv)))
                    for b_ in range(nb):
                        g_ = gnt[b_]
                        got = ce.val(Sym("controller.bank%d.valid" % b_)) & 1
                        ok_ = vld[g_] and bnk[g_] == b_ and not any(lck[o_] and gnt[o_] == g_ for o_ in range(nb) if o_ != b_)
                        if got and not ok_ and bad is None:
                            bad = ("valid", b_, vals, dict(zip(regs, rv)))
        except Unresolved as e:
            ob5.unknown("banks=%d masters=%d: crossbar routing not evaluable (%s)" % (nb, nm_, e))
            continue
        ob5.instance("banks=%d masters=%d acceptance truth table" % (nb, nm_), {"rows": nrow, "registers in the cone": regs}, nontrivial=True)
        if not seen_ready:
            ob5.unknown("banks=%d masters=%d: no row of the truth table accepts a command (evaluation vacuous)" % (nb, nm_))
        if bad:
            kind, idx, (vld, bnk, gnt, lck, rdy), rv = bad
            if kind == "ready":
                ob5.refute("ready-spec:%d/%d" % (idx, nb), "banks=%d: master %d's command is accepted with valid=%s target banks=%s grants=%s locks=%s readys=%s registers=%s although no bank is "
                           "granted to it, addressed by it, ready, and free of a lock held for it on another bank: two banks can then hold this master's commands and answer out of "
                           "order, or a command is acknowledged that no bank took" % (nb, idx, vld, bnk, gnt, lck, rdy, rv), x.drivers(ports[idx] + ".cmd.ready")[0].loc)
            else:
                ob5.refute("valid-spec:%d/%d" % (idx, nb), "banks=%d: bank %d sees a valid request with valid=%s target banks=%s grants=%s locks=%s registers=%s although the granted master "
                           "does not (or must not) address it" % (nb, idx, vld, bnk, gnt, lck, rv), x.drivers("controller.bank%d.valid" % idx)[0].loc)
    # lock covers both stages, first stage unbuffered
    for ap in (True,):
        R = BMRoles(ctx, ob4, {"settings.with_auto_precharge": ap})
        if not R.ok:
            return
        v = R.v
        LA = lock_analysis(R)
        if not ob4.need(LA["ok"], "bank machine: req.lock definition or the two queue stages not found"):
            return
        f_valid, b_valid, f_level = LA["names"]
        ob4.instance("bank lock", {"term": key(LA["term"])[:200], "queue stages covered": sorted(LA["stages"]), "fifo level term": LA["level"],
                                   "occupancy counter": LA["occupancy"], "other disjuncts": LA["unknown"]})
        covered = LA["occupancy"] is not None or LA["stages"] == {f_valid, b_valid}
        if LA["unknown"]:
            # extra disjuncts can only make the lock hold longer: coverage is decided on the recognised part, anything else is not understood
            if not covered:
                ob4.unknown("req.lock has disjuncts this rule cannot classify (%s) and the recognised ones do not cover both queue stages" % LA["unknown"])
        elif not covered:
            ob4.refute("lock-support", "req.lock is %s: it covers only %s of the two queue stages' valid (%s, %s) and there is no occupancy counter: it drops while a command "
                       "is still queued" % (key(LA["term"])[:160], sorted(LA["stages"]), f_valid, b_valid), None)
        fifo = LA["fifo"]
        buffered = fifo.args[2] if len(fifo.args) > 2 else fifo.kwargs.get("buffered", Const(False))
        ob4.instance("look-ahead FIFO buffered argument", {"buffered": key(buffered), "lock_has_level_term": LA["level"], "occupancy counter": LA["occupancy"]})
        if not is0(buffered) and not (isinstance(buffered, Const) and buffered.v is False) and not LA["level"] and LA["occupancy"] is None and not LA["unknown"]:
            ob4.refute("lock-gap-buffered-fifo", "the look-ahead FIFO can be built with buffered=%s: a buffered FIFO raises source.valid two cycles "
                       "after a command is accepted, so req.lock (and bank.valid) are both low in the cycle in between and the crossbar may "
                       "accept the same master's next command on another bank (C01.5 hole); the lock has no FIFO-level term / occupancy counter to cover the gap"
                       % key(buffered), fifo.loc, {"buffered": key(buffered)})


def eqk(sig, n):
    """canonical key of (sig == n) as term.key produces it (x == 0 is normalised to ~x)"""
    return key(Op("==", (Sym(sig), Const(n))))


def _lock_term(t, nb=8, nm=8):
    """(other_bank.lock & (other_arbiter.grant == m)) -> {(other_bank, m)}"""
    ks = litset(conj(t))
    for ob_ in range(nb):
        if "controller.bank%d.lock" % ob_ in ks:
            for m in range(nm):
                if eqk("arbiters[%d].grant" % ob_, m) in ks:
                    return {(ob_, m)}
    return set()


def shared(ctx):
    ob = ctx.ob("C01.6", "the data path is only correct if the bank state tracking is (shared with C02.2 typestate, C02.3 auto-precharge consistency and C02.5 "
                         "'an accepted command is steered to the bus'): a column command to a bank the DRAM has closed - or whose activate was acknowledged but never "
                         "issued - returns garbage / drops the write", 4)
    from ..report import Ctx
    from . import c02
    sub = Ctx("C02", ctx.tier, ctx.seed, ctx.repo)
    c02.typestate(sub)
    c02.auto_precharge(sub)
    c02.steering(sub)
    for o in sub.obligations:
        for i in o.instances:
            ob.instance(o.oid + ": " + i["what"], i["detail"])
        for r in o.refutations:
            ob.refute(o.oid + ":" + r["key"], r["msg"], r.get("loc"))
        for u in o.unknowns:
            ob.unknown(u)


def shared_mapping(ctx):
    ob = ctx.ob("C01.7", "distinct port addresses reach distinct DRAM locations and the burst alignment matches the burst the PHY moves per command "
                         "(shared with C06.1 partition, C06.4 A10 handling and C06.5 alignment): otherwise one write lands on another address's bytes", 20)
    from ..report import Ctx
    from . import c06
    sub = Ctx("C06", ctx.tier, ctx.seed, ctx.repo)
    c06.run(sub)
    for o in sub.obligations:
        if o.oid in ("C06.1", "C06.4", "C06.5", "C06.6", "C06.7"):
            for i in o.instances[:150]:
                ob.instance(o.oid + ": " + i["what"], i["detail"] or "ok")
            for r in o.refutations:
                ob.refute(o.oid + ":" + r["key"], r["msg"], r.get("loc"))
            for u in o.unknowns:
                ob.unknown(u)


def run(ctx):
    shared_mapping(ctx)
    shared(ctx)
    bank_queue(ctx)
    alignment(ctx)
    routing(ctx)
    grant_and_lock(ctx)
    ob8 = ctx.ob("C01.8", "a read issued after a write waits for the write-to-read turnaround: every way from write mode to read mode passes the tWTR gate after the last write "
                          "(shared with C03.5) - a read command inside that window overtakes the write burst inside the device and returns the bytes from before the write", 2)
    share(ctx, ob8, "C03", ("C03.5",))
    ctx.assume("same address => same bank queue is discharged by C06; timing of real PHYs, the DRAM itself and data values are not decided")
