"""C18 - DFI plumbing: injector mux and rate converter (phase maps, delay windows, serializer slices and latencies)."""
import ast
import re

from ..ruleutil import *
from ..elab import elaborate, Elab

DFII = "litedram.dfii"
DFI = "litedram.phy.dfi"
UT = "litedram.phy.utils"


def injector(ctx):
    ob = ctx.ob("C18.1", "injector: the controller-side interface reaches the PHY only under sel & ~ext_dfi_sel and by a whole-record connect; every "
                         "statement that reads the controller side (incl. the clam-shell chip-select broadcast) carries that guard; in software mode "
                         "only the CSR interface is connected; the three branches are mutually exclusive", 6)
    for cs in (False, True):
        v = elab(ctx, DFII, "DFIInjector", kwargs={"nphases": Const(2), "is_clam_shell": Const(cs), "nranks": Const(1), "addressbits": Const(14),
                                                   "bankbits": Const(3), "databits": Const(16)})
        tag = "clam_shell=%s" % cs
        sel = "_control.fields.sel"
        hw = {sel, "~ext_dfi_sel"}
        nmaster = 0
        # truth table of the extracted multiplexer (lsa/ceval.py): for representative command / data fields of both phases and every (sel, ext_dfi_sel), the PHY side
        # equals the controller side in hardware mode, the external master in external mode, and is independent of the controller side in software mode - whatever
        # the number of stages the multiplexer is written with
        from ..ceval import CEval
        from ..bits import Unresolved
        tt_ok = None
        # statements the evaluator cannot unroll (written per phase inside a comprehension) that drive the PHY side from anything but the controller side: the truth
        # table would be blind to them, so the guard rules below decide alone
        blind = [l for l in v.leaves if l.inst == "" and l.quants and l.target is not None and isinstance(l.target, V)
                 and any(r_ == "master" or r_.startswith("master.") for r_ in support(l.target))
                 and not any(r_ == "slave" or r_.startswith("slave.") for r_ in (support(l.value) if isinstance(l.value, V) else set()))]
        try:
            if blind:
                raise Unresolved("per-phase statements in a comprehension drive the PHY side: %s" % str(blind[0])[:80])
            flds = [("p0.address", 14, 0x1A5, 0x25A), ("p1.address", 14, 0x0F0, 0x30F), ("p0.cas_n", 1, 0, 1), ("p1.we_n", 1, 1, 0), ("p0.wrdata", 32, 0x1234, 0xBEEF),
                    ("p0.bank", 3, 5, 2), ("p1.wrdata_en", 1, 1, 0), ("p0.cs_n", 1, 0, 1), ("p1.cs_n", 1, 1, 0)]
            cfg = {}
            for pre in ("master", "slave", "ext_dfi", "csr_dfi"):
                for f_, w_, _, _ in flds:
                    cfg["len(%s.%s)" % (pre, f_)] = w_
            bad = None
            nrow = 0
            for f_, w_, a_, b_ in flds:
                if cs and f_.endswith("cs_n"):
                    continue      # the clam-shell broadcast is written per phase in a comprehension the evaluator does not unroll: left to the guard rule below
                for s_, e_ in ((1, 0), (1, 1), (0, 0), (0, 1)):
                    outs = []
                    # every other input of the block (CSR storages and strobes of the software path) is tried all-zero and all-one: in hardware / external
                    # mode none of them may reach the PHY side
                    for sv, du in ((a_, 0), (b_, 0), (a_, 1), (b_, 1)):
                        if du and not s_:
                            continue      # software mode: the CSR path legitimately drives the PHY; only independence from the controller side is checked (du = 0 rows)
                        env = {sel: s_, "ext_dfi_sel": e_, "slave." + f_: sv, "ext_dfi." + f_: (a_ ^ b_ ^ sv) if w_ > 1 else sv ^ 1}
                        ce = CEval(v, env, cfg, default_undriven=du)
                        mw_ = 2 * w_ if (cs and f_.endswith("cs_n")) else w_
                        outs.append((sv, env["ext_dfi." + f_], ce.val(Sym("master." + f_)) & ((1 << mw_) - 1)))
                        nrow += 1
                    if cs and f_.endswith("cs_n"):
                        # clam shell: the controller's chip select is broadcast to both halves in hardware mode
                        if s_ and not e_ and any(o != sv * 3 for sv, _, o in outs):
                            bad = bad or ("hardware mode (clam shell): master.%s = %s for slave.%s = %s" % (f_, [bin(o) for _, _, o in outs], f_, [sv for sv, _, _ in outs]))
                        if not s_ and outs[0][2] != outs[1][2]:
                            bad = bad or ("software mode: master.%s follows the controller side" % f_)
                        continue
                    if s_ and not e_ and any(o != sv for sv, _, o in outs):
                        bad = bad or ("hardware mode: master.%s = %s for slave.%s = %s" % (f_, [hex(o) for _, _, o in outs], f_, [hex(sv) for sv, _, _ in outs]))
                    if s_ and e_ and any(o != ev for _, ev, o in outs):
                        bad = bad or ("external mode: master.%s = %s for ext_dfi.%s = %s" % (f_, [hex(o) for _, _, o in outs], f_, [hex(ev) for _, ev, _ in outs]))
                    if not s_ and outs[0][2] != outs[1][2]:
                        bad = bad or ("software mode: master.%s follows the controller side (%s for slave.%s = %s)" % (f_, [hex(o) for _, _, o in outs], f_, [hex(sv) for sv, _, _ in outs]))
            tt_ok = bad is None
            ob.instance("%s: multiplexer truth table" % tag, {"rows": nrow, "fields": [f_ for f_, _, _, _ in flds]}, nontrivial=True)
            if bad:
                ob.refute("mux-table:%s" % tag, "%s: %s - the controller's commands / data do not reach the PHY unchanged in hardware mode, or reach it in another mode" % (tag, bad), None)
        except Unresolved as e:
            ctx.notes.append("C18.1 %s: multiplexer not evaluable (%s); guard rules only" % (tag, e))
        for l in v.leaves:
            if l.inst != "":
                continue
            reads = set()
            if l.kind == "connect":
                reads |= {key(l.value)}
                tgt = key(l.target)
            else:
                reads |= support(l.value) if isinstance(l.value, V) else set()
                tgt = key(l.target) if l.target is not None else ""
            g = v.guard_keys(l, False)
            from_slave = any(r == "slave" or r.startswith("slave.") for r in reads)
            to_master = tgt == "master" or tgt.startswith("master.") or (l.target is not None and isinstance(l.target, V) and
                                                                         any(r_ == "master" or r_.startswith("master.") for r_ in support(l.target)))
            if to_master:
                nmaster += 1
                ob.instance("%s: %s" % (tag, str(l)[:120]), sorted(g))
            if from_slave and not hw <= g and not (tt_ok is True and (l.kind == "connect" or not to_master)):
                ob.refute("slave-leak:%s:%s" % (tag, tgt), "%s: `%s` reads the controller-side interface under %s, not under sel & ~ext_dfi_sel: in software "
                          "mode (or external mode) the controller's signals still reach the PHY" % (tag, str(l)[:160], sorted(g)), l.loc)
            if from_slave and l.kind == "connect" and (l.stmt.keep is not None or l.stmt.omit):
                ob.refute("slave-partial:%s" % tag, "%s: the controller interface is connected with keep/omit %s/%s: not all signals pass" %
                          (tag, l.stmt.keep, l.stmt.omit), l.loc)
            if to_master:
                # the third source is the module's own (CSR-driven) interface: a whole-record connect from a local interface, whatever it is called
                local_if = l.kind == "connect" and reads and not any(r.split(".")[0] in ("slave", "ext_dfi", "master") for r in reads)
                src = "slave" if from_slave else ("ext_dfi" if any(r.startswith("ext_dfi") for r in reads) else ("csr_dfi" if local_if else "?"))
                want = {"slave": hw, "ext_dfi": {sel, "ext_dfi_sel"}, "csr_dfi": {"~" + sel}}.get(src)
                if (want is None or g != want) and tt_ok is not True:
                    ob.refute("mux-guard:%s:%s:%s" % (tag, src, tgt), "%s: master is driven from %s under %s, expected exactly %s" %
                              (tag, src, sorted(g), sorted(want) if want else "a known source"), l.loc)
        if nmaster < 3 and tt_ok is not True:
            ob.unknown("%s: fewer than three drivers of the PHY-side interface found" % tag)
        back = [l for l in v.leaves if l.inst == "" and l.kind == "connect" and key(l.value) == "slave"]
        if len(back) != 1:
            ob.refute("slave-connect:%s" % tag, "%s: expected exactly one slave.connect(master), found %d" % (tag, len(back)), None)


def subst_len(t, widths):
    """replace len(Cat(dfi.pK.name, ...)) by its numeric width"""
    if isinstance(t, Op):
        if t.op == "len" and isinstance(t.args[0], Op) and t.args[0].op == "Cat":
            ks = [phase_idx(key(a)) for a in t.args[0].args]
            if ks and None not in ks and ks[0][1] in widths:
                return Const(widths[ks[0][1]] * len(ks))
        return Op(t.op, tuple(subst_len(a, widths) for a in t.args))
    return t


def window_ok(lo, hi, dname, W, ratio, widths):
    from ..bits import ieval, Unresolved
    try:
        for d in range(ratio):
            env = {dname: d}
            if ieval(subst_len(lo, widths), env) != d * W:
                return False
            if hi is not None and ieval(subst_len(hi, widths), env) != (d + 1) * W:
                return False
        return True
    except Unresolved:
        return None


def phase_idx(k):
    m = re.match(r"^(?:self\.)?dfi\.p(\d+)\.(\w+)$", k)
    return (int(m.group(1)), m.group(2)) if m else None


def rate_converter(ctx):
    ob2 = ctx.ob("C18.2", "rate converter phase maps are bijections of [0, ratio*nphy): command of slow phase pi + nphy*j is serialised to PHY phase pi in "
                          "fast cycle j; data of slow phases pi*ratio + j is the j-th chunk of PHY phase pi's burst", 12)
    ob4 = ctx.ob("C18.4", "write/read delay windows are [d*W, (d+1)*W) with W the width of the signal being placed (per signal, also for the mask) and "
                          "0 <= d < ratio is asserted; rddata_valid is taken from cycle read_delay", 8)
    combos = [(2, 1), (2, 2), (4, 2)] if ctx.tier == "quick" else [(r, n) for r in (2, 4) for n in (1, 2, 4)]
    for ratio, nphy in combos:
        ov = {"phy_dfi.phases": ListV([Sym("phy_dfi.p%d" % i) for i in range(nphy)]), "len(phy_dfi.p0.wrdata)": Const(32), "len(phy_dfi.p0.address)": Const(14),
              "len(phy_dfi.p0.bank)": Const(3), "len(phy_dfi.p0.cs_n)": Const(1)}
        v = elab(ctx, DFI, "DFIRateConverter", kwargs={"ratio": Const(ratio), "write_delay": Sym("write_delay"), "read_delay": Sym("read_delay"),
                                                       "clkdiv": Const("sys"), "clk": Const("sysNx")}, overrides=ov)
        tag = "ratio=%d nphy=%d" % (ratio, nphy)
        dbits = 32 // ratio
        widths = {"wrdata": dbits, "rddata": dbits, "wrdata_mask": dbits // 8, "rddata_valid": 1}
        sers = [o for o in v.d.instances.values() if o.cls == "Serializer"]
        dess = [o for o in v.d.instances.values() if o.cls == "Deserializer"]
        cmd_maps = {}
        not_understood = []
        for o in sers:
            i, out = o.kwargs.get("i"), o.kwargs.get("o")
            if isinstance(i, Op) and i.op == "Cat":
                ks = [phase_idx(key(a)) for a in i.args]
                mo = re.match(r"^phy_dfi\.p(\d+)\.(\w+)$", key(out))
                if None in ks or not mo:
                    ob2.unknown("%s: serializer %s ports not understood" % (tag, o))
                    not_understood.append(str(o))
                    continue
                pi, nm = int(mo.group(1)), mo.group(2)
                cmd_maps.setdefault(nm, {})[pi] = [k[0] for k in ks]
                if any(k[1] != nm for k in ks):
                    ob2.refute("cmd-signal-mix:%s:%s" % (tag, nm), "%s: serializer for %s mixes signals %s" % (tag, nm, ks), o.loc)
        for nm, mp in sorted(cmd_maps.items()):
            allk = []
            okk = True
            for pi in range(nphy):
                exp = [pi + nphy * j for j in range(ratio)]
                got = mp.get(pi)
                allk += got or []
                if got != exp:
                    okk = False
                    ob2.refute("cmd-map:%s:%s:p%d" % (tag, nm, pi), "%s: PHY phase %d's %s is fed from slow phases %s in cycle order, expected %s (phases "
                               "first, then cycles)" % (tag, pi, nm, got, exp), None)
            if sorted(allk) != list(range(ratio * nphy)):
                ob2.refute("cmd-bijection:%s:%s" % (tag, nm), "%s: %s: slow phases used %s are not a permutation of 0..%d" % (tag, nm, sorted(allk), ratio * nphy - 1), None)
            if nm in ("address", "cas_n", "wrdata_en"):
                ob2.instance("%s %s map" % (tag, nm), mp)
        if len(cmd_maps) < 8:
            ob2.unknown("%s: only %d command signals are serialised" % (tag, len(cmd_maps)))
        # completeness: every command field the DFI phase layout declares goes through its own per-phase serializer (a level held in one slow-clock register is
        # not "delivered exactly once in phase order": per-phase values of later slots are lost)
        cmd_fields = []
        fn_ = ctx.repo.module(DFI).functions.get("phase_cmd_description") if ctx.repo.module(DFI) is not None else None
        if fn_ is not None:
            for n_ in ast.walk(fn_):
                if isinstance(n_, ast.Tuple) and n_.elts and isinstance(n_.elts[0], ast.Constant) and isinstance(n_.elts[0].value, str) and len(n_.elts) == 3:
                    cmd_fields.append(n_.elts[0].value)
        if not_understood:
            pass          # another serialisation scheme (e.g. one shared serializer per PHY phase): not decided
        elif ob2.need(len(cmd_fields) >= 6, "DFI command layout (phase_cmd_description) not found"):
            for nm in cmd_fields:
                if nm in cmd_maps:
                    continue
                other = [l for l in v.leaves if l.inst == "" and l.kind == "assign" and re.match(r"^phy_dfi\.p\d+\.%s$" % re.escape(nm), key(l.target))]
                if other:
                    ob2.refute("cmd-not-serialised:%s:%s" % (tag, nm), "%s: the PHY-side %s is driven by `%s`, not by a per-phase serializer of the slow phases' %s: the values the "
                               "controller puts on the later slots of a slow cycle never reach the PHY (or are stretched over the whole cycle)" % (tag, nm, str(other[0])[:100], nm),
                               other[0].loc)
                else:
                    ob2.refute("cmd-not-serialised:%s:%s" % (tag, nm), "%s: the DFI command field %s is not carried to the PHY at all" % (tag, nm), None)
        # data
        for l in v.leaves:
            if l.inst != "" or l.kind != "assign":
                continue
            # write: sig_m[lo:hi] <= Cat(dfi.pK.name...)
            if isinstance(l.target, Op) and l.target.op == "slice" and isinstance(l.value, Op) and l.value.op == "Cat":
                ks = [phase_idx(key(a)) for a in l.value.args]
                if None in ks:
                    continue
                nm = ks[0][1]
                sig = l.target.args[0]
                ser = [o for o in sers if o.kwargs.get("i") is sig]
                fin = [m_ for m_ in v.leaves if m_.kind == "assign" and ser and m_.value is ser[0].kwargs.get("o")]
                mo = re.match(r"^phy_dfi\.p(\d+)\.(\w+)$", key(fin[0].target)) if fin else None
                if not mo:
                    ob2.unknown("%s: write path of %s not traced to a PHY phase" % (tag, nm))
                    continue
                pi = int(mo.group(1))
                exp = [pi * ratio + j for j in range(ratio)]
                ob2.instance("%s %s -> phy p%d" % (tag, nm, pi), [k[0] for k in ks])
                if [k[0] for k in ks] != exp or mo.group(2) != nm:
                    ob2.refute("wr-map:%s:%s:p%d" % (tag, nm, pi), "%s: PHY phase %d's %s burst is built from slow phases %s, expected %s" % (tag, pi, nm, [k[0] for k in ks], exp), l.loc)
                lo, hi = l.target.args[1], l.target.args[2]
                okw = window_ok(lo, hi, "write_delay", widths.get(nm, 0) * ratio, ratio, widths)
                ob4.instance("%s %s write window" % (tag, nm), {"lo": key(lo), "hi": key(hi)})
                if okw is None:
                    ob4.unknown("%s: %s write window bounds not evaluable" % (tag, nm))
                elif not okw:
                    ob4.refute("wr-window:%s:%s" % (tag, nm), "%s: %s is placed at [%s, %s), expected [write_delay*W, (write_delay+1)*W) with W = width of "
                               "this signal's burst" % (tag, nm, key(lo), key(hi)), l.loc)
            elif isinstance(l.value, Op) and l.value.op == "<<" and isinstance(l.value.args[0], Op) and l.value.args[0].op == "Cat":
                ks = [phase_idx(key(a)) for a in l.value.args[0].args]
                nm = ks[0][1] if ks and ks[0] else "?"
                sh = l.value.args[1]
                W = Op("len", (l.value.args[0],))
                ob4.instance("%s %s write shift" % (tag, nm), key(sh))
                okw = window_ok(sh, None, "write_delay", widths.get(nm, 0) * ratio, ratio, widths)
                if okw is None:
                    ob4.unknown("%s: %s write shift not evaluable" % (tag, nm))
                elif not okw:
                    ob4.refute("wr-window:%s:%s" % (tag, nm), "%s: %s is shifted by %s, expected write_delay * (width of this signal's burst = %s): the "
                               "signal lands in the wrong fast cycle / is shifted out" % (tag, nm, key(sh), key(W)), l.loc)
            # read: Cat(dfi.pK.rddata) <= sig_m[lo:hi]
            if isinstance(l.target, Op) and l.target.op == "Cat":
                ks = [phase_idx(key(a)) for a in l.target.args]
                if None in ks:
                    continue
                nm = ks[0][1]
                src = l.value
                base = src.args[0] if isinstance(src, Op) and src.op in ("slice", "Replicate") else None
                if isinstance(src, Op) and src.op == "Replicate":
                    base = src.args[0].args[0] if isinstance(src.args[0], Op) and src.args[0].op == "index" else None
                des = [o for o in dess if o.kwargs.get("o") is base]
                mo = re.match(r"^phy_dfi\.p(\d+)\.(\w+)$", key(des[0].kwargs.get("i"))) if des else None
                if not mo:
                    ob2.unknown("%s: read path of %s not traced to a PHY phase" % (tag, nm))
                    continue
                pi = int(mo.group(1))
                exp = [pi * ratio + j for j in range(ratio)]
                ob2.instance("%s phy p%d -> %s" % (tag, pi, nm), [k[0] for k in ks])
                if [k[0] for k in ks] != exp or mo.group(2) != nm:
                    ob2.refute("rd-map:%s:%s:p%d" % (tag, nm, pi), "%s: PHY phase %d's %s is distributed to slow phases %s, expected %s" % (tag, pi, nm, [k[0] for k in ks], exp), l.loc)
                if src.op == "slice":
                    okw = window_ok(src.args[1], src.args[2], "read_delay", widths.get(nm, 0) * ratio, ratio, widths)
                    ob4.instance("%s %s read window" % (tag, nm), {"lo": key(src.args[1]), "hi": key(src.args[2])})
                    if okw is None:
                        ob4.unknown("%s: %s read window bounds not evaluable" % (tag, nm))
                    elif not okw:
                        ob4.refute("rd-window:%s:%s" % (tag, nm), "%s: %s is taken from [%s, %s), expected [read_delay*W, (read_delay+1)*W)" %
                                   (tag, nm, key(src.args[1]), key(src.args[2])), l.loc)
                else:
                    okv = key(src.args[0].args[1]) == "read_delay" and key(src.args[1]) == str(ratio)
                    ob4.instance("%s %s" % (tag, nm), key(src))
                    if not okv:
                        ob4.refute("rd-valid:%s" % tag, "%s: rddata_valid is %s, expected Replicate(valid[read_delay], ratio)" % (tag, key(src)), l.loc)
        # completeness of the read path: every slow phase k takes rddata AND rddata_valid from the deserializer of PHY phase k // ratio
        src_of = {}
        for l in v.leaves:
            if l.kind != "assign" or l.inst != "" or l.target is None:
                continue
            tgts = list(l.target.args) if isinstance(l.target, Op) and l.target.op == "Cat" else [l.target]
            for tg in tgts:
                pk = phase_idx(key(tg))
                if pk is None or pk[1] not in ("rddata", "rddata_valid"):
                    continue
                srcs = set()
                for t_ in subterms(l.value):
                    for o in dess:
                        if o.kwargs.get("o") is t_:
                            mo_ = re.match(r"^phy_dfi\.p(\d+)\.(\w+)$", key(o.kwargs.get("i")))
                            if mo_:
                                srcs.add((int(mo_.group(1)), mo_.group(2)))
                src_of.setdefault(pk, set()).update(srcs)
        for k_ in range(ratio * nphy):
            for nm_ in ("rddata", "rddata_valid"):
                got_ = src_of.get((k_, nm_))
                want_ = {(k_ // ratio, nm_)}
                if got_ != want_:
                    ob2.refute("rd-source:%s:%s:p%d" % (tag, nm_, k_), "%s: slow phase %d takes %s from %s, expected from the deserializer of PHY phase %d's %s: a phase "
                               "reports another phase's read-valid (or none)" % (tag, k_, nm_, sorted(got_) if got_ else "nothing", k_ // ratio, nm_), None)
        ob2.instance("%s read sources" % tag, {"%s.p%d" % (nm_, k_): sorted(x) for (k_, nm_), x in sorted(src_of.items())})
    m = ctx.repo.module(DFI)
    cn = m.classes.get("DFIRateConverter")
    asserts = [ast.unparse(n.test) for n in ast.walk(cn) if isinstance(n, ast.Assert)] if cn else []
    for d_ in ("write_delay", "read_delay"):
        if not any(d_ in a and "ratio" in a and "0 <=" in a.replace(" ", " ") for a in asserts):
            ob4.refute("assert:%s" % d_, "0 <= %s < ratio is not asserted (asserts: %s)" % (d_, asserts), None)


def serdes(ctx):
    ob = ctx.ob("C18.3", "Serializer / Deserializer slice arrays partition their wide word in slot order; the declared LATENCY constants equal the "
                         "counted register stages in the slow clock domain", 4)
    m = ctx.repo.module(UT)
    el = Elab(ctx.repo)
    env = el.modenv(UT)
    for cls, kw, wide, narrow in (("Serializer", {"i_dw": Const(32), "o_dw": Const(8)}, "i", "o"), ("Deserializer", {"i_dw": Const(8), "o_dw": Const(32)}, "o", "i")):
        kws = dict(kw, clkdiv=Const("sys"), clk=Const("sys4x"), reset_cnt=Const(-1), name=Const("x"))
        v = elab(ctx, UT, cls, kwargs=kws)
        lat = el.find_class_const(env.vars.get(cls), "LATENCY")
        stages = sorted({key(l.target) if not (isinstance(l.target, Op)) else key(l.target) for l in v.leaves if l.kind == "assign" and l.domain == "sync:sys"})
        ob.instance("%s" % cls, {"LATENCY": key(lat) if lat is not None else None, "slow-domain registers": stages})
        if lat is None or not isinstance(lat, Const) or lat.v != len(stages):
            ob.refute("latency:%s" % cls, "%s.LATENCY = %s but %d register stage(s) in the slow clock domain lie on the data path (%s): the PHY "
                      "latencies computed from it are off" % (cls, key(lat) if lat is not None else None, len(stages), stages), None)
        # slices
        bounds = []
        for l in v.leaves:
            for t0 in ([l.value] if isinstance(l.value, V) else []) + ([l.target] if isinstance(l.target, V) else []):
                for t in subterms(t0):
                    if isinstance(t, Op) and t.op == "select":
                        b = []
                        for a in t.args[1:]:
                            if isinstance(a, Op) and a.op == "slice" and isinstance(a.args[1], Const) and isinstance(a.args[2], Const):
                                b.append((a.args[1].v, a.args[2].v))
                        if b:
                            bounds.append((key(t.args[0]), b))
        okp = bool(bounds) and all(b == [(n * 8, (n + 1) * 8) for n in range(4)] for c, b in bounds)
        ob.instance("%s slot slices" % cls, bounds[:2])
        if not okp:
            ob.refute("slices:%s" % cls, "%s: slot slices are %s, expected slot n = bits [n*8,(n+1)*8) of the 32-bit word" % (cls, bounds[:2]), None)


def run(ctx):
    injector(ctx)
    rate_converter(ctx)
    serdes(ctx)
    ctx.assume("multi-cycle sequences and clock alignment (phase-aligned clk/clkdiv) are not decided; PhaseInjector CSR behaviour is LiteX")
