"""C19 - bundled DRAM simulation model: decode, addressing, mask polarity, latency pipelines, init image distribution."""
import ast
import itertools

from ..ruleutil import *
from ..elab import Elab, Env
from ..bits import ieval, Unresolved

MODEL = "litedram.phy.model"


def phy_view(ctx, nphases=2, bankbits=1):
    return elab(ctx, MODEL, "SDRAMPHYModel", kwargs={"module": pobj("module"), "settings": pobj("settings"), "verbosity": Const(0), "init": ListV([]),
                                                     "we_granularity": Const(8)},
                overrides={"module.geom_settings.bankbits": Const(bankbits), "settings.nphases": Const(nphases)})


def decode(ctx):
    ob = ctx.ob("C19.1", "per-phase decode: every command decode is conditioned on ~cs_n with the DFI encoding (ACT ~ras&cas&we, PRE ~ras&cas&~we, "
                         "WR ras&~cas&~we, RD ras&~cas&we); precharge honours A10 (bank == nb | address[10]); only the addressed bank reacts", 8)
    pm = elab(ctx, MODEL, "DFIPhaseModel", kwargs={"dfi": Sym("dfi"), "n": Const(0)})
    exp = {"activate": ({"~cs_n", "~ras_n", "cas_n"}, "we_n"), "precharge": ({"~cs_n", "~ras_n", "cas_n"}, "~we_n"),
           "write": ({"~cs_n", "ras_n", "~cas_n"}, "~we_n"), "read": ({"~cs_n", "ras_n", "~cas_n"}, "we_n")}
    pref = None
    for l in pm.leaves:
        for c, p in l.guards:
            for s in support(c):
                if s.endswith(".cs_n"):
                    pref = s[:-len(".cs_n")]
    for nm, (g, val) in exp.items():
        ds = [l for l in pm.leaves if l.kind == "assign" and isinstance(l.target, Obj) and str(l.target) == nm]
        if not ob.need(len(ds) == 1, "DFIPhaseModel.%s decode not found" % nm):
            continue
        gk = {k.replace((pref or "") + ".", "") for k in pm.guard_keys(ds[0], False)}
        vk = lkey(literal(ds[0].value)).replace((pref or "") + ".", "")
        ob.instance("decode %s" % nm, {"guards": sorted(gk), "value": vk})
        if gk != g or vk != val:
            miss = sorted(g - gk)
            ob.refute("decode:%s" % nm, "the model decodes %s under %s with value %s; the DFI encoding is %s & %s%s" %
                      (nm, sorted(gk), vk, sorted(g), val, (" - without %s a deselected slot (cs_n=1) whose command pins happen to match is executed" % miss) if miss else ""),
                      ds[0].loc)
    v = phy_view(ctx)
    banks = v.instances_of("BankModel")
    if not ob.need(len(banks) == 2, "expected two BankModel instances for bankbits=1, found %d" % len(banks)):
        return
    for nb, b in enumerate(banks):
        for sig in ("activate", "precharge", "read"):
            ds = v.drivers(str(b) + "." + sig)
            if not ob.need(len(ds) >= 1, "bank %d %s driver not found" % (nb, sig)):
                continue
            val = ds[0].value
            ks = key(val)
            lits = disj(val) if isinstance(val, Op) and val.op == "|" else [literal(val)]
            bank_sigs = {x for x in support(val) if x.endswith(".bank")}
            want_eq = any(lkey(l_) == key(Op("==", (Sym(bs), Const(nb)))) for l_ in lits for bs in bank_sigs)
            ob.instance("bank %d %s" % (nb, sig), ks[-80:])
            if not want_eq:
                ob.refute("bank-select:%d:%s" % (nb, sig), "bank %d's %s is %s: not selected by phase.bank == %d" % (nb, sig, ks[-120:], nb), ds[0].loc)
            if sig == "precharge":
                dj = [key(a) for a, p in disj(val)] if isinstance(val, Op) and val.op == "|" else []
                if not any(k.endswith(".address[10]") for k in dj):
                    ob.refute("precharge-a10:%d" % nb, "bank %d's precharge ignores address[10] (precharge-all): %s" % (nb, ks[-120:]), ds[0].loc)
        ar = v.drivers(str(b) + ".activate_row")
        if ar and not key(ar[0].value).endswith(".address"):
            ob.refute("activate-row:%d" % nb, "activate_row is %s, not the activating phase's address" % key(ar[0].value)[-80:], ar[0].loc)


def bank_model(ctx):
    ob2 = ctx.ob("C19.2", "bank memory address is (row*ncols | col) >> log2(burst*nphases) for both the write and the read port; the row register is "
                          "loaded on activate and the bank reacts only while active", 3)
    ob3 = ctx.ob("C19.3", "byte-enable polarity: bytes are written where the DFI mask bit is 0 (we = write & ~mask), agreeing with the multiplexer (C01.3)", 1)
    b = elab(ctx, MODEL, "BankModel", kwargs={"data_width": Sym("data_width"), "nrows": Sym("nrows"), "ncols": Sym("ncols"), "burst_length": Sym("burst_length"),
                                             "nphases": Sym("nphases"), "we_granularity": Const(8), "init": Const(None)})
    for port, col in (("wraddr", "write_col"), ("rdaddr", "read_col")):
        ds = b.drivers(port)
        if not ob2.need(len(ds) == 1, "BankModel.%s not found" % port):
            continue
        val = ds[0].value
        ok = isinstance(val, Op) and val.op == "slice" and key(val.args[1]) == "log2_int(lin(burst_length*nphases))" and isinstance(val.args[2], Const) and val.args[2].v is None
        inner = val.args[0] if isinstance(val, Op) and val.op == "slice" else None
        parts = set()
        if isinstance(inner, Op) and inner.op == "|":
            parts = {key(a) for a in inner.args}
        ob2.instance("BankModel.%s" % port, key(val))
        rowreg = [l for l in b.leaves if l.kind == "assign" and l.domain == "sync" and key(l.value) == "activate_row"]
        rk_ = key(rowreg[0].target) if rowreg else "row"
        if not ok or parts != {key(Op("*", (Sym("ncols"), Sym(rk_)))), col}:
            ob2.refute("bank-addr:%s" % port, "BankModel.%s = %s, expected (row*ncols | %s)[log2(burst_length*nphases):]" % (port, key(val), col), ds[0].loc)
    # the row register: the sync register loaded from activate_row (whatever it is called)
    rowl = [l for l in b.leaves if l.kind == "assign" and l.domain == "sync" and key(l.value) == "activate_row"]
    if not rowl or "activate" not in b.guard_keys(rowl[0], False):
        ob2.refute("row-load", "the bank's row register is not loaded from activate_row on activate", rowl[0].loc if rowl else None)
    else:
        ob2.instance("row load", str(rowl[0]))
        extra = b.guard_keys(rowl[0], False) - {"activate", "~precharge"}
        if extra:
            ob2.refute("row-load-conditional", "the row register is loaded only under %s besides activate: the model has no auto-precharge, so a legal ACT that follows a "
                       "read/write with auto-precharge (bank still marked active in the model) must overwrite the row - otherwise the bank keeps serving the old row" %
                       sorted(extra), rowl[0].loc)
        ROW = key(rowl[0].target)
        act = [l for l in b.leaves if l.kind == "assign" and l.domain == "sync" and is1(l.value) and b.guard_keys(l, False) - {"~precharge"} == {"activate"}]
        if not act:
            ob2.refute("active-set", "no register is set to 1 exactly on activate: the bank never becomes active", rowl[0].loc)
    we = [l for l in b.leaves if l.kind == "assign" and "we" in key(l.target) and isinstance(l.value, V) and "write" in support(l.value)]
    if ob3.need(len(we) >= 1, "write-enable assignment not found"):
        val = we[0].value
        lits = conj(val)
        ks = litset(lits)
        ob3.instance("write enable", key(val))
        if "~write_mask" not in ks:
            ob3.refute("mask-polarity", "the model's byte write-enable is %s: bytes must be written where the DFI mask is 0 (~write_mask)" % key(val), we[0].loc)
        if "active" not in b.guard_keys(we[0], False):
            ob3.refute("write-inactive", "the model writes although the bank is not active", we[0].loc)


def latencies(ctx):
    ob = ctx.ob("C19.4", "the write strobe/column travel through exactly settings.write_latency register stages and read valid/data through exactly "
                         "settings.read_latency stages, valid and data through the same chain length", 4)
    v = phy_view(ctx)
    banks = v.instances_of("BankModel")
    def depth(t):
        n = Const(0)
        while isinstance(t, Op) and t.op == "delay":
            n = Op("+", (n, t.args[1]))
            t = t.args[0]
        return n, t
    for b in banks[:1]:
        for sig in ("write", "write_col"):
            ds = v.drivers(str(b) + "." + sig)
            if not ob.need(len(ds) == 1, "bank %s driver not found" % sig):
                continue
            n, src = depth(ds[0].value)
            # register-stage profile from the DFI phase signals to the bank input: every path must have write_latency stages (one pipeline per bank, or one shared
            # pipeline with the bank selected after the delay)
            prof = stage_profile(v, ds[0].value, stop=lambda k_: ".phases[" in k_ or k_.startswith("dfi.") or "phase" in k_.split(".")[0])
            if not ob.need(prof is not None and len(prof) > 0, "bank.%s: register-stage profile not computable" % sig):
                continue
            ob.instance("bank.%s pipeline" % sig, {"stages": sorted({key(n0) for _, n0 in prof}), "sources": sorted({s0 for s0, _ in prof})[:6]})
            wrong = sorted((s0, key(n0)) for s0, n0 in prof if not lin_eq(n0, Sym("settings.write_latency")))
            if wrong:
                ob.refute("write-latency:%s" % sig, "bank.%s is reached from %s after %s register stages, the PHY settings advertise write_latency" % (sig, wrong[0][0], wrong[0][1]),
                          ds[0].loc)
    outs = [l for l in v.leaves if l.inst == "" and l.kind == "assign" and isinstance(l.target, Op) and l.target.op == "Cat"]
    found = {}
    for l in outs:
        nm = "rddata_valid" if "rddata_valid" in key(l.target) else ("rddata" if "rddata" in key(l.target) else None)
        if nm:
            n, src = depth(l.value)
            found[nm] = (n, src, l)
            ob.instance("%s pipeline" % nm, {"stages": key(n), "source": key(src)})
            if not lin_eq(n, Sym("settings.read_latency")):
                ob.refute("read-latency:%s" % nm, "%s is delayed by %s cycles, the PHY settings advertise read_latency" % (nm, key(n)), l.loc)
    if not ob.need(set(found) == {"rddata_valid", "rddata"}, "read outputs not found"):
        return
    def srcs(t):
        d_ = v.single_comb_def(t) if isinstance(t, (Obj, Sym)) else t
        return {x.rsplit(".", 1)[1] for x in support(d_)} if d_ is not None else set()
    if srcs(found["rddata_valid"][1]) != {"read"} or srcs(found["rddata"][1]) != {"read_data"}:
        ob.refute("read-sources", "rddata_valid / rddata are driven from %s / %s, expected the OR of the banks' read strobes / read data" %
                  (key(found["rddata_valid"][1]), key(found["rddata"][1])), found["rddata"][2].loc)


def init_image(ctx):
    ob = ctx.ob("C19.5", "init image distribution: for ROW_BANK_COL the image is walked row -> bank -> column and for BANK_ROW_COL bank -> row -> column, "
                         "in units of model words (the image list is indexed in words); bank memory length = nrows*ncols/(burst*nphases)", 2)
    m = ctx.repo.module(MODEL)
    cls = m.classes.get("SDRAMPHYModel")
    fn = [n for n in cls.body if isinstance(n, ast.FunctionDef) and n.name.endswith("__prepare_bank_init_data")] if cls else []
    if not ob.need(len(fn) == 1, "__prepare_bank_init_data vanished"):
        return
    fn = fn[0]
    el = Elab(ctx.repo)
    menv = el.modenv(MODEL)
    env = Env(menv)
    for a in fn.args.args:
        env.set(a.arg, Sym(a.arg))
    env.set("self", pobj("self"))
    starts = {}
    el.file = m.rel()

    def walk(body, mapping):
        for s in body:
            if isinstance(s, ast.Assign) and len(s.targets) == 1 and isinstance(s.targets[0], ast.Name):
                try:
                    v = el.ev(s.value, env)
                except Exception:
                    continue
                if s.targets[0].id == "start" and mapping:
                    starts[mapping] = (v, s.lineno)
                env.set(s.targets[0].id, v)
            elif isinstance(s, ast.For):
                if isinstance(s.target, ast.Name):
                    env.set(s.target.id, Sym(s.target.id))
                walk(s.body, mapping)
            elif isinstance(s, ast.If):
                mp = mapping
                if isinstance(s.test, ast.Compare) and isinstance(s.test.left, ast.Name) and s.test.left.id == "address_mapping" and \
                        isinstance(s.test.comparators[0], ast.Constant):
                    walk(s.body, s.test.comparators[0].value)
                    walk(s.orelse, mapping)
                elif mapping:
                    pass
    walk(fn.body, None)
    if not ob.need(set(starts) == {"ROW_BANK_COL", "BANK_ROW_COL"}, "start index of both mappings not found (%s)" % sorted(starts)):
        return
    vals = list(itertools.product((2, 4, 8), (8, 32), (16, 64), (8, 16), (16, 32, 64)))
    for mapping, (t, line) in starts.items():
        bad = None
        n = 0
        for nbanks, nrows, ncols, databits, dw in vals:
            if dw < databits:
                continue
            for bank, row in ((0, 0), (1, 0), (nbanks - 1, nrows - 1), (1, 3)):
                envv = {"nbanks": nbanks, "nrows": nrows, "ncols": ncols, "data_width": dw, "self.settings.databits": databits, "bank": bank, "row": row}
                try:
                    got = ieval(t, envv)
                except Unresolved as e:
                    ob.unknown("%s: start term not evaluable: %s (%s)" % (mapping, key(t)[:120], e))
                    return
                words_per_row = ncols * databits // dw
                exp = (row * nbanks + bank) * words_per_row if mapping == "ROW_BANK_COL" else bank * nrows * words_per_row
                n += 1
                if mapping == "BANK_ROW_COL" and row != 0:
                    continue
                if got != exp and bad is None:
                    bad = (envv, got, exp)
        ob.instance("%s start index" % mapping, {"term": key(t)[:200], "valuations": n})
        if bad:
            ob.refute("init-start:%s" % mapping, "%s: bank slice starts at image word %s for %s, expected %s (the image list holds model words of data_width bits): "
                      "banks receive another bank's data or nothing" % (mapping, bad[1], {k: v for k, v in bad[0].items()}, bad[2]), (m.rel(), line))
    b = elab(ctx, MODEL, "BankModel", kwargs={"data_width": Sym("data_width"), "nrows": Sym("nrows"), "ncols": Sym("ncols"), "burst_length": Sym("burst_length"),
                                             "nphases": Sym("nphases"), "we_granularity": Const(8), "init": Const(None)})
    mems = [o for o in b.d.objs if o.cls == "Memory"]
    if ob.need(len(mems) == 1, "BankModel memory not found"):
        ln = mems[0].args[1] if len(mems[0].args) > 1 else None
        ob.instance("bank memory length", key(ln) if ln is not None else None)
        try:
            for nrows, ncols, bl, nph in ((8, 16, 2, 2), (32, 64, 1, 1), (16, 32, 2, 4)):
                if ieval(ln, {"nrows": nrows, "ncols": ncols, "burst_length": bl, "nphases": nph}) != nrows * ncols // (bl * nph):
                    ob.refute("bank-mem-len", "bank memory length is %s, expected nrows*ncols//(burst_length*nphases)" % key(ln), mems[0].loc)
                    break
        except Unresolved as e:
            ob.unknown("bank memory length not evaluable: %s" % e)


def run(ctx):
    decode(ctx)
    bank_model(ctx)
    latencies(ctx)
    init_image(ctx)
    ctx.assume("equivalence with an independent DRAM model over all legal traces - the essence of C19 - is NOT decided; these are five necessary clauses")
