"""C07 - width-converted ports: command splitting / merging, lane arithmetic, address-width adjustment."""
from ..ruleutil import *
from ..elab import elaborate

AD = "litedram.frontend.adapter"


def port(name, dw, mode="both"):
    return None


def down_view(ctx, ratio=None):
    ov = {"port_from.mode": Const("both"), "port_to.mode": Const("both"), "port_from.clock_domain": Const("sys"), "port_to.clock_domain": Const("sys")}
    if ratio:
        ov.update({"port_from.data_width": Const(32 * ratio), "port_to.data_width": Const(32)})
    return elab(ctx, AD, "LiteDRAMNativePortDownConverter", overrides=ov, kwargs={"reverse": Sym("reverse")})


def up_view(ctx, ratio=None, reverse=None, mode="both"):
    ov = {"port_from.mode": Const(mode), "port_to.mode": Const(mode), "port_from.clock_domain": Const("sys"), "port_to.clock_domain": Const("sys")}
    if ratio:
        ov.update({"port_from.data_width": Const(32), "port_to.data_width": Const(32 * ratio)})
    kw = {}
    if reverse is not None:
        kw["reverse"] = Const(reverse)
    return elab(ctx, AD, "LiteDRAMNativePortUpConverter", overrides=ov, kwargs=kw)


def pipelines(v):
    out = []
    for o in v.d.objs:
        if o.cls == "Pipeline":
            out.append([key(a) for a in o.args])
    return out


def down(ctx):
    ob = ctx.ob("C07.1", "down-converter: a user command is split into exactly `ratio` sub-commands with addresses addr*ratio + k, k = 0..ratio-1 "
                         "(counter from 0, +1 per accepted sub-command, leave at ratio-1), the direction is latched with the address, and both "
                         "data paths go through StrideConverters with the same `reverse` in both directions", 4)
    v = down_view(ctx)
    fs = v.fsms("")
    if not ob.need(len(fs) == 1, "down-converter FSM not found"):
        return
    f = fs[0]
    cmdv = [l for l in v.fsm_leaves(f) if l.kind == "assign" and key(l.target) == "port_to.cmd.valid" and is1(l.value)]
    if not ob.need(len(cmdv) == 1, "state issuing sub-commands not found"):
        return
    st = cmdv[0].state
    # every state that can offer a sub-command counts the ones accepted there: a sub-command offered (and possibly accepted) in another state - e.g. presented
    # straight from the idle state to save a cycle - is issued again by the splitting state, whose counter starts from 0
    for l in v.fsm_leaves(f):
        if l.kind == "assign" and key(l.target) == "port_to.cmd.valid" and not is0(l.value) and l.state != st:
            counted = [m_ for m_ in v.fsm_leaves(f, l.state) if m_.kind == "nextvalue" and "port_to.cmd.ready" in v.guard_keys(m_, False)
                       and lin_eq(m_.value, Op("+", (m_.target, Const(1))))]
            ob.instance("sub-command offered outside the splitting state", {"state": l.state, "leaf": str(l)[:120], "counted there": bool(counted)})
            if not counted:
                ob.refute("offer-uncounted:%s" % l.state, "state %s offers a sub-command on port_to.cmd (%s) but no counter advances there when it is accepted: with port_to.cmd.ready "
                          "already high that sub-command is taken, and the splitting state %s issues it again (its counter starts from 0) - one access too many, data "
                          "shifted by one beat" % (l.state, str(l)[:100], st), l.loc)
    addr = [l for l in v.fsm_leaves(f, st) if l.kind == "assign" and key(l.target) == "port_to.cmd.addr"]
    if not ob.need(len(addr) == 1, "sub-command address not found"):
        return
    ratio_t = Op("//", (Sym("port_from.data_width"), Sym("port_to.data_width")))
    la = lin(addr[0].value)
    rk = sorted(lin(ratio_t).atoms())[0]
    # expect  A*ratio + C  with A, C registers
    regs = [o for o in v.d.objs if o.cls == "Signal" and o.name in ("cmd_addr", "cmd_count") or (o.cls == "Signal" and o.name and "." not in o.name)]
    cnt = adr = None
    if la is not None:
        for mono, c in la.t.items():
            if len(mono) == 1 and c == 1:
                cnt = mono[0]
            if len(mono) == 2 and c == 1 and rk in mono:
                adr = [m for m in mono if m != rk][0]
    ob.instance("sub-command address", {"term": key(addr[0].value), "counter": cnt, "latched address": adr})
    if cnt is not None and adr is not None and len(la.t) != 2:
        ob.refute("down-addr", "sub-command address is %s: the latched address times the ratio plus the beat counter PLUS something else - the sub-commands are shifted off the "
                  "user word" % key(addr[0].value), addr[0].loc)
        return
    if (cnt is None or adr is None) and isinstance(addr[0].value, Obj) and addr[0].value.cls == "Signal":
        # running-address form: a register loaded with addr*ratio and stepped by one per accepted sub-command. Decided here: the register holds the
        # product without losing its top bits
        R_ = addr[0].value
        loads_ = [l for l in v.fsm_leaves(f) if l.kind == "nextvalue" and key(l.target) == key(R_) and key(R_) not in support(l.value)]
        for l in loads_:
            fl_ = lin(l.value)
            trunc_ = fits(R_, l.value) is False
            if not trunc_ and isinstance(l.value, Op) and l.value.op in ("*", "<<") and len(l.value.args) == 2:
                # A * ratio with ratio a build-time integer >= 2 (a down-converter narrows): the product needs width(A) + log2(ratio) bits
                A_ = [x for x in l.value.args if not isinstance(x, Const) and lin(x) is not None and rk not in lin(x).atoms()]
                wR_ = twidth(R_)
                wA_ = twidth(A_[0]) if len(A_) == 1 else None
                if wR_ and len(wR_) == 1 and wA_ and any(lin_ge(w_, wR_[0]) is True for w_ in wA_):
                    trunc_ = True
                if wR_ and len(wR_) == 1 and not wA_ and len(A_) == 1 and key(wR_[0]) == "len(%s)" % key(A_[0]):
                    trunc_ = True          # declared exactly as wide as the factor itself
            if fl_ is not None and any(rk in m_ for m_ in fl_.t) and trunc_:
                ob.refute("down-addr-truncated", "the running sub-command address %s is loaded with %s but declared narrower than that product: the top log2(ratio) bits of the user "
                          "address are lost and upper addresses alias onto lower ones" % (key(R_), key(l.value)), l.loc)
                return
    if cnt is None or adr is None:
        ob.unknown("sub-command address %s is not of the form latched_address*ratio + counter (e.g. a running address register): the splitting arithmetic is not decided" %
                   key(addr[0].value))
        return
    # Accept-site form (any number of sites at which a user command is taken, e.g. a back-to-back optimisation that takes the next command while
    # the last sub-command is accepted): at EVERY site where port_from.cmd.ready is asserted, a fired handshake loads address, direction and
    # counter = 0 (and that load is the last assignment to each register on that path); address / direction are loaded nowhere else; inside the
    # splitting state a command is taken only together with the acceptance of the LAST sub-command; the counter is +1 per accepted sub-command.
    nv = [l for l in v.fsm_leaves(f) if l.kind == "nextvalue"]
    we = [l for l in v.fsm_leaves(f, st) if l.kind == "assign" and key(l.target) == "port_to.cmd.we"]
    wereg = key(we[0].value) if len(we) == 1 and isinstance(we[0].value, (Obj, Sym)) else None
    if wereg is None:
        ob.refute("down-we", "the sub-commands' direction is not a register latched together with the address", we[0].loc if we else addr[0].loc)
    lastcmp = None
    accepts = [l for l in v.fsm_leaves(f) if l.kind == "assign" and key(l.target) == "port_from.cmd.ready" and not is0(l.value)]
    if not ob.need(len(accepts) >= 1, "no site accepting the user command (port_from.cmd.ready) found in the converter FSM"):
        return
    want = {adr: "port_from.cmd.addr", cnt: "0"}
    if wereg:
        want[wereg] = "port_from.cmd.we"
    for a in accepts:
        fire = set(v.guard_keys(a, False)) | (set(v.value_conj_keys(a.value, False)) if not is1(a.value) else set()) | {"port_from.cmd.valid"}
        loaded = {}
        for l in v.fsm_leaves(f, a.state):          # source order: a later assignment on the same path wins
            if l.kind == "nextvalue" and key(l.target) in want and set(v.guard_keys(l, False)) <= fire:
                loaded[key(l.target)] = l
        ob.instance("accept site in state %s" % a.state, {"fires under": sorted(fire), "loads": {k_: str(l_)[:90] for k_, l_ in loaded.items()}})
        for reg, src in sorted(want.items()):
            l = loaded.get(reg)
            good = l is not None and ((src == "0" and is0(l.value)) or (src != "0" and key(l.value) == src))
            if not good:
                ob.refute("down-we" if reg == wereg else "down-counter", "state %s accepts a user command (under %s) but %s: the sub-commands issued for that command use "
                          "a stale %s" % (a.state, sorted(fire), ("the last assignment to %s on that path is `%s`" % (reg, str(l)[:80])) if l is not None else
                                          ("does not load %s from %s" % (reg, src)), "counter" if src == "0" else ("direction" if reg == wereg else "address")), (l or a).loc)
        if a.state == st:
            lc = None
            for x, p_ in v.guard_lits(a, False):
                if p_ and isinstance(x, Op) and x.op == "==" and cnt in (key(x.args[0]), key(x.args[1])):
                    lc = [y for y in x.args if key(y) != cnt][0]
            if "port_to.cmd.ready" not in fire or lc is None or not lin_eq(lc, Op("-", (ratio_t, Const(1)))):
                ob.refute("down-accept-early", "state %s takes the next user command under %s, i.e. not only while the LAST sub-command of the current one is being accepted: "
                          "the remaining sub-commands are issued with the new address" % (st, sorted(fire)), a.loc)
    for l in nv:
        if key(l.target) in (adr, wereg):
            g = set(v.guard_keys(l, False))
            cover = [a for a in accepts if a.state == l.state and (set(v.guard_keys(a, False)) | (set(v.value_conj_keys(a.value, False)) if not is1(a.value) else set())) <= g]
            if "port_from.cmd.valid" not in g or not cover:
                ob.refute("down-latch-without-accept", "`%s` reloads the latched %s under %s, where no user command is being accepted (valid & ready): the split in progress "
                          "continues with another command's %s" % (str(l)[:90], "address" if key(l.target) == adr else "direction", sorted(g),
                                                                     "address" if key(l.target) == adr else "direction"), l.loc)
    inc = [l for l in nv if key(l.target) == cnt and not is0(l.value)]
    ob.instance("counter", {"inc": [str(x) for x in inc]})
    okc = bool(inc) and all(lin_eq(l.value, Op("+", (l.target, Const(1)))) and l.state == st and "port_to.cmd.ready" in v.guard_keys(l, False) for l in inc) \
        and any(set(v.guard_keys(l, False)) == {"port_to.cmd.ready"} for l in inc)
    if not okc:
        ob.refute("down-counter", "sub-command counter is not +1 per accepted sub-command (in the splitting state, under port_to.cmd.ready alone): %s" %
                  [str(x) for x in inc], (inc or addr)[0].loc)
    outs = [l for l in v.fsm_leaves(f, st) if l.kind == "next"]
    last = None
    for l in outs:
        for a, p in v.guard_lits(l, False):
            if p and isinstance(a, Op) and a.op == "==" and cnt in (key(a.args[0]), key(a.args[1])):
                last = [x for x in a.args if key(x) != cnt][0]
        if "port_to.cmd.ready" not in v.guard_keys(l, False):
            ob.refute("down-exit-ready", "the splitting state is left without waiting for the last sub-command to be accepted", l.loc)
    ob.instance("exit compare", key(last) if last is not None else None)
    if last is None or not lin_eq(last, Op("-", (ratio_t, Const(1)))):
        ob.refute("down-count", "the splitting state is left when the counter equals %s, expected ratio-1 (exactly `ratio` sub-commands)" %
                  (key(last) if last is not None else None), outs[0].loc if outs else None)
    # data paths
    conv = [o for o in v.d.objs if o.cls == "StrideConverter"]
    pl = pipelines(v)
    ob.instance("data paths", {"converters": [{k: key(x) for k, x in o.kwargs.items()} for o in conv], "pipelines": pl})
    if len(conv) != 2 or len({key(o.kwargs.get("reverse")) for o in conv}) != 1 or any(key(o.kwargs.get("reverse")) != "reverse" for o in conv):
        ob.refute("down-reverse", "the write and read StrideConverters are not built with the same `reverse` argument: %s" %
                  [key(o.kwargs.get("reverse")) for o in conv], conv[0].loc if conv else None)
    want = [["port_from.wdata", None, "port_to.wdata"], ["port_to.rdata", None, "port_from.rdata"]]
    for w in want:
        if not any(len(p) == 3 and p[0] == w[0] and p[2] == w[2] and any(p[1] == str(c) for c in conv) for p in pl):
            ob.refute("down-pipeline:%s" % w[0], "no Pipeline(%s, converter, %s)" % (w[0], w[2]), None)
    for o in conv:
        f_, t_ = key(o.kwargs.get("description_from")), key(o.kwargs.get("description_to"))
        if not ((f_, t_) in (("port_from.wdata.description", "port_to.wdata.description"), ("port_to.rdata.description", "port_from.rdata.description"))):
            ob.refute("down-conv-dir:%s" % o, "StrideConverter %s converts %s -> %s" % (o, f_, t_), o.loc)


def up(ctx):
    ob = ctx.ob("C07.2", "up-converter lane arithmetic: the low log2(ratio) address bits select the lane (1 << addr[:k]), the remaining bits are the "
                         "wide address (partition of the address); byte enables widen each sel bit over we_width/ratio bytes in lane order "
                         "(reversed iff reverse); the widened mask may change only at a wide-word boundary (last chunk)", 8)
    for ratio in (2, 4):
        for rev in (False, True):
            v = up_view(ctx, ratio, rev)
            k = ratio.bit_length() - 1
            tag = "ratio=%d reverse=%s" % (ratio, rev)
            fs = v.fsms("")
            if not ob.need(len(fs) == 1, "up-converter FSM not found"):
                return
            f = fs[0]
            lanes = []
            for l in v.fsm_leaves(f):
                if l.kind == "nextvalue" and isinstance(l.target, Obj) and any(isinstance(t_, Op) and t_.op == "<<" and is1(t_.args[0]) for t_ in subterms(l.value)):
                    for t in subterms(l.value):
                        if isinstance(t, Op) and t.op == "<<" and is1(t.args[0]):
                            lanes.append((l, t.args[1]))
            ob.instance("%s lane select" % tag, [key(t) for l, t in lanes])
            if len(lanes) < 2:
                ob.unknown("%s: lane selection (1 << lane) sites not found" % tag)
                continue
            for l, t in lanes:
                gk_ = set(v.guard_keys(l))
                for a_, p_ in v.guard_lits(l, False):
                    if p_:     # a guard signal that this very state defines unconditionally (e.g. ready = valid & ~lock)
                        for d_ in v.fsm_leaves(f, l.state):
                            if d_.kind == "assign" and not d_.guards and key(d_.target) == key(a_) and isinstance(d_.value, V):
                                gk_ |= litset(conj(d_.value))
                if "port_from.cmd.valid" not in gk_:
                    ob.refute("up-lane-without-valid:%s:%s" % (tag, l.state), "state %s: a chunk is added to the selection from port_from.cmd.addr under %s, i.e. also while no "
                              "command is offered: whatever address the master shows while idle is merged into the native access (an extra data beat is pulled / returned)" %
                              (l.state, sorted(v.guard_keys(l, False))), l.loc)
                if key(t) != "port_from.cmd.addr[:%d]" % k:
                    ob.refute("up-lane:%s" % tag, "lane is selected by %s, expected the low %d address bits port_from.cmd.addr[:%d]" % (key(t), k, k), l.loc)
            wa = [l for l in v.fsm_leaves(f) if l.kind == "assign" and key(l.target) == "port_to.cmd.addr"]
            if ob.need(len(wa) == 1, "%s: wide address assignment not found" % tag):
                val = wa[0].value
                okw = isinstance(val, Op) and val.op == "slice" and key(val.args[1]) == str(k) and isinstance(val.args[2], Const) and val.args[2].v is None
                src = val.args[0] if okw else None
                lat = [l for l in v.fsm_leaves(f) if l.kind == "nextvalue" and src is not None and key(l.target) == key(src)]
                ob.instance("%s wide address" % tag, key(val))
                # a register of its own for the wide part, loaded with exactly the upper bits of the user address, is the same address
                if not okw and isinstance(val, Obj) and val.cls == "Signal":
                    lat2 = [l for l in v.fsm_leaves(f) if l.kind == "nextvalue" and key(l.target) == key(val)]
                    if lat2 and all(key(l.value) == "port_from.cmd.addr[%d:]" % k for l in lat2):
                        ob.instance("%s wide address register" % tag, [str(l)[:120] for l in lat2])
                        continue_ = True
                    else:
                        ob.unknown("%s: wide address is the register %s, loaded with %s: not the latched user address [%d:] this rule reads" % (tag, key(val), [key(l.value) for l in lat2], k))
                        continue_ = True
                else:
                    continue_ = False
                if continue_:
                    pass
                elif not okw or not lat or any(key(l.value) != "port_from.cmd.addr" for l in lat):
                    ob.refute("up-addr:%s" % tag, "wide address is %s, expected latched user address [%d:]" % (key(val), k), wa[0].loc)
            ac = v.single_comb_def(Sym("addr_changed"))
            if ac is not None:
                ks = key(ac)
                if "[%d:]" % k not in ks:
                    ob.refute("up-addr-changed:%s" % tag, "address-change detection %s does not compare the wide-address bits [%d:]" % (ks, k), None)
            # mask widening
            ws = [l for l in v.leaves if l.kind == "assign" and l.domain.startswith("sync") and isinstance(l.value, Op) and l.value.op == "Cat"
                  and all(isinstance(a, Op) and a.op == "Replicate" for a in l.value.args) and "cmd_buffer.source.sel" in support(l.value)]
            if not ob.need(len(ws) == 1, "%s: wdata_sel register update not found" % tag):
                continue
            val = ws[0].value
            parts = list(val.args) if isinstance(val, Op) and val.op == "Cat" else []
            order = []
            okp = len(parts) == ratio
            for pth in parts:
                if isinstance(pth, Op) and pth.op == "Replicate" and isinstance(pth.args[0], Op) and pth.args[0].op == "index" \
                        and key(pth.args[0].args[0]) == "cmd_buffer.source.sel":
                    order.append(pth.args[0].args[1].v if isinstance(pth.args[0].args[1], Const) else None)
                    rep = pth.args[1]
                else:
                    okp = False
            exp = list(reversed(range(ratio))) if rev else list(range(ratio))
            ob.instance("%s mask widening" % tag, {"order": order, "guard": sorted(v.guard_keys(ws[0], False))})
            if not okp or order != exp:
                ob.refute("up-mask-order:%s" % tag, "byte-enable widening takes sel bits in order %s, expected %s" % (order, exp), ws[0].loc)
            g = v.guard_keys(ws[0], False)
            need = {"cmd_buffer.source.valid", "cmd_buffer.source.we", "wdata_chunk[%d]" % (ratio - 1)}
            # the "last chunk of the current word" condition may be spelled with a one-hot chunk register or a binary chunk counter: any guard literal that reads
            # a local chunk-position register counts; what is refuted is its ABSENCE
            pos_lits = set()
            for a_, p_ in v.guard_lits(ws[0], False):
                for st_ in subterms(a_):
                    if isinstance(st_, Obj) and st_.cls == "Signal" and v.drivers(st_) and all(d_.domain.startswith("sync") or d_.kind == "nextvalue" for d_ in v.drivers(st_)) \
                            and st_ is not ws[0].target:
                        pos_lits.add(lkey((a_, p_)))
            if pos_lits and {"cmd_buffer.source.valid", "cmd_buffer.source.we"} <= g:
                need = set()
            if not need <= g:
                ob.refute("up-mask-latch:%s" % tag, "the widened byte-enable mask is reloaded under %s, missing %s: it can change while a converted "
                          "word of the previous command still waits at the converter output, whose bytes are then masked with the next command's "
                          "selection" % (sorted(g), sorted(need - g)), ws[0].loc)
            app = [l for l in v.leaves if l.kind == "assign" and key(l.target) == "wdata_buffer.sink.we"]
            if not app or (ws and key(ws[0].target) not in support(app[0].value)) or "wdata_converter.source.we" not in support(app[0].value):
                ob.refute("up-mask-apply:%s" % tag, "converted byte enables are not ANDed with the widened lane mask", app[0].loc if app else None)


def up_framing(ctx):
    ob = ctx.ob("C07.6", "up-converter write path: the user's stream framing bits (wdata.last / first) never reach the sink of the width StrideConverter - LiteX's "
                         "up-converter closes the wide word on sink.last, while the chunk bookkeeping around it (chunk position, byte-enable mask) counts lanes", 1)
    v = up_view(ctx, 2, False)
    convs = [o for o in v.d.objs if o.cls == "StrideConverter"]
    names = [str(o) for o in convs]
    wr = [n_ for n_ in names if "wdata" in n_] or names[:1]
    if not ob.need(len(wr) >= 1, "write-side StrideConverter of the up-converter not found"):
        return
    sink = wr[0] + ".sink"
    n = 0
    for l in v.leaves:
        if l.kind == "connect" and key(l.target) == sink:
            n += 1
            om, kp = (l.stmt.omit or set()), l.stmt.keep
            leaks = [f_ for f_ in ("last", "first") if f_ not in om and (kp is None or f_ in kp)]
            ob.instance("connect into %s" % sink, {"statement": str(l.stmt)[:120], "framing bits forwarded": leaks})
            if "last" in leaks:
                ob.refute("up-last-leak", "`%s` forwards the stream's `last` into the width converter: a master that marks the end of a burst in the middle of a wide word makes "
                          "the converter emit that word early, with the previous word's byte-enable mask and the following lanes shifted" % str(l.stmt)[:100], l.loc)
        if l.kind == "assign" and key(l.target) == sink + ".last" and not is0(l.value):
            n += 1
            ob.refute("up-last-leak", "`%s` drives the width converter's sink.last" % str(l)[:100], l.loc)
    drv = [l for l in v.leaves if l.kind == "assign" and key(l.target).startswith(sink + ".")]
    ob.instance("drivers of %s" % sink, sorted({key(l.target) for l in drv}))
    if not drv and n == 0:
        ob.unknown("no driver of %s found" % sink)


def up_capacity(ctx):
    ob = ctx.ob("C07.7", "up-converter read capacity: the wide read commands that can be in flight (committed-command buffer depth + the one being issued) fit the FIFO that takes the "
                         "returned wide words - the memory side returns read data without waiting for ready", 1)
    from ..bits import ieval, Unresolved
    v = up_view(ctx, None, False)
    fifos = [o for o in v.d.objs if o.cls == "SyncFIFO"]
    def lay_has(o, name):
        l = o.kwargs.get("layout", o.args[0] if o.args else None)
        return isinstance(l, ListV) and any(isinstance(e, ListV) and e.items and isinstance(e.items[0], Const) and e.items[0].v == name for e in l.items)
    cb = [o for o in fifos if lay_has(o, "sel")]
    rf = [o for o in fifos if any(l.kind == "connect" and key(l.value) == "port_to.rdata" and key(l.target) == str(o) + ".sink" for l in v.leaves)]
    if not ob.need(len(cb) == 1 and len(rf) == 1, "committed-command buffer / returned-data FIFO of the up-converter not identified (%d / %d)" % (len(cb), len(rf))):
        return
    dcb = cb[0].kwargs.get("depth", cb[0].args[1] if len(cb[0].args) > 1 else None)
    drf = rf[0].kwargs.get("depth", rf[0].args[1] if len(rf[0].args) > 1 else None)
    ob.instance("depths", {"command buffer": key(dcb) if dcb is not None else None, "returned-data FIFO": key(drf) if drf is not None else None})
    if dcb is None or drf is None:
        ob.unknown("FIFO depth arguments not found")
        return
    bad = []
    try:
        for ratio in (2, 4, 8):
            env = {"port_to.data_width": 32 * ratio, "port_from.data_width": 32}
            a_, b_ = ieval(dcb, env), ieval(drf, env)
            if a_ + 1 > max(b_, 1):
                bad.append((ratio, a_, b_))
    except Unresolved as e:
        ob.unknown("depths not evaluable (%s)" % e)
        return
    if bad:
        r_, a_, b_ = bad[0]
        ob.refute("up-read-capacity", "at ratio %d the up-converter can have %d wide reads in flight (command buffer depth %d + the one being issued) but the FIFO taking the "
                  "returned words holds %d: a word returned in the cycle after another one is lost" % (r_, a_ + 1, a_, max(b_, 1)), cb[0].loc)


def addr_width(ctx):
    ob = ctx.ob("C07.3", "address-width adjustment: a port converted to another data width keeps the same byte capacity "
                         "(aw_user + log2(dw_user) = aw_native + log2(dw_native)) in all three copies of the computation (crossbar.get_port, "
                         "Wishbone bridge, Avalon bridge)", 8)
    native = 64
    for dw in (8, 16, 32, 128, 256):
        d, el = elaborate(ctx.repo, "litedram.core.crossbar", "LiteDRAMCrossbar",
                          overrides={"self.finalized": Const(False), "controller.data_width": Const(native)},
                          calls=[("get_port", (), {"data_width": Const(dw)})])
        ports = [o for o in d.instances.values() if o.cls == "LiteDRAMNativePort"]
        res = d.top.meta["results"][0][1]
        if not ob.need(len(ports) == 2 and isinstance(res, Obj), "crossbar.get_port(data_width=%d) does not create a converted port" % dw):
            continue
        nat = [p for p in ports if p is not res][0]
        diff = lin_diff(res.kwargs["address_width"], nat.kwargs["address_width"])
        exp = (native.bit_length() - 1) - (dw.bit_length() - 1)
        ob.instance("crossbar.get_port native=%d user=%d" % (native, dw), {"aw_user - aw_native": diff.key() if diff else None, "expected": exp})
        if diff is None or not diff.is_const() or diff.constval() != exp:
            ob.refute("crossbar:%d" % dw, "crossbar.get_port(data_width=%d) on a %d-bit controller gives the user port %s address bits more than "
                      "the native port, expected %+d: %s" % (dw, native, diff.key() if diff else "?", exp,
                                                            "distinct user addresses alias" if exp > 0 else "addresses beyond the memory"), res.loc)
        conv = [o for o in d.instances.values() if o.cls == "LiteDRAMNativePortConverter"]
        if not conv or [key(a) for a in conv[0].args[:2]] != [key(res), key(nat)]:
            ob.refute("crossbar-conv:%d" % dw, "converter is not built as (user port, native port)", None)
    for mod, cls, bus, lenname in (("litedram.frontend.wishbone", "LiteDRAMWishbone2Native", "wishbone", "len(wishbone.dat_w)"),
                                   ("litedram.frontend.avalon", "LiteDRAMAvalonMM2Native", "avalon", "len(avalon.writedata)")):
        for bw, pw in ((64, 32), (128, 32), (32, 64), (32, 256)):
            try:
                d, el = elaborate(ctx.repo, mod, cls, overrides={lenname: Const(bw), "len(port.wdata.data)": Const(pw), "port.data_width": Const(pw),
                                                                 "port.mode": Const("both"), "wishbone.addressing": Const("word")})
            except KeyError as e:
                ob.unknown("%s vanished: %s" % (cls, e))
                continue
            ports = [o for o in d.instances.values() if o.cls == "LiteDRAMNativePort"]
            conv = [o for o in d.instances.values() if o.cls == "LiteDRAMNativePortConverter"]
            exp = (pw.bit_length() - 1) - (bw.bit_length() - 1)
            if not ports:
                ob.instance("%s bus=%d port=%d" % (cls, bw, pw), "no intermediate port (handled without converter)")
                continue
            diff = lin_diff(ports[0].kwargs["address_width"], Sym("port.address_width"))
            ob.instance("%s bus=%d port=%d" % (cls, bw, pw), {"aw_user - aw_native": diff.key() if diff else None, "expected": exp})
            if diff is None or not diff.is_const() or diff.constval() != exp:
                ob.refute("%s:%d/%d" % (bus, bw, pw), "%s with a %d-bit bus on a %d-bit port builds an intermediate port with %s address bits more "
                          "than the native port, expected %+d" % (cls, bw, pw, diff.key() if diff else "?", exp), ports[0].loc)
            if not conv or [key(a) for a in conv[0].args[:2]] != [key(ports[0]), "port"]:
                ob.refute("%s-conv:%d/%d" % (bus, bw, pw), "%s: converter is not built as (bus-side port, native port)" % cls, None)


def lane_order(ctx):
    ob = ctx.ob("C07.4", "lane-order guard: lanes are delivered to / taken from the data path in ascending lane order (one-hot chunk shift "
                         "registers), so a further user command may be merged into the open wide word only if its lane is above every lane "
                         "already selected: the condition that closes the current wide word must depend on the selected-lane mask AND the "
                         "incoming lane index jointly", 2)
    for ratio in (2, 4):
        v = up_view(ctx, ratio, False)
        k = ratio.bit_length() - 1
        fs = v.fsms("")[0]
        # the merge state: the state that ORs new lanes into sel
        merge = [l for l in v.fsm_leaves(fs) if l.kind == "nextvalue" and isinstance(l.value, Op) and l.value.op == "|" and key(l.target) in support(l.value)
                 and any(isinstance(t_, Op) and t_.op == "<<" for t_ in subterms(l.value))]
        if not ob.need(len(merge) == 1, "ratio=%d: the state that merges further commands into the open word was not found" % ratio):
            continue
        closers = [a for a, p in v.guard_lits(merge[0], False) if not p]
        lane = "port_from.cmd.addr[:%d]" % k
        joint = False
        ordered_other = False
        detail = []
        for c in closers:
            dv = v.single_comb_def(c)
            terms = [dv] if dv is not None else [c]
            for t in terms:
                for dj, pj in (disj(t) if isinstance(t, Op) and t.op == "|" else [(t, True)]):
                    sup_keys = {key(x) for x in subterms(dj)}
                    detail.append(key(dj))
                    if lane in sup_keys and key(merge[0].target) in sup_keys:
                        joint = True
                    for x in subterms(dj):
                        if isinstance(x, Op) and x.op in ("<", "<=", ">", ">=") and lane in {key(a_) for a_ in x.args}:
                            for o_ in x.args:
                                if key(o_) == lane:
                                    continue
                                base_ = o_.args[0] if isinstance(o_, Op) and o_.op in ("slice", "index") else o_
                                # a register that follows the lanes taken (updated while merging) may stand for the mask; one loaded only when the word is opened cannot
                                if any(l_.kind == "nextvalue" and key(l_.target) == key(base_) for l_ in v.fsm_leaves(fs, merge[0].state)):
                                    ordered_other = True
        ob.instance("ratio=%d merge guard" % ratio, {"closing condition disjuncts": detail, "joint(sel, lane)": joint})
        if not joint and ordered_other:
            ob.unknown("ratio=%d: the closing condition orders the incoming lane %s against another register than the selected-lane mask (%s): whether that register tracks the "
                       "highest lane taken is not decided" % (ratio, lane, " | ".join(detail[:6])[:300]))
        elif not joint:
            ob.refute("lane-order", "in the merging state a further command is accepted whenever %s is false; no disjunct relates the selected-lane mask "
                      "`sel` to the incoming lane %s, so a command to a lane at or below an already selected lane (descending or repeated addresses) "
                      "is merged although its data beat arrives after the higher lanes' beats: data is paired with the wrong lane / a beat is lost" %
                      (" | ".join(detail[:6]), lane), merge[0].loc)


def run(ctx):
    down(ctx)
    up(ctx)
    up_framing(ctx)
    up_capacity(ctx)
    addr_width(ctx)
    lane_order(ctx)
    ctx.assume("stream.StrideConverter / stream.SyncFIFO contracts (LiteX); data values, FIFO occupancy interleavings and the read_lock race are not decided")
    ob5 = ctx.ob("C07.5", "a converted port handed out for another clock domain has its width converter clocked by that domain (ClockDomainsRenamer around the "
                          "converter, crossing on the controller side) - otherwise handshakes are counted differently on the two sides of the converter "
                          "(shared with C08.3)", 3)
    share(ctx, ob5, "C08", ("C08.3",))
