"""C13 - DRAM-backed FIFO: control part (level / pointers / gating), bypass routing. The mode switching is not decided."""
from ..ruleutil import *

FF = "litedram.frontend.fifo"
NATIVE = {"isinstance:port:LiteDRAMNativePort": True, "isinstance:port:LiteDRAMAXIPort": False,
          "isinstance:write_port:LiteDRAMNativePort": True, "isinstance:read_port:LiteDRAMNativePort": True}


def run(ctx):
    ob1 = ctx.ob("C13.1", "control: writable = level < depth, readable = level > 0, level' = level + write - read, both pointers advance by one and wrap "
                          "at depth, addresses are base + pointer; a word is counted as written exactly when the DMA writer accepts it (which needs writable) "
                          "and as read exactly when the DMA reader accepts the address (which needs readable)", 8)
    ob3 = ctx.ob("C13.3", "bypass: the pre-FIFO feeds the post-FIFO directly only under with_bypass & dram_bypass, and dram_bypass is asserted only in the "
                          "bypass state; otherwise data goes pre-FIFO -> pre-converter -> DRAM FIFO -> post-converter -> post-FIFO", 3)
    for depth in (12, 16):
        c = elab(ctx, FF, "_LiteDRAMFIFOCtrl", kwargs={"base": Sym("base"), "depth": Const(depth)})
        tag = "depth=%d" % depth
        w = c.single_comb_def(Sym("writable")) or _sd(c, "writable")
        r = _sd(c, "readable")
        ob1.instance("%s gating" % tag, {"writable": key(w) if w is not None else None, "readable": key(r) if r is not None else None})
        if w is None or not (isinstance(w, Op) and w.op == "<" and key(w.args[0]) == "level" and key(w.args[1]) == str(depth)):
            ob1.refute("writable:%d" % depth, "writable is %s, expected level < depth (with <= the FIFO accepts depth+1 words and overwrites unread data)" %
                       (key(w) if w is not None else None), None)
        if r is None or not (isinstance(r, Op) and ((r.op == ">" and key(r.args[0]) == "level" and key(r.args[1]) == "0") or (r.op == "!=" and "level" in key(r)))) and key(r) != "level":
            ob1.refute("readable:%d" % depth, "readable is %s, expected level > 0" % (key(r) if r is not None else None), None)
        lv = [l for l in c.drivers("level")]
        okl = len(lv) == 1 and not lv[0].guards and lin_eq(lv[0].value, Op("-", (Op("+", (Sym("level"), Sym("write"))), Sym("read"))))
        ob1.instance("%s level update" % tag, [str(l) for l in lv])
        if not okl:
            ob1.refute("level:%d" % depth, "level is updated with %s, expected level + write - read" % [key(l.value) for l in lv], lv[0].loc if lv else None)
        for ptr, strobe in (("write_address", "write"), ("read_address", "read")):
            ds = c.drivers(ptr)
            incs = [l for l in ds if lin_eq(l.value, Op("+", (Sym(ptr), Const(1))))]
            wraps = [l for l in ds if is0(l.value)]
            good = bool(incs) and all(strobe in c.guard_keys(l, False) for l in ds)
            if depth == 16:
                good = good and len(ds) == 1 and not wraps       # natural wrap of a 4-bit pointer
            else:
                good = good and len(wraps) == 1 and key(Op("==", (Sym(ptr), Const(depth - 1)))) in c.guard_keys(wraps[0], False) and \
                    all("~" + key(Op("==", (Sym(ptr), Const(depth - 1)))) in c.guard_keys(l, False) for l in incs)
            ob1.instance("%s pointer %s" % (tag, ptr), [str(l) for l in ds])
            if not good:
                ob1.refute("pointer:%s:%d" % (ptr, depth), "%s does not advance by one under `%s` and wrap at depth-1 = %d: %s" % (ptr, strobe, depth - 1, [str(l) for l in ds]),
                           ds[0].loc if ds else None)
    wv = elab(ctx, FF, "_LiteDRAMFIFOWriter", kwargs={"data_width": Sym("data_width"), "port": pobj("port"), "ctrl": pobj("ctrl"), "fifo_depth": Sym("fd")}, hasattrs=NATIVE)
    rv = elab(ctx, FF, "_LiteDRAMFIFOReader", kwargs={"data_width": Sym("data_width"), "port": pobj("port"), "ctrl": pobj("ctrl"), "fifo_depth": Sym("fd")}, hasattrs=NATIVE)
    sv = _sd(wv, "writer.sink.valid")
    ob1.instance("writer gating", {"writer.sink.valid": key(sv) if sv is not None else None})
    if sv is None or litset(conj(sv)) != {"sink.valid", "ctrl.writable"}:
        ob1.refute("writer-valid", "the DMA writer is offered a word under %s, expected sink.valid & ctrl.writable" % (key(sv) if sv is not None else None), None)
    for v_, tgt, what in ((wv, "ctrl.write", "writer.sink"), (wv, "sink.ready", "writer.sink"), (rv, "ctrl.read", "reader.sink")):
        ds = [l for l in v_.leaves if l.kind == "assign" and key(l.target) == tgt and l.inst == ""]
        okk = len(ds) == 1 and is1(ds[0].value) and v_.guard_keys(ds[0], False) == {what + ".valid", what + ".ready"}
        ob1.instance(tgt, [str(d) for d in ds])
        if not okk:
            ob1.refute("strobe:%s" % tgt, "%s is asserted by %s, expected exactly under fire(%s): the level would count words the DMA did not accept (or miss "
                       "accepted ones)" % (tgt, [str(d) for d in ds], what), ds[0].loc if ds else None)
    rsv = _sd(rv, "reader.sink.valid")
    if rsv is None or key(rsv) != "ctrl.readable":
        ob1.refute("reader-valid", "the DMA reader is offered an address under %s, expected ctrl.readable" % (key(rsv) if rsv is not None else None), None)
    for v_, tgt, ptr in ((wv, "writer.sink.address", "ctrl.write_address"), (rv, "reader.sink.address", "ctrl.read_address")):
        a = _sd(v_, tgt)
        ob1.instance(tgt, key(a) if a is not None else None)
        if a is None or not lin_eq(a, Op("+", (Sym("ctrl.base"), Sym(ptr)))):
            ob1.refute("address:%s" % tgt, "%s is %s, expected ctrl.base + %s" % (tgt, key(a) if a is not None else None, ptr), None)
    d = _sd(wv, "writer.sink.data")
    if d is None or key(d) != "sink.data":
        ob1.refute("writer-data", "writer data is %s" % (key(d) if d is not None else None), None)
    if len(find_connect(rv, src="reader.source", dst="source")) != 1:
        ob1.refute("reader-out", "reader.source is not connected to the FIFO source", None)
    # ---- C13.3 ----
    for bp in (True, False):
        t = elab(ctx, FF, "LiteDRAMFIFO", kwargs={"data_width": Const(32), "base": Const(0), "depth": Const(1024), "write_port": pobj("write_port"), "read_port": pobj("read_port"),
                                                 "with_bypass": Const(bp)},
                 overrides={"write_port.data_width": Const(128 if bp else 32), "read_port.data_width": Const(128 if bp else 32), "write_port.address_width": Const(24)}, hasattrs=NATIVE)
        cons = [l for l in t.leaves if l.kind == "connect" and l.inst == ""]
        route = {}
        for l in cons:
            route[(key(l.value), key(l.target))] = (sorted(t.guard_keys(l, False)), l.fsm is not None and l.state)
        ob3.instance("with_bypass=%s routing" % bp, {"%s->%s" % k: v_ for k, v_ in route.items()})
        direct = route.get(("pre_fifo.source", "post_fifo.sink"))
        if bp:
            if direct is None or direct[0] != ["dram_bypass"]:
                ob3.refute("bypass-guard", "pre-FIFO -> post-FIFO is connected under %s, expected exactly dram_bypass" % (direct,), None)
            f = t.fsms("")
            if ob3.need(len(f) == 1, "mode FSM not found"):
                st = sorted({l.state for l in t.fsm_leaves(f[0]) if l.kind == "assign" and key(l.target) == "dram_bypass" and not is0(l.value)})
                other = [l for l in t.leaves if l.fsm is None and l.kind == "assign" and key(l.target) == "dram_bypass" and not is0(l.value)]
                if other:
                    st.append("<outside the FSM>")
                ob3.instance("dram_bypass asserted in", st)
                if st != [f[0].reset_state]:
                    ob3.refute("bypass-state", "dram_bypass is asserted in %s, expected only in the reset (bypass) state %s" % (st, f[0].reset_state), None)
            pc = route.get(("post_converter.source", "post_fifo.sink"))
            if pc is None or "~dram_bypass" not in pc[0]:
                ob3.refute("post-guard", "post-converter -> post-FIFO is connected under %s: both sources could drive the post-FIFO" % (pc,), None)
        else:
            if direct is not None:
                ob3.refute("bypass-without-option", "pre-FIFO -> post-FIFO is connected although with_bypass is off", None)
        for pair in (("sink", "pre_fifo.sink"), ("pre_converter.source", "dram_fifo.sink"), ("dram_fifo.source", "post_converter.sink"), ("post_fifo.source", "source")):
            if pair not in route or route[pair][0]:
                ob3.refute("route:%s->%s:%s" % (pair[0], pair[1], bp), "%s -> %s is not an unconditional connection (%s)" % (pair[0], pair[1], route.get(pair)), None)
    ctx.assume("BYPASS/DRAM/PUMP/DRAIN mode switching and the converter residue counters are value-dependent and NOT decided - the larger part of the property; "
               "a read is issued only after its write command was accepted by the port (C12.4 + level counting accepted writes), data order then rests on C01")


def _sd(v, k):
    ds = [d for d in v.drivers(k) if not d.guards]
    return ds[0].value if len(ds) == 1 else None
