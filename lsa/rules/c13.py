"""C13 - DRAM-backed FIFO: control part (level / pointers / gating), mode-switch bookkeeping, bypass routing.
Signals, states and sub-blocks are found by the role they play (what they connect / what drives them), not by their names."""
from ..ruleutil import *

FF = "litedram.frontend.fifo"
NATIVE = {"isinstance:port:LiteDRAMNativePort": True, "isinstance:port:LiteDRAMAXIPort": False,
          "isinstance:write_port:LiteDRAMNativePort": True, "isinstance:read_port:LiteDRAMNativePort": True}


def cond_keys(v, l):
    """Conditions under which a 1-bit comb target is 1: guards of `If(c, x.eq(1))` or guards & conjuncts of `x.eq(c)`."""
    lits = list(v.guard_lits(l, False))
    if not is1(l.value):
        lits += conj(l.value)
    return nkeys(v, lits)


def comb_def(v, k):
    """value of the single unguarded *combinational* driver of k (a registered flag is one cycle late and does not count)"""
    ds = v.drivers(k)
    if len(ds) == 1 and not ds[0].guards and ds[0].domain == "comb" and ds[0].kind == "assign":
        return ds[0].value
    return None


def ctrl_rules(ctx, ob1):
    for depth in (12, 16):
        c = elab(ctx, FF, "_LiteDRAMFIFOCtrl", kwargs={"base": Sym("base"), "depth": Const(depth)})
        tag = "depth=%d" % depth
        w = comb_def(c, "writable")
        r = comb_def(c, "readable")
        ob1.instance("%s gating" % tag, {"writable": key(w) if w is not None else [str(d) for d in c.drivers("writable")],
                                         "readable": key(r) if r is not None else [str(d) for d in c.drivers("readable")]})
        # the level one cycle ahead, as the level register's own update defines it
        lv_next = None
        for d_ in c.drivers("level"):
            if d_.domain.startswith("sync") and not d_.guards and isinstance(d_.value, V):
                lv_next = d_.value

        def flag_ok(sig_, cmpf):
            """comb flag: cmpf over `level`; registered flag (unconditional sync driver): the same test over the NEXT level value"""
            wdef = comb_def(c, sig_)
            if wdef is not None:
                return cmpf(wdef, Sym("level"))
            ds_ = [d_ for d_ in c.drivers(sig_)]
            if len(ds_) == 1 and ds_[0].domain.startswith("sync") and not ds_[0].guards and isinstance(ds_[0].value, V) and lv_next is not None:
                return cmpf(ds_[0].value, lv_next)
            return False

        def cmp_w(t_, lv_):
            if not (isinstance(t_, Op) and len(t_.args) == 2):
                return False
            a_, b_ = t_.args
            is_lv = lambda x_: lin_eq(x_, lv_) is True
            is_d = lambda x_, n_: isinstance(x_, Const) and x_.v == n_
            return (t_.op == "<" and is_lv(a_) and is_d(b_, depth)) or (t_.op == ">" and is_d(a_, depth) and is_lv(b_)) or \
                   (t_.op == "!=" and ((is_lv(a_) and is_d(b_, depth)) or (is_lv(b_) and is_d(a_, depth)))) or (t_.op == "<=" and is_lv(a_) and is_d(b_, depth - 1))
        okw = flag_ok("writable", cmp_w)
        if not okw:
            ob1.refute("writable:%d" % depth, "writable is %s, expected the combinational test level < depth (with <=, or with a registered flag that is one "
                       "cycle late, the FIFO accepts depth+1 words and overwrites unread data)" %
                       (key(w) if w is not None else [str(d) for d in c.drivers("writable")]), (c.drivers("writable") or [None])[0] and c.drivers("writable")[0].loc)
        def cmp_r(t_, lv_):
            a0, p0 = literal(t_)
            if p0 and lin_eq(a0, lv_) is True:
                return True
            if not (isinstance(t_, Op) and len(t_.args) == 2):
                return False
            a_, b_ = t_.args
            is_lv = lambda x_: lin_eq(x_, lv_) is True
            is_c = lambda x_, n_: isinstance(x_, Const) and x_.v == n_
            return (t_.op == ">" and is_lv(a_) and is_c(b_, 0)) or (t_.op == "<" and is_c(a_, 0) and is_lv(b_)) or (t_.op == ">=" and is_lv(a_) and is_c(b_, 1)) or \
                   (t_.op == "!=" and ((is_lv(a_) and is_c(b_, 0)) or (is_lv(b_) and is_c(a_, 0))))
        okr = flag_ok("readable", cmp_r)
        if not okr:
            ob1.refute("readable:%d" % depth, "readable is %s, expected the combinational test level > 0" %
                       (key(r) if r is not None else [str(d) for d in c.drivers("readable")]), None)
        lv = [l for l in c.drivers("level")]
        okl = len(lv) == 1 and not lv[0].guards and lin_eq(lv[0].value, Op("-", (Op("+", (Sym("level"), Sym("write"))), Sym("read"))))
        ob1.instance("%s level update" % tag, [str(l) for l in lv])
        if not okl:
            ob1.refute("level:%d" % depth, "level is updated with %s, expected level + write - read" % [key(l.value) for l in lv], lv[0].loc if lv else None)
        for ptr, strobe in (("write_address", "write"), ("read_address", "read")):
            ds = c.drivers(ptr)
            incs = [l for l in ds if lin_eq(l.value, Op("+", (Sym(ptr), Const(1))))]
            wraps = [l for l in ds if is0(l.value)]
            good = bool(incs) and all(strobe in c.guard_keys(l, False) for l in ds)
            if depth == 16:
                good = good and len(ds) == 1 and not wraps       # natural wrap of a 4-bit pointer
            else:
                good = good and len(wraps) == 1 and key(Op("==", (Sym(ptr), Const(depth - 1)))) in c.guard_keys(wraps[0], False) and \
                    all("~" + key(Op("==", (Sym(ptr), Const(depth - 1)))) in c.guard_keys(l, False) for l in incs)
            ob1.instance("%s pointer %s" % (tag, ptr), [str(l) for l in ds])
            if not good and ds and all(l.domain == "comb" and ptr not in support(l.value) for l in ds) and \
                    any(support(l.value) - {"write_address", "read_address", "level", "write", "read", "replace"} for l in ds):
                ob1.unknown("%s: %s is not a register of its own but derived (%s): the pointer arithmetic lives elsewhere and is not decided by this rule" %
                            (tag, ptr, [str(l) for l in ds][:2]))
            elif not good:
                ob1.refute("pointer:%s:%d" % (ptr, depth), "%s does not advance by one under `%s` and wrap at depth-1 = %d: %s" % (ptr, strobe, depth - 1, [str(l) for l in ds]),
                           ds[0].loc if ds else None)
    wv = elab(ctx, FF, "_LiteDRAMFIFOWriter", kwargs={"data_width": Sym("data_width"), "port": pobj("port"), "ctrl": pobj("ctrl"), "fifo_depth": Sym("fd")}, hasattrs=NATIVE)
    rv = elab(ctx, FF, "_LiteDRAMFIFOReader", kwargs={"data_width": Sym("data_width"), "port": pobj("port"), "ctrl": pobj("ctrl"), "fifo_depth": Sym("fd")}, hasattrs=NATIVE)
    wdma = [str(o) for o in wv.d.objs if o.cls == "LiteDRAMDMAWriter" and "." not in str(o)]
    rdma = [str(o) for o in rv.d.objs if o.cls == "LiteDRAMDMAReader" and "." not in str(o)]
    if not ob1.need(len(wdma) == 1 and len(rdma) == 1, "DMA writer / reader of the FIFO front ends not found"):
        return
    W, R = wdma[0], rdma[0]
    sv = _sd(wv, W + ".sink.valid")
    ob1.instance("writer gating", {"writer.sink.valid": key(sv) if sv is not None else None})
    if sv is None or nkeys(wv, conj(sv)) != {"sink.valid", "ctrl.writable"}:
        ob1.refute("writer-valid", "the DMA writer is offered a word under %s, expected sink.valid & ctrl.writable" % (key(sv) if sv is not None else None), None)
    for v_, tgt, what in ((wv, "ctrl.write", W + ".sink"), (wv, "sink.ready", W + ".sink"), (rv, "ctrl.read", R + ".sink")):
        ds = [l for l in v_.leaves if l.kind == "assign" and key(l.target) == tgt and l.inst == "" and not is0(l.value)]
        want = {what + ".valid", what + ".ready"}
        # the front end's own valid may be written out (sink.valid & ctrl.writable) instead of reading back <dma>.sink.valid
        vdef = _sd(v_, what + ".valid")
        alt = (nkeys(v_, conj(vdef)) | {what + ".ready"}) if vdef is not None else want
        okk = len(ds) == 1 and cond_keys(v_, ds[0]) in (want, alt)
        if not okk and len(ds) == 1:
            # equivalence by truth table: the condition under which the strobe is 1 == valid & ready of the DMA's sink (all definitions expanded)
            c1 = [expand_term(v_, t_) for t_ in leaf_cond(ds[0])]
            c2 = [expand_term(v_, Sym(what + ".valid")), expand_term(v_, Sym(what + ".ready"))]
            if tgt == "sink.ready":
                # the user-side handshake: a word leaves the user exactly when the DMA takes it (ready may be independent of valid)
                c1 = c1 + [Sym("sink.valid")]
            r1, _ = implies(c1, c2)
            r2, _ = implies(c2, c1)
            okk = r1 is True and r2 is True
        ob1.instance(tgt, [str(d) for d in ds])
        if not okk:
            ob1.refute("strobe:%s" % tgt, "%s is asserted by %s, expected exactly under fire(%s): the level would count words the DMA did not accept (or miss "
                       "accepted ones)" % (tgt, [str(d) for d in ds], what), ds[0].loc if ds else None)
    rsv = _sd(rv, R + ".sink.valid")
    if rsv is None or key(rsv) != "ctrl.readable":
        ob1.refute("reader-valid", "the DMA reader is offered an address under %s, expected ctrl.readable" % (key(rsv) if rsv is not None else None), None)
    for v_, tgt, ptr in ((wv, W + ".sink.address", "ctrl.write_address"), (rv, R + ".sink.address", "ctrl.read_address")):
        a = _sd(v_, tgt)
        ob1.instance(tgt, key(a) if a is not None else None)
        known_ = {"ctrl.base", "ctrl.write_address", "ctrl.read_address", "ctrl.level", "ctrl.writable", "ctrl.readable"}
        if a is not None and not lin_eq(a, Op("+", (Sym("ctrl.base"), Sym(ptr)))) and (support(a) - known_):
            ob1.unknown("%s is %s: built from %s, a signal this rule does not know as base / pointer - not decided" % (tgt, key(a), sorted(support(a) - known_)))
        elif a is None or not lin_eq(a, Op("+", (Sym("ctrl.base"), Sym(ptr)))):
            ob1.refute("address:%s" % tgt, "%s is %s, expected ctrl.base + %s" % (tgt, key(a) if a is not None else None, ptr), None)
    d = _sd(wv, W + ".sink.data")
    if d is None or key(d) != "sink.data":
        ob1.refute("writer-data", "writer data is %s" % (key(d) if d is not None else None), None)
    if len(find_connect(rv, src=R + ".source", dst="source")) != 1:
        ob1.refute("reader-out", "reader.source is not connected to the FIFO source", None)


class TopRoles:
    """pre/post FIFO, pre/post converter, DRAM FIFO and the bypass / store signals of LiteDRAMFIFO - by what they connect."""

    def __init__(self, t, ob):
        self.ok = False
        cons = [l for l in t.leaves if l.kind == "connect" and l.inst == "" and l.fsm is None]
        self.cons = cons
        pair = {(key(l.value), key(l.target)): l for l in cons}

        def inst_of(k):
            return k.rsplit(".", 1)[0]
        pre = [inst_of(d) for (s, d) in pair if s == "sink" and d.endswith(".sink")]
        post = [inst_of(s) for (s, d) in pair if d == "source" and s.endswith(".source")]
        if not ob.need(len(pre) == 1 and len(post) == 1, "pre-FIFO (fed by sink) / post-FIFO (feeding source) not identified"):
            return
        self.pre, self.post = pre[0], post[0]
        inner = [o.path for o in t.d.instances.values() if o.cls == "_LiteDRAMFIFO" and "." not in o.path]
        if not ob.need(len(inner) == 1, "inner DRAM FIFO not found"):
            return
        self.dram = inner[0]
        prec = [inst_of(s) for (s, d) in pair if d == self.dram + ".sink"]
        postc = [inst_of(d) for (s, d) in pair if s == self.dram + ".source"]
        if not ob.need(len(prec) == 1 and len(postc) == 1, "pre / post converter (around the DRAM FIFO) not identified"):
            return
        self.prec, self.postc = prec[0], postc[0]
        self.pair = pair
        self.ok = True


def run(ctx):
    ob1 = ctx.ob("C13.1", "control: writable = level < depth and readable = level > 0 (combinational), level' = level + write - read, both pointers advance by "
                          "one and wrap at depth, addresses are base + pointer; a word is counted as written exactly when the DMA writer accepts it (which needs "
                          "writable) and as read exactly when the DMA reader accepts the address (which needs readable)", 8)
    ob2 = ctx.ob("C13.2", "mode switch bookkeeping: the DRAM word counter is +1 on fire(pre-converter.source) and -1 on fire(post-converter.sink), updated "
                          "unconditionally in the store state and cleared on entry; the store state is left only when the first word has gone and the "
                          "counter is zero; the pre-FIFO -> pre-converter path is closed in the very cycle that decision is taken; the bypass state is "
                          "entered only with both converter residue counters at zero", 6)
    ob3 = ctx.ob("C13.3", "bypass: the pre-FIFO feeds the post-FIFO directly only under with_bypass & <bypass signal>, which is asserted only in the reset "
                          "(bypass) state; otherwise data goes pre-FIFO -> pre-converter -> DRAM FIFO -> post-converter -> post-FIFO", 3)
    ob4 = ctx.ob("C13.4", "flushing a partial word: padding that a flush state injects to complete a DRAM word must not reach the output stream - the "
                          "post-converter -> post-FIFO path has to be gated per sub-word while such a word drains", 1)
    ob5 = ctx.ob("C13.5", "bounded region: base and depth (bytes) are both converted to words of the DRAM port before they reach the pointer logic, so the "
                          "FIFO stays inside [base, base+depth)", 2)
    ob6 = ctx.ob("C13.6", "the DMA engines the FIFO is built on: the writer accepts (address, data) atomically, the reader returns one word per accepted address "
                          "and never has more reads outstanding than it can buffer (shared with C12.1-C12.4)", 10)
    share(ctx, ob6, "C12", ("C12.1", "C12.2", "C12.3", "C12.4"))
    ctrl_rules(ctx, ob1)
    # ---- top level ----
    for bp in (True, False):
        t = elab(ctx, FF, "LiteDRAMFIFO", kwargs={"data_width": Const(32), "base": Const(256), "depth": Const(1024), "write_port": pobj("write_port"), "read_port": pobj("read_port"),
                                                 "with_bypass": Const(bp)},
                 overrides={"write_port.data_width": Const(128 if bp else 32), "read_port.data_width": Const(128 if bp else 32), "write_port.address_width": Const(24)}, hasattrs=NATIVE)
        T = TopRoles(t, ob3)
        if not T.ok:
            return
        # the DRAM region handed to the inner FIFO: byte quantities converted to port words (both with the PORT width)
        inner = [o for o in t.d.instances.values() if o.cls == "_LiteDRAMFIFO" and "." not in o.path][0]
        pw = 128 if bp else 32
        got = {k_: inner.kwargs.get(k_) for k_ in ("base", "depth")}
        ob5.instance("with_bypass=%s region of the inner FIFO" % bp, {k_: key(v_) if v_ is not None else None for k_, v_ in got.items()})
        for k_, bytes_ in (("base", 256), ("depth", 1024)):
            v_ = got[k_]
            if not (isinstance(v_, Const) and v_.v == bytes_ * 8 // pw):
                ob5.refute("region-%s:%s" % (k_, bp), "a %d-byte %s with a %d-bit port is handed to the DRAM FIFO as %s words, expected %d: the FIFO uses DRAM outside its "
                           "configured region (or only part of it)" % (bytes_, k_, pw, key(v_) if v_ is not None else None, bytes_ * 8 // pw), inner.loc)
        route = {k: (t.guard_lits(l, False), l) for k, l in T.pair.items()}
        ob3.instance("with_bypass=%s routing" % bp, {"%s->%s" % k: sorted(litset(v_[0])) for k, v_ in route.items()})
        direct = route.get((T.pre + ".source", T.post + ".sink"))
        for pr in (("sink", T.pre + ".sink"), (T.prec + ".source", T.dram + ".sink"), (T.dram + ".source", T.postc + ".sink"), (T.post + ".source", "source")):
            if pr not in route or route[pr][0]:
                ob3.refute("route:%s->%s:%s" % (pr[0], pr[1], bp), "%s -> %s is not an unconditional connection (%s)" % (pr[0], pr[1], sorted(litset(route[pr][0])) if pr in route else None), None)
        if not bp:
            if direct is not None:
                ob3.refute("bypass-without-option", "pre-FIFO -> post-FIFO is connected although with_bypass is off", None)
            continue
        if direct is None or len(direct[0]) != 1 or not isinstance(direct[0][0][0], (Obj, Sym)):
            ob3.refute("bypass-guard", "pre-FIFO -> post-FIFO is connected under %s, expected exactly one bypass signal" % (sorted(litset(direct[0])) if direct else None,), None)
            continue
        B, bpol = direct[0][0]
        Bk = key(B)
        f = t.fsms("")
        if not ob3.need(len(f) == 1, "mode FSM not found"):
            continue
        f = f[0]

        def asserted_states(sigk, val=1):
            st = sorted({l.state for l in t.fsm_leaves(f) if l.kind == "assign" and key(l.target) == sigk and (not is0(l.value) if val else is0(l.value))})
            if [l for l in t.leaves if l.fsm is None and l.kind == "assign" and key(l.target) == sigk and not is0(l.value)]:
                st.append("<outside the FSM>")
            return st
        st = asserted_states(Bk)
        ob3.instance("bypass signal %s asserted in" % Bk, st)
        if not bpol or st != [f.reset_state]:
            ob3.refute("bypass-state", "the bypass signal %s is asserted in %s, expected only in the reset (bypass) state %s" % (Bk, st, f.reset_state), None)
        pc = route.get((T.postc + ".source", T.post + ".sink"))
        if pc is None or "~" + Bk not in litset(pc[0]):
            ob3.refute("post-guard", "post-converter -> post-FIFO is connected under %s: both sources could drive the post-FIFO" % (sorted(litset(pc[0])) if pc else None,), None)
        # ---- C13.2 ----
        st_path = route.get((T.pre + ".source", T.prec + ".sink"))
        if not ob2.need(st_path is not None, "pre-FIFO -> pre-converter connection not found"):
            continue
        sl = [x for x in st_path[0] if lkey(x) != "~" + Bk]
        if not ob2.need(len(sl) == 1 and sl[0][1] and isinstance(sl[0][0], (Obj, Sym)), "store signal (guard of pre-FIFO -> pre-converter) not identified: %s" % sorted(litset(st_path[0]))):
            continue
        S = key(sl[0][0])
        store_states = [s_ for s_ in asserted_states(S) if s_ != "<outside the FSM>"]
        ob2.instance("store signal %s asserted in" % S, store_states)
        if not ob2.need(len(store_states) == 1, "expected exactly one store (DRAM) state, found %s" % store_states):
            continue
        DS = store_states[0]
        dls = t.fsm_leaves(f, DS)
        fire_in = {T.prec + ".source.valid", T.prec + ".source.ready"}
        fire_out = {T.postc + ".sink.valid", T.postc + ".sink.ready"}
        # word counter: NextValue(cnt, cnt + inc - dec)
        CNT = INC = DEC = None
        cnt_leaf = None
        for l in dls:
            if l.kind == "nextvalue" and isinstance(l.target, (Obj, Sym)):
                ll = lin(l.value)
                if ll is None or any(len(m_) != 1 for m_ in ll.t):
                    continue
                co = {m_[0]: c_ for m_, c_ in ll.t.items()}
                tk = key(l.target)
                plus = [k_ for k_, c_ in co.items() if c_ == 1 and k_ != tk]
                minus = [k_ for k_, c_ in co.items() if c_ == -1]
                if co.get(tk) == 1 and len(plus) == 1 and len(minus) == 1 and len(co) == 3:
                    CNT, INC, DEC, cnt_leaf = tk, plus[0], minus[0], l
        if not ob2.need(CNT is not None, "DRAM word counter (x <= x + inc - dec in the store state) not found"):
            continue
        ob2.instance("word counter", {"counter": CNT, "inc": INC, "dec": DEC, "update": str(cnt_leaf)})
        if cnt_leaf.guards:
            ob2.refute("count-conditional", "the DRAM word counter %s is only updated under %s: words moved in other cycles are not counted" % (CNT, sorted(t.guard_keys(cnt_leaf, False))), cnt_leaf.loc)
        for sig, want, what in ((INC, fire_in, "entered the DRAM path (fire of the pre-converter's source)"), (DEC, fire_out, "left it (fire of the post-converter's sink)")):
            ds = [l for l in t.fsm_leaves(f) if l.kind == "assign" and key(l.target) == sig and not is0(l.value)] + \
                 [l for l in t.leaves if l.fsm is None and l.kind == "assign" and key(l.target) == sig and not is0(l.value)]
            conds = [cond_keys(t, l) for l in ds]
            ob2.instance("strobe %s" % sig, [sorted(c_) for c_ in conds])
            if len(ds) != 1 or conds[0] != want or (ds[0].fsm is not None and ds[0].state != DS):
                ob2.refute("count-strobe:%s" % ("inc" if sig == INC else "dec"), "%s is asserted under %s, expected exactly when a DRAM word has %s" %
                           (sig, [sorted(c_) for c_ in conds], what), ds[0].loc if ds else cnt_leaf.loc)
        # entry into the store state: counter cleared, first-word flag set
        entries = [l for l in t.fsm_leaves(f) if l.kind == "next" and isinstance(l.value, Const) and l.value.v == DS and l.state != DS]
        FIRST = None
        for e in entries:
            g = t.guard_keys(e, False)
            same = [l for l in t.fsm_leaves(f, e.state) if l.kind == "nextvalue" and t.guard_keys(l, False) <= g]
            clr = [l for l in same if key(l.target) == CNT and is0(l.value)]
            sets = [l for l in same if is1(l.value) and isinstance(l.target, (Obj, Sym))]
            ob2.instance("entry %s -> %s" % (e.state, DS), {"guards": sorted(g), "clears_counter": bool(clr), "sets": [key(l.target) for l in sets]})
            if e.state == f.reset_state:
                if not clr:
                    ob2.refute("entry-count", "the store state is entered from %s without clearing the word counter %s" % (e.state, CNT), e.loc)
                if len(sets) == 1:
                    FIRST = key(sets[0].target)
        if not ob2.need(FIRST is not None, "first-word flag (set on entry into the store state) not identified"):
            continue
        fclr = [l for l in dls if l.kind == "nextvalue" and key(l.target) == FIRST and is0(l.value)]
        if len(fclr) != 1 or nkeys(t, t.guard_lits(fclr[0], False)) != fire_in:
            ob2.refute("first-clear", "the first-word flag %s is cleared under %s, expected exactly when the first DRAM word enters the DRAM path" %
                       (FIRST, [sorted(t.guard_keys(l, False)) for l in fclr]), fclr[0].loc if fclr else cnt_leaf.loc)
        # residue counters: +1 on fire(pre-converter.sink) / fire(post-converter.source)
        res = {}
        for l in dls:
            if l.kind == "nextvalue" and lin_eq(l.value, Op("+", (l.target, Const(1)))):
                g = nkeys(t, t.guard_lits(l, False))
                if g == {T.prec + ".sink.valid", T.prec + ".sink.ready"}:
                    res["in"] = key(l.target)
                if g == {T.postc + ".source.valid", T.postc + ".source.ready"}:
                    res["out"] = key(l.target)
        ob2.instance("converter residue counters", res)
        if not ob2.need(len(res) == 2, "residue counters of the two converters not identified (%s)" % res):
            continue
        # exits of the store state
        exits = [l for l in dls if l.kind == "next" and isinstance(l.value, Const) and l.value.v != DS]
        if not ob2.need(len(exits) >= 1, "the store state has no exit"):
            continue
        empty = {"~" + FIRST, "~" + CNT}
        for e in exits:
            g = nkeys(t, t.guard_lits(e, False))
            closes = [l for l in dls if l.kind == "assign" and key(l.target) == S and is0(l.value) and nkeys(t, t.guard_lits(l, False)) <= g
                      and all(l.order > m.order for m in dls if m.kind == "assign" and key(m.target) == S and not is0(m.value))]
            ob2.instance("exit %s -> %s" % (DS, e.value.v), {"guards": sorted(g), "closes_store_path": bool(closes)})
            if not empty <= g:
                ob2.refute("exit-not-empty:%s" % e.value.v, "the store state is left for %s under %s, which does not require %s: words still in the DRAM path are "
                           "overtaken by the bypass" % (e.value.v, sorted(g), sorted(empty - g)), e.loc)
            if not closes:
                ob2.refute("exit-keeps-store:%s" % e.value.v, "the store state is left for %s under %s but %s (pre-FIFO -> pre-converter) stays asserted in that cycle: a word "
                           "at the pre-FIFO output in exactly that cycle enters the DRAM path while the FSM already switches away - it is stranded and later "
                           "words overtake it" % (e.value.v, sorted(g), S), e.loc)
        # every entry into the bypass state needs both residues at zero
        for e in [l for l in t.fsm_leaves(f) if l.kind == "next" and isinstance(l.value, Const) and l.value.v == f.reset_state and l.state != f.reset_state]:
            g = nkeys(t, t.guard_lits(e, False))
            ob2.instance("entry %s -> %s" % (e.state, f.reset_state), sorted(g))
            if not {"~" + res["in"], "~" + res["out"]} <= g:
                ob2.refute("bypass-with-residue:%s" % e.state, "the bypass state is entered from %s under %s without both converter residue counters (%s, %s) being "
                           "zero: a partial word is left inside a converter and later mixed into the stream" % (e.state, sorted(g), res["in"], res["out"]), e.loc)
        # ---- C13.4: padding used to flush a partial word ----
        pads = [l for l in t.fsm_leaves(f) if l.kind == "assign" and key(l.target) == T.prec + ".sink.valid" and is1(l.value)]
        ob4.instance("states that push padding into the pre-converter", sorted({l.state for l in pads}))
        for st_ in sorted({l.state for l in pads}):
            pcl = route.get((T.postc + ".source", T.post + ".sink"))
            gl = litset(pcl[0]) if pcl else None
            # is the post-converter -> post-FIFO path open in that state, for every sub-word?
            open_ = pcl is not None and gl <= {"~" + Bk} and st_ != f.reset_state
            fed = any(l.kind == "connect" and key(l.value) == T.prec + ".source" and key(l.target) == T.postc + ".sink" for l in t.fsm_leaves(f, st_))
            ob4.instance("state %s" % st_, {"pre-converter feeds post-converter": fed, "post-converter -> post-FIFO guard": sorted(gl) if gl is not None else None})
            if fed and open_:
                ob4.refute("padding-reaches-output", "state %s completes a partial DRAM word with padding (%s.sink.valid forced to 1 with no data source) and hands it to the "
                           "post-converter, whose output stays connected to the post-FIFO under %s only: the padding sub-words leave the FIFO as data (and the residue "
                           "count that should drop them is taken on whole words)" % (st_, T.prec, sorted(gl)), pads[0].loc)
    ctx.assume("the residue-flush states (pump / drain) and the value-dependent part of the mode switching are NOT decided; "
               "a read is issued only after its write command was accepted by the port (C12.4 + level counting accepted writes), data order then rests on C01")


def _sd(v, k):
    ds = [d for d in v.drivers(k) if not d.guards]
    return ds[0].value if len(ds) == 1 else None
