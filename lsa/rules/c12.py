"""C12 - DMA reader / writer: reservation discipline and atomic forks (handshake algebra)."""
from ..ruleutil import *

DMA = "litedram.frontend.dma"
NATIVE = {"isinstance:port:LiteDRAMNativePort": True, "isinstance:port:LiteDRAMAXIPort": False}
AXI = {"isinstance:port:LiteDRAMNativePort": False, "isinstance:port:LiteDRAMAXIPort": True}


def fifo_capacity(o):
    depth = o.args[1] if len(o.args) > 1 else o.kwargs.get("depth")
    buffered = o.args[2] if len(o.args) > 2 else o.kwargs.get("buffered", Const(False))
    if depth is None:
        return None
    if isinstance(buffered, Const):
        return Op("+", (depth, Const(1 if buffered.v else 0)))
    return Op("+", (depth, Op("bool", (buffered,))))


def reader(ctx):
    ob1 = ctx.ob("C12.1", "DMA reader reservation: cmd.valid requires a free reservation slot; a reservation is pushed exactly on fire(cmd) and "
                          "popped exactly with a word leaving the data FIFO; reservation capacity <= data FIFO capacity (so outstanding reads "
                          "never exceed free data slots)", 6)
    ob2 = ctx.ob("C12.2", "DMA reader issues exactly one read per accepted address: fire(sink) and fire(cmd) have the same primitive conjuncts, "
                          "and cmd.addr/last are the sink's address/last", 4)
    ob3 = ctx.ob("C12.3", "DMA reader output: returned data enters the data FIFO by a whole-record connect, source.valid only with a pending "
                          "reservation, source.last comes from the reservation entry that was pushed with the command's last", 6)
    for tag, ha, cmdn, rdn in (("native", NATIVE, "port.cmd", "port.rdata"), ("axi", AXI, "port.ar", "port.r")):
        v = elab(ctx, DMA, "LiteDRAMDMAReader", hasattrs=ha, kwargs={"with_csr": Const(False), "fifo_depth": Sym("fifo_depth"), "fifo_buffered": Sym("fifo_buffered")})
        fifos = v.instances_of("SyncFIFO") or [o for o in v.d.objs if o.cls == "SyncFIFO"]
        res = [o for o in fifos if key(Sym(str(o) + ".sink.ready")) in value_prim_keys(v, _single(v, cmdn + ".valid"))] if _single(v, cmdn + ".valid") is not None else []
        if not ob1.need(len(fifos) == 2, "%s: expected reservation FIFO + data FIFO, found %d SyncFIFOs" % (tag, len(fifos))):
            return
        if not res:
            # identify the reservation FIFO structurally: the one whose sink.valid is driven by the command handshake
            cand = [o for o in fifos if any(cmdn + ".ready" in value_prim_keys(v, d.value) for d in v.drivers(str(o) + ".sink.valid"))]
            if len(cand) == 1:
                ob1.refute("%s:cmd-without-reservation" % tag, "%s.valid = %s does not require a free slot in the reservation FIFO %s: more reads "
                           "can be outstanding than the output FIFO can hold" % (cmdn, key(_single(v, cmdn + ".valid")), cand[0]),
                           v.drivers(cmdn + ".valid")[0].loc)
                res = cand
            else:
                ob1.unknown("%s: reservation FIFO not identified" % tag)
                return
        rf = res[0]
        df = [o for o in fifos if o is not rf][0]
        rk, dk = str(rf), str(df)
        sink = key(v.top.attrs["sink"])
        source = key(v.top.attrs["source"])
        ob1.instance("%s: cmd.valid" % tag, sorted(value_prim_keys(v, _single(v, cmdn + ".valid"))))
        # a reservation stands for a read that is in flight: nothing but the pop that hands the word on may release it. A reset input on either FIFO
        # (ResetInserter) forgets reads whose data is still to come
        rs_ = [l for l in v.leaves if l.kind in ("assign", "nextvalue") and l.target is not None and key(l.target) in (rk + ".reset", dk + ".reset")
               and not is0(l.value)]
        wrapped_ = [o for o in (rf, df) if any("ResetInserter" in str(w_) for w_ in (o.meta.get("wrappers") or []))]
        ob1.instance("%s: reset inputs of the reservation / data FIFO" % tag, {"drivers": [str(l) for l in rs_], "reset-inserted": [str(o) for o in wrapped_]})
        for l in rs_:
            ob1.refute("%s:fifo-reset:%s" % (tag, key(l.target)), "%s is driven (%s): resetting the reservation or the data FIFO releases the slots of reads that are still in "
                       "flight - their data is later emitted for other addresses, or overflows the data FIFO" % (key(l.target), str(l)[:160]), l.loc)
        # push == fire(cmd)
        push = prim_keys(v, [(Sym(rk + ".sink.valid"), True)])
        fc = fire_keys(v, cmdn)
        ob1.instance("%s: reservation push" % tag, {"push": sorted(push), "fire(cmd)": sorted(fc)})
        if push != fc:
            ob1.refute("%s:push" % tag, "reservation is pushed under %s but the command fires under %s" % (sorted(push), sorted(fc)),
                       (v.drivers(rk + ".sink.valid") or [None])[0] and v.drivers(rk + ".sink.valid")[0].loc)
        # pop == data fifo pop
        pop = prim_keys(v, [(Sym(rk + ".source.ready"), True)])
        dpop = prim_keys(v, [(Sym(dk + ".source.valid"), True), (Sym(dk + ".source.ready"), True)])
        ob1.instance("%s: reservation pop" % tag, {"pop": sorted(pop), "data pop": sorted(dpop)})
        if pop != dpop:
            ob1.refute("%s:pop" % tag, "reservation is released under %s but a word leaves the data FIFO under %s" % (sorted(pop), sorted(dpop)),
                       v.drivers(rk + ".source.ready")[0].loc if v.drivers(rk + ".source.ready") else None)
        # capacities: the reservation may not be deeper than the declared depth of the data FIFO (the extra output register of a buffered
        # FIFO is not counted: LiteX builds a plain one-entry buffer for depth 1 whatever `buffered` says)
        def depth_of(o):
            return o.args[1] if len(o.args) > 1 else o.kwargs.get("depth")

        def alts(t_):
            if isinstance(t_, Op) and t_.op in ("phi", "ifexp"):
                return alts(t_.args[1]) + alts(t_.args[2])
            return [t_]
        cr, cd = depth_of(rf), depth_of(df)
        rb = rf.args[2] if len(rf.args) > 2 else rf.kwargs.get("buffered", Const(False))
        if cr is not None and not (isinstance(rb, Const) and not rb.v):
            cr = Op("+", (cr, Const(1)))       # a buffered reservation FIFO may hold one entry more
        res_ = [lin_ge(cd, a_) for a_ in alts(cr)] if cr is not None and cd is not None else [None]
        ob1.instance("%s: depths" % tag, {"reservation": key(cr) if cr is not None else None, "data": key(cd) if cd is not None else None, "data>=reservation": res_})
        if any(r_ is False for r_ in res_):
            ob1.refute("%s:capacity" % tag, "reservation FIFO depth %s exceeds the data FIFO depth %s for some configuration: more reads can be outstanding than the data FIFO "
                       "is guaranteed to hold (a buffered FIFO of depth 1 has no extra output register)" % (key(cr), key(cd)), rf.loc)
        elif any(r_ is None for r_ in res_):
            ob1.unknown("%s: cannot compare depths %s and %s" % (tag, key(cr) if cr is not None else None, key(cd) if cd is not None else None))
        # C12.2
        fs = fire_keys(v, sink)
        fcmd = fire_keys(v, cmdn)
        ob2.instance("%s: fire(sink) vs fire(cmd)" % tag, {"fire(sink)": sorted(fs), "fire(cmd)": sorted(fcmd)})
        if fs != fcmd:
            ob2.refute("%s:fork" % tag, "an address is taken from the sink under %s but a read command is issued under %s: an address can be "
                       "consumed without a read (or a read repeated)" % (sorted(fs), sorted(fcmd)),
                       v.drivers(sink + ".ready")[0].loc if v.drivers(sink + ".ready") else None,
                       {"only_sink": sorted(fs - fcmd), "only_cmd": sorted(fcmd - fs)})
        for f, src in (("addr", "address"), ("last", "last")):
            d = _single(v, "%s.%s" % (cmdn, f))
            ob2.instance("%s: cmd.%s" % (tag, f), key(d) if d is not None else None)
            if d is None or key(d) != "%s.%s" % (sink, src):
                ob2.refute("%s:cmd.%s" % (tag, f), "%s.%s is %s, expected %s.%s" % (cmdn, f, key(d) if d is not None else None, sink, src), None)
        # C12.3
        cons = find_connect(v, src=rdn, dst=dk + ".sink")
        ob3.instance("%s: rdata -> data FIFO" % tag, [str(c.stmt) for c in cons])
        whole = not (len(cons) != 1 or (cons[0].stmt.omit and cons[0].stmt.omit & {"valid", "ready", "data"}) or cons[0].stmt.keep is not None and not {"valid", "ready", "data"} <= cons[0].stmt.keep)
        fieldwise = None
        if not whole and len(cons) <= 1:
            # the same link written field by field; ready may be tied high (every returned word has a reserved slot - C12.1 decides the capacity)
            def cov(f_):
                return len(cons) == 1 and not cons[0].guards and not (cons[0].stmt.omit and f_ in cons[0].stmt.omit) and (cons[0].stmt.keep is None or f_ in cons[0].stmt.keep)
            st_ = {}
            for f_, tgt_, want_ in (("valid", dk + ".sink.valid", [rdn + ".valid"]), ("data", dk + ".sink.data", [rdn + ".data"]),
                                    ("ready", rdn + ".ready", [dk + ".sink.ready", "1"])):
                if cov(f_):
                    st_[f_] = "connect"
                    continue
                ds_ = [l for l in v.drivers(tgt_) if l.kind == "assign"]
                if len(ds_) == 1 and not ds_[0].guards and key(ds_[0].value) in want_:
                    st_[f_] = key(ds_[0].value)
                elif not ds_:
                    st_[f_] = None
                else:
                    st_[f_] = "?"
            ob3.instance("%s: rdata -> data FIFO, field by field" % tag, st_)
            if all(x not in (None, "?") for x in st_.values()):
                fieldwise = True
            elif any(x == "?" for x in st_.values()) and not any(x is None for x in st_.values()):
                fieldwise = None
                ob3.unknown("%s: returned data reaches the data FIFO through %s: not the plain link this rule reads" % (tag, st_))
                whole = True     # no verdict from this clause
        if not whole and not fieldwise:
            ob3.refute("%s:rdata-connect" % tag, "returned data is not connected as a whole record into the data FIFO: %s" % [str(c.stmt) for c in cons], None)
        # an output register / FIFO between the gated pop and the user (a lossless in-order stream primitive whose output is connected to the source with its
        # valid): the reservation gating is then required at ITS input
        real_source = source
        hop = [l for l in v.leaves if l.kind == "connect" and l.inst == "" and key(l.target) == source and key(l.value).endswith(".source")
               and key(l.value)[:-len(".source")] not in (dk, rk)
               and any(str(o) == key(l.value)[:-len(".source")] and o.cls in ("Buffer", "SyncFIFO") for o in v.d.objs)
               and "valid" not in (l.stmt.omit or set()) and "data" not in (l.stmt.omit or set()) and (l.stmt.keep is None or {"valid", "data"} <= l.stmt.keep)]
        if len(hop) == 1:
            source = key(hop[0].value)[:-len(".source")] + ".sink"
            ob3.instance("%s: output stage" % tag, {"stage": key(hop[0].value)[:-len(".source")], "connect": str(hop[0].stmt)[:100]})
        sv = v.drivers(source + ".valid")
        ob3.instance("%s: source.valid" % tag, [str(x) for x in sv])
        for l in sv:
            ks = prim_keys(v, v.guard_lits(l, False) + conj(l.value))
            if rk + ".source.valid" not in ks or dk + ".source.valid" not in ks:
                ob3.refute("%s:source.valid" % tag, "source.valid (%s) does not require both a pending reservation and a data word" % l, l.loc)
        # a whole-record connect that also carries `valid` drives source.valid without the reservation
        for c_ in [l for l in v.leaves if l.kind == "connect" and l.inst == "" and key(l.target) == source]:
            om = c_.stmt.omit or set()
            kp = c_.stmt.keep
            if "valid" not in om and (kp is None or "valid" in kp):
                ob3.refute("%s:source.valid" % tag, "source.valid is driven by the connect `%s` (valid not omitted): the output is valid without a pending reservation, so a word "
                           "returned for a read issued before a reset / abort is presented as the first word of the next stream" % str(c_.stmt)[:120], c_.loc)
        if not sv and not [l for l in v.leaves if l.kind == "connect" and l.inst == "" and key(l.target) == source]:
            ob3.unknown("%s: no driver of source.valid found" % tag)
        sl = v.drivers(source + ".last")
        def from_res(l):
            # last = res.last, possibly qualified (as a guard or as a conjunct) by the reservation / data valid
            ks = prim_keys(v, v.guard_lits(l, False) + conj(l.value))
            return rk + ".source.last" in ks and ks - {rk + ".source.last"} <= {rk + ".source.valid", dk + ".source.valid"}
        if not sl or any(not from_res(l) for l in sl):
            ob3.refute("%s:source.last" % tag, "source.last is not taken from the reservation entry: %s" % [str(x) for x in sl], sl[0].loc if sl else None)
        rl = _single(v, rk + ".sink.last")
        ob3.instance("%s: reservation last" % tag, key(rl) if rl is not None else None)
        if rl is None or prim_keys(v, [(rl, True)]) != {sink + ".last"}:
            ob3.refute("%s:res.last" % tag, "the reservation entry's last is %s, expected the command's last (= sink.last)" % (key(rl) if rl is not None else None), None)
        dc = find_connect(v, src=dk + ".source", dst=source)
        da = [l for l in v.drivers(source + ".data") if key(l.value) == dk + ".source.data" and not l.guards]
        if (len(dc) != 1 or (dc[0].stmt.omit and "data" in dc[0].stmt.omit)) and len(da) != 1:
            ob3.refute("%s:data-out" % tag, "data FIFO output is not forwarded to the source", None)
        source = real_source


def _single(v, k):
    ds = v.drivers(k)
    if len(ds) == 1 and not ds[0].guards:
        return ds[0].value
    return None


def writer(ctx):
    ob = ctx.ob("C12.4", "DMA writer atomic fork: fire(sink), fire(cmd) and the data-FIFO push have the same primitive conjuncts (address and data "
                         "accepted in the same cycle => paired, exactly once); the pushed data is the sink's data, cmd.addr the sink's address; "
                         "the data FIFO is forwarded unchanged to wdata with all byte enables", 8)
    for tag, ha, cmdn, wdn, strobe in (("native", NATIVE, "port.cmd", "port.wdata", "we"), ("axi", AXI, "port.aw", "port.w", "strb")):
        v = elab(ctx, DMA, "LiteDRAMDMAWriter", hasattrs=ha, kwargs={"with_csr": Const(False)})
        fifos = [o for o in v.d.objs if o.cls == "SyncFIFO"]
        if not ob.need(len(fifos) == 1, "%s: expected one data FIFO" % tag):
            return
        fk = str(fifos[0])
        sink = key(v.top.attrs["sink"])
        # a lossless in-order stage in front (sink connected whole into a Buffer / PipeValid / SyncFIFO): the pair is forked at that stage's output
        for c_ in [l for l in v.leaves if l.kind == "connect" and l.inst == "" and key(l.value) == sink and not l.guards and not l.stmt.omit and l.stmt.keep is None]:
            nm_ = key(c_.target)
            if nm_.endswith(".sink") and any(str(o) == nm_[:-len(".sink")] and o.cls in ("Buffer", "PipeValid", "SyncFIFO") and o is not fifos[0] for o in v.d.objs):
                ob.instance("%s: input stage in front of the fork" % tag, nm_[:-len(".sink")])
                sink = nm_[:-len(".sink")] + ".source"
        fs, fc = fire_keys(v, sink), fire_keys(v, cmdn)
        push = prim_keys(v, [(Sym(fk + ".sink.valid"), True), (Sym(fk + ".sink.ready"), True)])
        ob.instance("%s: fork" % tag, {"fire(sink)": sorted(fs), "fire(cmd)": sorted(fc), "push(fifo)": sorted(push)})
        if not (fs == fc == push):
            ob.refute("%s:fork" % tag, "the (address, data) pair is not accepted atomically: fire(sink)=%s fire(cmd)=%s push(data)=%s - a command "
                      "can be issued without its data being queued (or vice versa)" % (sorted(fs), sorted(fc), sorted(push)),
                      v.drivers(cmdn + ".valid")[0].loc if v.drivers(cmdn + ".valid") else None)
        for tgt, exp in ((fk + ".sink.data", sink + ".data"), (cmdn + ".addr", sink + ".address"), (wdn + ".valid", fk + ".source.valid"),
                         (fk + ".source.ready", wdn + ".ready"), (wdn + ".data", fk + ".source.data")):
            d = _single(v, tgt)
            ob.instance("%s: %s" % (tag, tgt), key(d) if d is not None else None)
            if d is None or key(d) != exp:
                ob.refute("%s:%s" % (tag, tgt), "%s is %s, expected %s" % (tgt, key(d) if d is not None else None, exp), None)
        d = _single(v, "%s.%s" % (wdn, strobe))
        full = Op("-", (Op("**", (Const(2), Op("//", (Sym("port.data_width"), Const(8))))), Const(1)))
        ob.instance("%s: byte enables" % tag, key(d) if d is not None else None)
        if d is None or key(d) != key(full):
            ob.refute("%s:strobes" % tag, "write byte enables are %s, expected all ones 2**(data_width//8)-1" % (key(d) if d is not None else None), None)
        if tag == "native":
            w = _single(v, cmdn + ".we")
            if w is None or not is1(w):
                ob.refute("native:we", "writer command is not marked as write", None)
    r = elab(ctx, DMA, "LiteDRAMDMAReader", hasattrs=NATIVE, kwargs={"with_csr": Const(False)})
    w = _single(r, "port.cmd.we")
    if w is None or not is0(w):
        ob.refute("reader:we", "reader command is not marked as read (cmd.we = %s)" % (w,), None)


def csr(ctx):
    ob = ctx.ob("C12.5", "CSR front-ends: the offset counter advances exactly on fire(sink) and the address is base + offset", 2)
    for cls in ("LiteDRAMDMAReader", "LiteDRAMDMAWriter"):
        v = elab(ctx, DMA, cls, hasattrs=NATIVE, kwargs={"with_csr": Const(True)})
        fs = [f for f in v.fsms("")]
        if not ob.need(len(fs) == 1, "%s: CSR FSM not found" % cls):
            continue
        f = fs[0]
        incs = [l for l in v.fsm_leaves(f) if l.kind == "nextvalue" and isinstance(l.value, Op) and lin_diff(l.value, l.target) is not None
                and lin_diff(l.value, l.target).is_const() and lin_diff(l.value, l.target).constval() == 1]
        if not ob.need(len(incs) == 1, "%s: offset increment not found" % cls):
            continue
        g = v.guard_keys(incs[0], False)
        sink = "sink" if cls.endswith("Reader") else "sink~2"
        vs = {k for k in g if k.endswith(".valid") or k.endswith(".ready")}
        # a valid that the same state drives to constant 1 need not appear in the guard
        for l in v.fsm_leaves(f, incs[0].state):
            if l.kind == "assign" and not l.guards and is1(l.value) and key(l.target).endswith(".valid"):
                vs.add(key(l.target))
        ob.instance("%s: offset increment" % cls, sorted(g))
        pre = {k.rsplit(".", 1)[0] for k in vs}
        if not (len(pre) == 1 and {p.rsplit(".", 1)[1] for p in vs} == {"valid", "ready"}):
            ob.refute("%s:offset" % cls, "the CSR offset advances under %s, not under a stream's valid & ready" % sorted(g), incs[0].loc)
        addr = [l for l in v.fsm_leaves(f) if l.kind == "assign" and key(l.target).endswith(".address")]
        if ob.need(len(addr) == 1, "%s: address assignment not found" % cls):
            l = lin(addr[0].value)
            ok = l is not None and len(l.t) == 2 and set(l.t.values()) == {1} and key(incs[0].target) in l.atoms()
            ob.instance("%s: address" % cls, key(addr[0].value))
            if not ok:
                ob.refute("%s:address" % cls, "address is %s, expected base + offset" % key(addr[0].value), addr[0].loc)


def run(ctx):
    reader(ctx)
    writer(ctx)
    csr(ctx)
    ctx.assume("stream.SyncFIFO is lossless, ordered, capacity >= depth; the port accepts/returns in order (C01)")
