"""C08 - clock-domain-crossing ports: in-repo wiring of the three async FIFOs (the FIFO itself is LiteX, trusted)."""
from ..ruleutil import *
from ..elab import elaborate, eval_function, Elab

AD = "litedram.frontend.adapter"


def cdc_params(ctx):
    """(names, defaults) of the constructor parameters of LiteDRAMNativePortCDC after the two ports"""
    import ast as _a
    cn = ctx.repo.module(AD).classes.get("LiteDRAMNativePortCDC")
    for fn in (cn.body if cn is not None else []):
        if isinstance(fn, _a.FunctionDef) and fn.name == "__init__":
            names = [a.arg for a in fn.args.args][3:]
            alln = [a.arg for a in fn.args.args]
            dfl = {}
            for a_, d_ in zip(alln[len(alln) - len(fn.args.defaults):], fn.args.defaults):
                if isinstance(d_, _a.Constant):
                    dfl[a_] = d_.value
            return names, dfl
    return [], {}


def cdc_view(ctx, mode="both"):
    names, _ = cdc_params(ctx)
    return elab(ctx, AD, "LiteDRAMNativePortCDC", overrides={"port_from.mode": Const(mode), "port_to.mode": Const(mode)},
                kwargs={n: Sym(n) for n in names})


def layout_of(o):
    l = o.kwargs.get("layout", o.args[0] if o.args else None)
    if not isinstance(l, ListV):
        return None
    out = []
    for e in l.items:
        if isinstance(e, ListV) and len(e.items) >= 2 and isinstance(e.items[0], Const):
            out.append((e.items[0].v, key(e.items[1])))
        else:
            return None
    return out


def run(ctx):
    ob1 = ctx.ob("C08.1", "each of cmd / wdata / rdata crosses through its own ClockDomainCrossing connected by Pipeline(source, cdc, destination) "
                          "and nothing else; cmd and wdata go user -> controller domain, rdata the reverse", 3)
    ob2 = ctx.ob("C08.2", "the crossing layouts carry every payload field of cmd_description / wdata_description / rdata_description with the same "
                          "widths (a narrower field silently truncates)", 3)
    ob3 = ctx.ob("C08.3", "crossbar.get_port inserts the crossing iff clock_domain != 'sys', gives both sides identical address/data widths, and a "
                          "following width converter is wrapped in ClockDomainsRenamer(clock_domain)", 3)
    ob5 = ctx.ob("C08.5", "read data returned by the controller is pushed without observing `ready`, so the crossing's read FIFO must be protected "
                          "by a reservation / credit on the command path (or be provably large enough); and get_port must not shrink it below "
                          "the adapter's default", 2)
    ob6 = ctx.ob("C08.6", "each crossing is sized by the depth parameter of its own channel, and the defaults keep the write-data FIFO at least as deep as "
                          "the command FIFO plus the bank machine's command buffer: the controller takes write data without looking at wdata.valid, so the data "
                          "of every accepted-but-unexecuted write must already be inside the write-data FIFO", 3)
    v = cdc_view(ctx)
    cdcs = [o for o in v.d.objs if o.cls == "ClockDomainCrossing"]
    pls = [[key(a) for a in o.args] for o in v.d.objs if o.cls == "Pipeline"]
    if not ob1.need(len(cdcs) == 3, "expected three ClockDomainCrossing instances, found %d" % len(cdcs)):
        return
    el = Elab(ctx.repo)
    env = el.modenv("litedram.common")
    want = {
        "cmd": ("port_from.cmd", "port_to.cmd", "port_from.clock_domain", "port_to.clock_domain", "cmd_description", [Sym("port_from.address_width")]),
        "wdata": ("port_from.wdata", "port_to.wdata", "port_from.clock_domain", "port_to.clock_domain", "wdata_description", [Sym("port_from.data_width")]),
        "rdata": ("port_to.rdata", "port_from.rdata", "port_to.clock_domain", "port_from.clock_domain", "rdata_description", [Sym("port_from.data_width")]),
    }
    used = set()
    passed = set()
    extra_stages = {}
    depth_of = {}
    depth_term = {}
    # links between stream endpoints: consecutive elements of a Pipeline, or an unguarded whole-record connect (no omit / keep) - both forward valid,
    # ready and the payload unchanged.  "X" as a link end means the module X (its .sink / .source).
    links = []
    for p in pls:
        for a_, b_ in zip(p, p[1:]):
            links.append((a_, b_))
    plain = []
    for l in v.leaves:
        if l.kind == "connect" and not l.guards and l.domain == "comb" and not (l.stmt.omit or l.stmt.keep):
            a_, b_ = key(l.value), key(l.target)
            links.append((a_[:-len(".source")] if a_.endswith(".source") else a_, b_[:-len(".sink")] if b_.endswith(".sink") else b_))
            plain.append(id(l))
    for nm, (src, dst, cdf, cdt, desc, dargs) in want.items():
        # a path src -> ... -> dst along plain links; exactly one node is a ClockDomainCrossing, any other intermediate node must be a lossless in-order stream
        # primitive (stream.Buffer / SyncFIFO) clocked by the domain of the side it sits on
        def paths(n_, seen_):
            if n_ == dst:
                yield [n_]
                return
            for a_, b_ in links:
                if a_ == n_ and b_ not in seen_:
                    for r_ in paths(b_, seen_ | {b_}):
                        yield [n_] + r_
        byname = {str(o): o for o in v.d.objs if o.cls in ("ClockDomainCrossing", "Buffer", "SyncFIFO")}
        cand = [p_ for p_ in paths(src, {src}) if sum(1 for n_ in p_[1:-1] if n_ in byname and byname[n_].cls == "ClockDomainCrossing") == 1]
        pl = []
        for p_ in cand:
            ci = [i_ for i_, n_ in enumerate(p_) if n_ in byname and byname[n_].cls == "ClockDomainCrossing"][0]
            okp = True
            for i_, n_ in enumerate(p_[1:-1], 1):
                if i_ == ci:
                    continue
                o_ = byname.get(n_)
                if o_ is None:
                    okp = False
                    ob1.unknown("%s: the path %s passes %s, which is not a stream primitive this rule knows to be lossless and ordered" % (nm, p_, n_))
                    continue
                side = cdf if i_ < ci else cdt
                wr_ = [w_ for w_ in o_.meta.get("wrappers", []) if w_[0] == "ClockDomainsRenamer"]
                dom = key(wr_[0][1][0]) if wr_ and wr_[0][1] else "'sys'"
                ob1.instance("%s: %s on the %s side" % (nm, n_, "source" if i_ < ci else "destination"), {"clocked by": dom, "side domain": side})
                if dom != side:
                    if dom == "'sys'" and not wr_:
                        ob1.unknown("%s: %s is clocked by the default domain while its side of the crossing is %s" % (nm, n_, side))
                    else:
                        ob1.refute("buffer-domain:%s:%s" % (nm, n_), "%s sits on the %s side of the %s crossing (domain %s) but is clocked by %s: its handshake is sampled in "
                                   "the wrong clock domain" % (n_, "source" if i_ < ci else "destination", nm, side, dom), o_.loc)
                    okp = False
                lay_ = layout_of(o_)
                want_f = {"cmd": {"we", "addr"}, "wdata": {"data", "we"}, "rdata": {"data"}}[nm]
                if lay_ is not None and not want_f <= {n2 for n2, _ in lay_}:
                    ob1.refute("buffer-layout:%s:%s" % (nm, n_), "%s carries %s, the %s channel needs %s" % (n_, lay_, nm, sorted(want_f)), o_.loc)
                    okp = False
            if okp:
                pl = [[src, p_[ci], dst]]
                for n_ in p_[1:-1]:
                    passed.add(n_)
                extra_stages[nm] = len(p_) - 3          # lossless stream stages besides the crossing itself
                break
        if not pl:
            ob1.refute("pipeline:%s" % nm, "%s does not reach %s through a ClockDomainCrossing by plain stream links (Pipeline elements or whole-record connects): links are %s" %
                       (src, dst, links), None)
            continue
        c = [o for o in cdcs if str(o) == pl[0][1]]
        if not c or str(c[0]) in used:
            ob1.refute("cdc-shared:%s" % nm, "%s does not cross through its own ClockDomainCrossing (%s)" % (nm, pl[0][1]), None)
            continue
        used.add(str(c[0]))
        c = c[0]
        f, t = key(c.kwargs.get("cd_from")), key(c.kwargs.get("cd_to"))
        ob1.instance("%s crossing" % nm, {"pipeline": pl[0], "cd_from": f, "cd_to": t, "depth": key(c.kwargs.get("depth"))})
        dk_ = key(c.kwargs.get("depth")) if c.kwargs.get("depth") is not None else None
        ob6.instance("%s crossing depth" % nm, dk_)
        depth_of[nm] = (dk_, c)
        depth_term[nm] = c.kwargs.get("depth")
        if (f, t) != (cdf, cdt):
            ob1.refute("direction:%s" % nm, "%s crosses from %s to %s, expected %s -> %s" % (nm, f, t, cdf, cdt), c.loc)
        # layout agreement
        got = layout_of(c)
        fn = env.vars.get(desc)
        exp = None
        if fn is not None:
            r = el.call_func(fn, dargs, {})
            if isinstance(r, ListV):
                exp = []
                for e in r.items:
                    exp.append((e.items[0].v, key(e.items[1])))
        ob2.instance("%s layout" % nm, {"crossing": got, desc: exp})
        if got is None or exp is None:
            ob2.unknown("%s: layout not a literal list (%s / %s)" % (nm, got, exp))
        else:
            norm = lambda L: sorted((n, w.replace("port_to.", "port_from.")) for n, w in L)
            g2 = [(n, w.replace("address_width", "port_from.address_width").replace("data_width", "port_from.data_width")
                   if not w.startswith("port_") and "port_" not in w else w) for n, w in got]
            if norm(g2) != norm(exp):
                ob2.refute("layout:%s" % nm, "the %s crossing carries %s but the port's %s is %s: a missing field is dropped, a narrower one truncated" %
                           (nm, got, desc, exp), c.loc)
    # the controller takes write data at a fixed time after the command without looking at wdata.valid: a write word must never be BEHIND its command on the way to the
    # controller, so the write-data path may not have more register stages than the command path
    if "cmd" in extra_stages and "wdata" in extra_stages:
        ob1.instance("extra stream stages", dict(extra_stages))
        if extra_stages["wdata"] > extra_stages["cmd"]:
            ob1.refute("wdata-behind-cmd", "the write-data path has %d register stage(s) besides its crossing, the command path %d: a write word reaches the controller side later "
                       "than its command, and the controller - which takes write data without a handshake - stores the previous word" %
                       (extra_stages["wdata"], extra_stages["cmd"]), None)
    # nothing else may touch the handshake or payload of the six port endpoints or of the crossings
    eps = {e_ for nm, w_ in want.items() for e_ in w_[:2]} | {str(o) + sfx for o in cdcs for sfx in (".sink", ".source")} | {n_ + sfx for n_ in passed for sfx in (".sink", ".source")}
    for l in v.leaves:
        if l.kind not in ("assign", "connect") or id(l) in plain:
            continue
        ends = [key(l.target)] + ([key(l.value)] if l.kind == "connect" else [])
        if any(e_ == ep or e_.startswith(ep + ".") for e_ in ends for ep in eps):
            ob1.refute("extra-driver", "LiteDRAMNativePortCDC drives %s next to the plain stream links: a handshake or payload signal of a crossing is re-timed / overridden, so "
                       "words can be duplicated or lost" % l, l.loc)
    # ---- C08.3 / C08.5: crossbar.get_port -------------------------------------------------------------------
    for cd, dw in (("sys", None), ("user", None), ("user", 32)):
        kw = {"clock_domain": Const(cd)}
        if dw:
            kw["data_width"] = Const(dw)
        d, el2 = elaborate(ctx.repo, "litedram.core.crossbar", "LiteDRAMCrossbar",
                           overrides={"self.finalized": Const(False), "controller.data_width": Const(64)}, calls=[("get_port", (), kw)])
        cd_insts = [o for o in d.instances.values() if o.cls == "LiteDRAMNativePortCDC" and "." not in o.path.strip("$")]
        ports = [o for o in d.instances.values() if o.cls == "LiteDRAMNativePort"]
        tag = "get_port(clock_domain=%r%s)" % (cd, ", data_width=%d" % dw if dw else "")
        ob3.instance(tag, {"cdc": len(cd_insts), "ports": [{k: key(x) for k, x in p.kwargs.items() if k in ("address_width", "data_width", "clock_domain")} for p in ports]})
        if cd == "sys":
            if cd_insts:
                ob3.refute("cdc-on-sys", "a crossing is inserted for a port in the controller's own domain", cd_insts[0].loc)
            continue
        if len(cd_insts) != 1:
            ob3.refute("no-cdc:%s" % tag, "%s creates %d crossings, expected 1" % (tag, len(cd_insts)), None)
            continue
        c = cd_insts[0]
        a = [x for x in c.args[:2]]
        if len(a) == 2 and all(isinstance(x, Obj) for x in a):
            pf, pt = a
            for fld in ("address_width", "data_width"):
                if key(pf.attrs.get(fld)) != key(pt.attrs.get(fld)):
                    ob3.refute("cdc-widths:%s:%s" % (fld, tag), "the two sides of the crossing have %s %s and %s" % (fld, key(pf.attrs.get(fld)), key(pt.attrs.get(fld))), c.loc)
            if key(pf.attrs.get("clock_domain")) != repr(cd) or key(pt.attrs.get("clock_domain")) != "'sys'":
                ob3.refute("cdc-domains:%s" % tag, "crossing sides are in domains %s / %s, expected %r / 'sys'" %
                           (key(pf.attrs.get("clock_domain")), key(pt.attrs.get("clock_domain")), cd), c.loc)
        else:
            ob3.unknown("%s: crossing ports not resolved" % tag)
        if dw:
            conv = [o for o in d.instances.values() if o.cls == "LiteDRAMNativePortConverter"]
            wr = conv[0].meta.get("wrappers", []) if conv else []
            okw = any(w[0] == "ClockDomainsRenamer" and w[1] and key(w[1][0]) == repr(cd) for w in wr)
            ob3.instance(tag + " converter", {"wrappers": [(w[0], [key(x) for x in w[1]]) for w in wr]})
            if not conv or not okw:
                ob3.refute("converter-domain:%s" % tag, "the width converter behind the crossing is not placed in the user clock domain "
                           "(ClockDomainsRenamer(%r))" % cd, conv[0].loc if conv else None)
        # C08.5: depths passed by get_port
        pn5, _ = cdc_params(ctx)
        ckw = dict(c.kwargs)
        for pn_, x_ in zip(pn5, c.args[2:]):          # positional depths bound to the formal parameter names
            ckw.setdefault(pn_, x_)
        depth_kw = {k: key(x) for k, x in ckw.items() if k.endswith("depth")}
        extra_args = [key(x) for x in c.args[2 + len(pn5):]]
        ob5.instance(tag + " crossing depths", {"arguments": depth_kw})
        if extra_args:
            ob5.unknown("%s: unexpected positional arguments %s" % (tag, extra_args))
        import ast as _ast
        defaults = {}
        cn = ctx.repo.module(AD).classes.get("LiteDRAMNativePortCDC")
        for fn in cn.body:
            if isinstance(fn, _ast.FunctionDef) and fn.name == "__init__":
                names = [a.arg for a in fn.args.args]
                for a, dflt in zip(names[len(names) - len(fn.args.defaults):], fn.args.defaults):
                    if isinstance(dflt, _ast.Constant):
                        defaults[a] = dflt.value
        for k_, x in ckw.items():
            if k_.endswith("depth") and k_ in defaults:
                ge = lin_ge(x, Const(defaults[k_]))
                if ge is not True:
                    ob5.refute("get_port-depth:%s:%s" % (k_, tag), "get_port builds the crossing with %s=%s, not provably >= the adapter's default %d: "
                               "the %s FIFO is the only storage for data the controller returns without flow control" %
                               (k_, key(x), defaults[k_], k_.split("_")[0]), c.loc)
    # C08.6: own parameter per channel, default sizing
    pnames, dfl = cdc_params(ctx)
    import ast as _ast2
    from ..bits import ieval, Unresolved
    own = {}
    for nm, (dk_, c_) in depth_of.items():
        t_ = depth_term.get(nm)
        sup_ = sorted(set(support(t_)) & set(pnames)) if t_ is not None else []
        if not ob6.need(t_ is not None, "%s crossing has no depth argument" % nm):
            continue
        if len(sup_) != 1:
            ob6.refute("depth-param:%s" % nm, "the %s crossing is built with depth %s, which depends on %s of the adapter's depth parameters %s (expected exactly its own)" %
                       (nm, dk_, sup_ or "none", pnames), c_.loc)
            continue
        own[nm] = sup_[0]
        # the FIFO may be deeper than requested (rounding up to a power of two, a minimum), never shallower
        try:
            short = [(p_, ieval(t_, {sup_[0]: p_})) for p_ in (1, 2, 3, 4, 5, 7, 8, 9, 15, 16, 17, 31, 32, 33, 64) if ieval(t_, {sup_[0]: p_}) < p_]
        except (Unresolved, Exception) as e_:
            ob6.unknown("%s crossing: depth term %s not evaluable (%s)" % (nm, dk_, e_))
            continue
        if short:
            ob6.refute("depth-param:%s" % nm, "the %s crossing is built with depth %s, which is smaller than the requested %s for %s" % (nm, dk_, sup_[0], short[:3]), c_.loc)
    for nm, pn in sorted(own.items()):
        others = sorted(n2 for n2, p2 in own.items() if n2 != nm and p2 == pn)
        if others and nm < others[0]:
            ob6.refute("depth-shared:%s+%s" % (nm, others[0]), "the %s and %s crossings are both sized by the parameter %s: one of the two ignores its own parameter, and the "
                       "relation between command and data FIFO depths that keeps write data ahead of its commands is lost" % (nm, others[0], pn), depth_of[nm][1].loc)
    cs_ = ctx.repo.module("litedram.core.controller").classes.get("ControllerSettings")
    cbd = None
    for fn_ in (cs_.body if cs_ is not None else []):
        if isinstance(fn_, _ast2.FunctionDef) and fn_.name == "__init__":
            names_ = [a.arg for a in fn_.args.args]
            for a_, d_ in zip(names_[len(names_) - len(fn_.args.defaults):], fn_.args.defaults):
                if a_ == "cmd_buffer_depth" and isinstance(d_, _ast2.Constant):
                    cbd = d_.value
    ob6.instance("default depths", {"adapter": dfl, "controller cmd_buffer_depth": cbd})
    def _dflt(nm_):
        pn_ = own.get(nm_)
        if pn_ is None or pn_ not in dfl:
            return None
        try:
            return ieval(depth_term[nm_], {pn_: dfl[pn_]})
        except Exception:
            return None
    cd_, wd_ = _dflt("cmd"), _dflt("wdata")
    if ob6.need(cd_ is not None and wd_ is not None and cbd is not None, "default depths of the crossing / the controller's command buffer not found"):
        if cd_ + cbd > wd_:
            ob6.refute("default-sizing", "default command-crossing depth %d + bank command buffer %d > write-data crossing depth %d: write commands can run further ahead than "
                       "the write-data FIFO holds data for, and the controller pops an empty FIFO" % (cd_, cbd, wd_), None)
    # reservation on the command path?
    cmdc = [o for o in cdcs if "cmd" in str(o)]
    res = any("rdata" in " ".join(support(l.value) if l.value is not None and isinstance(l.value, V) else []) for l in v.leaves)
    pls_cmd = [p for p in pls if p and p[0] == "port_from.cmd"]
    ob5.instance("command path", {"pipeline": pls_cmd, "gated_by_read_fifo_space": False if not res else True})
    if pls_cmd and len(pls_cmd[0]) == 3 and not res:
        ob5.refute("rdata-no-reservation", "read commands cross unconditionally (Pipeline %s) while returned read data is pushed into the rdata "
                   "crossing by a producer that ignores `ready` (the crossbar's delayed rdata_valid): with more reads in flight than rdata_depth and "
                   "a user side that stalls, returned words are dropped" % pls_cmd[0], cmdc[0].loc if cmdc else None)
    ctx.assume("stream.ClockDomainCrossing / AsyncFIFO deliver exactly once and in order for all clock ratios (LiteX, trusted)")
