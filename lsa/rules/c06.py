"""C06 - port addresses map one-to-one onto DRAM locations (bit-provenance analysis)."""
import itertools
import random

from ..ruleutil import *
from ..elab import eval_method
from ..bits import bitvec, ieval, Unresolved, ZERO
from .c01 import xbar_view

COMMON = "litedram.common"
BMMOD = "litedram.core.bankmachine"


def trace_args(el, suffix):
    return [(a, k) for (n, a, k, s) in el.calltrace if n.endswith(suffix)]


def valuations(tier, seed):
    banks = (1, 2, 3, 4)
    rows = (11, 13, 14, 16, 18) if tier == "quick" else tuple(range(11, 19))
    cols = (8, 9, 10, 11, 12)
    aligns = (0, 1, 2, 3, 4)
    ranks = (0, 1)
    bbas = (0, 64, 4096, 65536) if tier == "quick" else (0, 8, 64, 1024, 4096, 65536, 1 << 20)
    dbytes = (2, 16) if tier == "quick" else (2, 8, 32)
    allv = list(itertools.product(banks, rows, cols, aligns, ranks, bbas, dbytes))
    if tier == "quick":
        rnd = random.Random(seed)
        corners = [v for v in allv if v[2] in (10, 11) and v[5] in (0, 65536)]
        rest = rnd.sample(allv, min(600, len(allv)))
        seen = set()
        out = []
        for v in corners + rest:
            if v not in seen:
                seen.add(v); out.append(v)
        return out, len(allv)
    return allv, len(allv)


def run(ctx):
    ob1 = ctx.ob("C06.1", "partition: for every geometry valuation each port address bit reaches exactly one destination field (bank, row or column) "
                          "exactly once => the mapping is injective and onto", 50)
    ob2 = ctx.ob("C06.2", "order: column bits are the lowest address bits, the bank field sits at cba_shift = max(colbits-align, "
                          "log2(bank_byte_alignment/bytes)), row bits fill the rest in ascending order; both address helpers receive the same "
                          "cba_shift / bank_bits", 50)
    ob3 = ctx.ob("C06.3", "the activate row is address[colbits-align:] of the per-bank address (all bits above the column)", 50)
    ob4 = ctx.ob("C06.4", "A10: for colbits > 10 column destination bit 10 is constant 0 and the following address bit lands on bit 11; for colbits "
                          "<= 10 the column is at most 10 bits; auto-precharge is OR-ed onto bit 10", 50)
    ob5 = ctx.ob("C06.5", "address_align = log2(burst length) with SDR taking nphases, the low `align` column bits are constant 0, and the "
                          "burst-length table agrees with the reference", 50)
    # ---- symbolic terms -----------------------------------------------------------------------------
    try:
        ba_t, _ = eval_method(ctx.repo, COMMON, "LiteDRAMNativePort", "get_bank_address", [Sym("bank_bits"), Sym("cba_shift")])
        rca_t, _ = eval_method(ctx.repo, COMMON, "LiteDRAMNativePort", "get_row_column_address", [Sym("bank_bits"), Sym("rca_bits"), Sym("cba_shift")])
        row_t, _ = eval_method(ctx.repo, BMMOD, "_AddressSlicer", "row", [Sym("address")], init=True)
        col_t, _ = eval_method(ctx.repo, BMMOD, "_AddressSlicer", "col", [Sym("address")], init=True)
    except KeyError as e:
        ob1.unknown("address helper vanished: %s" % e)
        return
    ctx.stat("methods_evaluated", 4)
    # ---- crossbar: which arguments reach the helpers -----------------------------------------------------
    from ..elab import elaborate
    d, el = elaborate(ctx.repo, "litedram.core.crossbar", "LiteDRAMCrossbar",
                      overrides={"controller.nbanks": Const(2), "controller.nranks": Const(1), "self.finalized": Const(False),
                                 "controller.settings.address_mapping": Const("ROW_BANK_COL")},
                      calls=[("get_port", (), {}), ("get_port", (), {}), ("do_finalize", (), {})])
    ba_calls = trace_args(el, "get_bank_address")
    rca_calls = trace_args(el, "get_row_column_address")
    if not ob2.need(len(ba_calls) == 2 and len(rca_calls) == 2, "crossbar does not call get_bank_address / get_row_column_address once per master"):
        return
    cba_terms = {key(a[1]) for a, k in ba_calls} | {key(a[2]) for a, k in rca_calls}
    bb_terms = {key(a[0]) for a, k in ba_calls} | {key(a[0]) for a, k in rca_calls}
    ob2.instance("helper arguments", {"cba_shift": sorted(cba_terms), "bank_bits": sorted(bb_terms), "rca_bits": sorted({key(a[1]) for a, k in rca_calls})})
    if len(cba_terms) != 1:
        ob2.refute("cba-shift-mismatch", "get_bank_address and get_row_column_address receive different shifts %s: the bits removed from the row/"
                   "column address are not the bits used as bank address" % sorted(cba_terms), None)
    if len(bb_terms) != 1:
        ob2.refute("bank-bits-mismatch", "the two address helpers receive different bank widths %s" % sorted(bb_terms), None)
    cba_t = ba_calls[0][0][1]
    cba_rca_t = rca_calls[0][0][2]
    rca_bits_t = rca_calls[0][0][1]
    port_aw_t = None
    d2, el2_ = elaborate(ctx.repo, "litedram.core.crossbar", "LiteDRAMCrossbar", overrides={"self.finalized": Const(False)},
                         calls=[("get_port", (), {})])
    for o in d2.instances.values():
        if o.cls == "LiteDRAMNativePort":
            port_aw_t = o.kwargs.get("address_width")
            break
    ob1.instance("port address width term", key(port_aw_t) if port_aw_t is not None else None)
    # ---- bank machine: slicer construction ----------------------------------------------------------------
    bm = elab(ctx, BMMOD, "BankMachine")
    sl = bm.instances_of("_AddressSlicer")
    if not ob3.need(len(sl) == 1, "BankMachine does not build one _AddressSlicer"):
        return
    sargs = [key(a) for a in sl[0].args]
    ob3.instance("_AddressSlicer arguments", sargs)
    if sorted(sargs) != sorted(["settings.geom.colbits", "address_align"]):
        ob3.refute("slicer-args", "_AddressSlicer is built with %s, expected (settings.geom.colbits, address_align)" % sargs, sl[0].loc)
    # A10 OR
    a10 = False
    for l in bm.drivers("cmd.a"):
        if isinstance(l.value, Op) and l.value.op == "|":
            for t in l.value.args:
                if isinstance(t, Op) and t.op == "<<" and isinstance(t.args[1], Const) and t.args[1].v == 10:
                    a10 = True
    if not a10:
        # the same composition written as a bit assignment (cmd.a[10] <= flag ...): whether it is confined to column commands is decided by C06.1 (cmd.a-bit-override)
        for l in bm.leaves:
            if l.kind == "assign" and isinstance(l.target, Op) and l.target.op == "index" and key(l.target.args[0]) == "cmd.a" and key(l.target.args[1]) == "10" \
                    and any("auto_precharge" in x or "precharge" in x for x in support(l.value)):
                a10 = True
                ob4.instance("A10 written as a bit assignment", str(l)[:140])
    if not a10:
        ob4.refute("a10-or", "the auto-precharge flag is not OR-ed onto column bit 10 of cmd.a", None)
    # a partial driver of cmd.a (cmd.a[i] / cmd.a[i:j] <= ...) that is not confined to column commands overrides those bits of the ROW of an activate too
    for l in bm.leaves:
        if l.kind == "assign" and isinstance(l.target, Op) and l.target.op in ("index", "slice") and key(l.target.args[0]) == "cmd.a" and l.inst == "":
            sel_ = [k_ for k_ in bm.guard_keys(l, False) if "row_col_n_addr_sel" in k_ or "row_open" in k_]
            ob1.instance("partial driver of cmd.a", {"leaf": str(l)[:160], "confined to a mode by": sel_})
            if not sel_ and any(x.endswith(".addr") for x in support(l.value)):
                ob1.unknown("%s is assigned from the queued address in every mode (%s): whether the row bits survive is not decided" % (key(l.target), str(l)[:120]))
            elif not sel_:
                ob1.refute("cmd.a-bit-override", "%s is assigned in every mode (%s): the later assignment wins, so the same bit(s) of the row address of an ACTIVATE are "
                           "replaced as well - two rows that differ only there open the same DRAM row" % (key(l.target), str(l)[:120]), l.loc)
    # the terms the bank machine REALLY drives on cmd.a (after inlining of local wires; a wire narrower than its value shows up as trunc(..)):
    # they must be, bit for bit, the slicer's row / column of the queue head - checked per valuation below
    bm_col = bm_row = None
    for l in bm.drivers("cmd.a"):
        if isinstance(l.value, Op) and l.value.op == "|" and any(isinstance(t, Op) and t.op == "<<" and isinstance(t.args[1], Const) and t.args[1].v == 10 for t in l.value.args):
            rest = [t for t in l.value.args if not (isinstance(t, Op) and t.op == "<<" and isinstance(t.args[1], Const) and t.args[1].v == 10)]
            bm_col = (rest[0], l) if len(rest) == 1 else None
        elif bm_row is None:
            bm_row = (l.value, l)
    heads = sorted({str(x) for t_ in (bm_col, bm_row) if t_ for x in subterms(t_[0]) if isinstance(x, (Sym, Obj)) and str(x).endswith(".addr")})
    if not ob1.need(bm_col is not None and bm_row is not None and len(heads) == 1, "bank machine: row / column arms of cmd.a not identified (%s)" % heads):
        return
    ob1.instance("bank machine cmd.a terms", {"row": key(bm_row[0])[:200], "column": key(bm_col[0])[:300], "source": heads[0]})
    # ---- controller: address_align ------------------------------------------------------------------------
    ctl = elab(ctx, "litedram.core.controller", "LiteDRAMController", overrides={"phy_settings.nranks": Const(1), "geom_settings.bankbits": Const(1)})
    bms = ctl.instances_of("BankMachine")
    itf = ctl.instances_of("LiteDRAMInterface")
    if ob5.need(len(bms) >= 1 and len(itf) == 1, "controller does not build bank machines / interface"):
        al = {key(o.kwargs.get("address_align")) for o in bms} | {key(itf[0].args[0] if itf[0].args else itf[0].kwargs.get("address_align"))}
        ob5.instance("address_align terms", sorted(al))
        exp_sdr = "log2_int(phy_settings.nphases)"
        ok = len(al) == 1
        if ok:
            t = bms[0].kwargs.get("address_align")
            try:
                bl = {"SDR": 1, "DDR": 4, "LPDDR": 4, "DDR2": 4, "DDR3": 8, "RPC": 16, "DDR4": 8, "LPDDR4": 16, "LPDDR5": 16}
                for mt, n in bl.items():
                    for nph in (1, 2, 4):
                        v = ieval(t, {"phy_settings.memtype": mt, "phy_settings.nphases": nph})
                        expv = (nph.bit_length() - 1) if mt == "SDR" else (n.bit_length() - 1)
                        if v != expv:
                            ob5.refute("align:%s:%d" % (mt, nph), "address_align for %s with %d phases is %s, expected log2(%s) = %d" %
                                       (mt, nph, v, "nphases" if mt == "SDR" else "burst length %d" % n, expv), bms[0].loc)
            except Unresolved as e:
                ob5.unknown("address_align term not evaluable: %s (%s)" % (key(t), e))
        else:
            ob5.refute("align-mismatch", "bank machines and interface receive different address_align terms %s" % sorted(al), bms[0].loc)
    # ---- the controller interface's own width / bank-count terms (what the crossbar reads as controller.*) --------
    itfv = elab(ctx, COMMON, "LiteDRAMInterface", kwargs={"address_align": Sym("address_align"), "settings": pobj("settings")})
    itf_terms = {a: itfv.top.attrs.get(a) for a in ("address_width", "nbanks", "nranks")}
    if not ob1.need(all(x is not None for x in itf_terms.values()), "LiteDRAMInterface lost address_width / nbanks / nranks"):
        return
    ob1.instance("controller interface terms", {k_: key(v_) for k_, v_ in itf_terms.items()})
    # ---- valuations -----------------------------------------------------------------------------------------
    vals, total = valuations(ctx.tier, ctx.seed)
    ctx.stat("valuations", len(vals))
    ood = 0
    nshown = 0
    for (bankbits, rowbits, colbits, align, rank, bba, dbytes) in vals:
        if align > colbits - 1:
            continue
        tag = "bank=%d row=%d col=%d align=%d rank=%d bba=%d bytes=%d" % (bankbits, rowbits, colbits, align, rank, bba, dbytes)
        try:
            ienv = {"settings.geom.rowbits": rowbits, "settings.geom.colbits": colbits, "settings.geom.bankbits": bankbits, "settings.phy.nranks": 1 << rank,
                    "address_align": align}
            c_aw, c_nb, c_nr = (ieval(itf_terms[a_], ienv) for a_ in ("address_width", "nbanks", "nranks"))
        except Unresolved as e:
            ob1.unknown("%s: controller interface term not evaluable: %s" % (tag, e))
            return
        if c_nb != (1 << bankbits) * (1 << rank) or c_nr != 1 << rank:
            ob1.refute("itf-banks:" + tag, "%s: the controller interface announces %d banks / %d ranks, the device has %d / %d" % (tag, c_nb, c_nr, (1 << bankbits) * (1 << rank), 1 << rank), None)
            continue
        env0 = {"controller.settings.geom.colbits": colbits, "controller.address_align": align, "controller.settings.bank_byte_alignment": bba,
                "controller.data_width": dbytes * 8, "controller.address_width": c_aw, "self.bank_bits": bankbits + rank,
                "self.rank_bits": rank, "self.rca_bits": c_aw,
                "controller.nbanks": c_nb, "controller.nranks": c_nr}
        try:
            cba = ieval(cba_t, env0)
            cba2 = ieval(cba_rca_t, env0)
            bank_bits = bankbits + rank
            rca_bits = ieval(rca_bits_t, env0)
            aw = rowbits + colbits + bankbits + rank - align
            if port_aw_t is not None:
                aw2 = ieval(port_aw_t, env0)
                if aw2 != aw:
                    ob1.refute("port-width:" + tag, "%s: port address width is %d, the device has %d address bits" % (tag, aw2, aw), None)
                    aw = aw2
            if cba + bank_bits > aw:
                ood += 1
                continue
            width = lambda name: aw
            ba = bitvec(ba_t, {"cba_shift": cba, "bank_bits": bank_bits}, width)
            rca = bitvec(rca_t, {"cba_shift": cba2, "bank_bits": bank_bits, "rca_bits": rca_bits}, width)
            bank_addr_w = rowbits + colbits + rank - align
            rca_ext = (rca + [ZERO] * bank_addr_w)[:bank_addr_w]
            # the slicer's constructor parameters take the values of the actual arguments BankMachine passes (bound by formal name)
            envs = {"self.colbits": colbits, "self.address_align": align}
            for fname, actual in sl[0].kwargs.items():
                envs["init." + fname] = ieval(actual, {"settings.geom.colbits": colbits, "address_align": align})
            row = bitvec(row_t, envs, lambda n: bank_addr_w)
            col = bitvec(col_t, envs, lambda n: bank_addr_w)
            benv = {"settings.geom.colbits": colbits, "settings.geom.rowbits": rowbits, "address_align": align}
            brow = [("address", b[1]) if b[0] == heads[0] else b for b in bitvec(bm_row[0], benv, lambda n: bank_addr_w)]
            bcol = [("address", b[1]) if b[0] == heads[0] else b for b in bitvec(bm_col[0], benv, lambda n: bank_addr_w)]
        except Unresolved as e:
            ob1.unknown("%s: not evaluable: %s" % (tag, e))
            return
        except (IndexError, ValueError) as e:
            ob1.refute("eval:" + tag, "%s: address arithmetic fails (%s)" % (tag, e), None)
            continue

        def strip(v):
            v = list(v)
            while v and v[-1] == ZERO:
                v.pop()
            return v
        if strip(bcol) != strip(col) or strip(brow) != strip(row):
            which = "column" if strip(bcol) != strip(col) else "row"
            ob1.refute("bm-path:%s:%s" % (which, tag), "%s: the %s the bank machine drives on cmd.a is %s, but the slicer's %s of the queue head is %s: address bits are "
                       "lost or moved between the slicer and the command bus (e.g. an intermediate wire that is too narrow)" %
                       (tag, which, _fmt(bcol if which == "column" else brow), which, _fmt(col if which == "column" else row)), (bm_col if which == "column" else bm_row)[1].loc)
            continue

        def comp(v):
            return [rca_ext[b[1]] if (b[0] == "address") else b for b in v]
        row_c, col_c = comp(row), comp(col)
        srcs = [b for b in ba + row_c + col_c if b[0] not in ("const",)]
        port_bits = [b[1] for b in srcs if b[0] == "self.cmd.addr"]
        detail = {"bank": _fmt(ba), "row": _fmt(row_c), "col": _fmt(col_c), "cba_shift": cba}
        interesting = nshown < 6 or colbits > 10 and bba
        if interesting:
            nshown += 1
        # C06.1
        if sorted(port_bits) != list(range(aw)) or len(port_bits) != len(srcs):
            missing = sorted(set(range(aw)) - set(port_bits))
            dup = sorted({b for b in port_bits if port_bits.count(b) > 1})
            ob1.refute("partition:" + tag, "%s: port address bits %s are dropped and bits %s are used twice: two different addresses reach the "
                       "same DRAM location" % (tag, missing, dup), None, detail)
        else:
            ob1.instance(tag, detail if interesting else None, nontrivial=True)
        # C06.2
        exp_cba = max(colbits - align, ((bba // dbytes).bit_length() - 1) if bba // dbytes > 0 else 0)
        colsrc = [b[1] for b in col_c if b[0] == "self.cmd.addr"]
        rowsrc = [b[1] for b in row_c if b[0] == "self.cmd.addr"]
        basrc = [b[1] for b in ba if b[0] == "self.cmd.addr"]
        ok2 = cba == exp_cba and colsrc == list(range(colbits - align)) and basrc == list(range(cba, cba + bank_bits)) and rowsrc == sorted(rowsrc) \
            and rowsrc == [i for i in range(colbits - align, aw) if i not in basrc]
        if ok2:
            ob2.instance(tag, {"cba_shift": cba}, nontrivial=True)
        else:
            ob2.refute("order:" + tag, "%s: expected columns = bits [0,%d), bank = bits [%d,%d), rows = the rest ascending; got columns %s bank %s rows %s "
                       "(cba_shift %d)" % (tag, colbits - align, exp_cba, exp_cba + bank_bits, colsrc, basrc, rowsrc, cba), None, detail)
        # C06.3 row = everything above the column part of the per-bank address
        exp_row = rca_ext[colbits - align:]
        if row_c == exp_row:
            ob3.instance(tag, None, nontrivial=True)
        else:
            ob3.refute("row:" + tag, "%s: the activate row is %s, expected the per-bank address above bit %d" % (tag, _fmt(row_c), colbits - align), None, detail)
        # C06.4 / C06.5
        bad4 = None
        if colbits > 10:
            if len(col_c) <= 10 or col_c[10] != ZERO:
                bad4 = "column destination bit 10 is %s, not constant 0" % (_fmt([col_c[10]]) if len(col_c) > 10 else "absent",)
            elif [b for b in col_c[11:] if b[0] != "const"] != [rca_ext[i] for i in range(10 - align, colbits - align)]:
                bad4 = "the address bits above A10 are %s" % _fmt(col_c[11:])
        else:
            if any(b != ZERO for b in col_c[10:]):
                bad4 = "a column of %d bits drives bit 10 or above: %s" % (colbits, _fmt(col_c))
        if bad4:
            ob4.refute("a10:" + tag, "%s: %s (A10 is the auto-precharge / precharge-all flag)" % (tag, bad4), None, detail)
        else:
            ob4.instance(tag, None, nontrivial=colbits > 10)
        if col_c[:align] != [ZERO] * align or len([b for b in col_c if b[0] != "const"]) != colbits - align:
            ob5.refute("col-align:" + tag, "%s: the low %d column bits are %s (expected constant 0) / the column carries %d address bits (expected %d)" %
                       (tag, align, _fmt(col_c[:align]), len([b for b in col_c if b[0] != "const"]), colbits - align), None, detail)
        else:
            ob5.instance(tag, None, nontrivial=align > 0)
    ctx.assume("cba_shift + bank_bits <= port address width (%d of %d valuations explored were outside this domain and skipped)" % (ood, len(vals)))
    ctx.stat("valuation_space", total)
    ctx.exhaustive = (ctx.tier == "thorough")
    ctx.notes.append("exhaustive over the named geometry set" if ctx.tier == "thorough" else "covering subset (corners + seeded sample)")
    # burst length table (C06.5)
    el2 = Elab(ctx.repo)
    env = el2.modenv(COMMON)
    bl = env.vars.get("burst_lengths")
    ref = {"SDR": 1, "DDR": 4, "LPDDR": 4, "DDR2": 4, "DDR3": 8, "DDR4": 8, "LPDDR4": 16, "LPDDR5": 16, "RPC": 16}
    if ob5.need(isinstance(bl, DictV), "common.burst_lengths table not found"):
        got = {k.v: v.v for k, v in bl.items if isinstance(k, Const) and isinstance(v, Const)}
        ob5.instance("burst_lengths", got)
        for k, v in ref.items():
            if k in got and got[k] != v:
                ob5.refute("burst-length:%s" % k, "burst length of %s is %s in common.burst_lengths, JEDEC value %d" % (k, got[k], v), None)
    # ---- controller: which bank machine serves which interface bank -----------------------------------------------
    ob7 = ctx.ob("C06.7", "the bank machine connected to interface bank k (k = rank*nbanks + bank, the index the crossbar decodes from the address) is built with n = k, "
                          "the value it drives on cmd.ba: otherwise the rank bits never reach the chip-select decode and two addresses share one DRAM location", 4)
    import re as _re
    ctl2 = elab(ctx, "litedram.core.controller", "LiteDRAMController", overrides={"phy_settings.nranks": Const(2), "geom_settings.bankbits": Const(1)},
                opaque=("Multiplexer", "Refresher", "_AddressSlicer", "tXXDController", "tFAWController"))
    bms2 = {str(o): o for o in ctl2.instances_of("BankMachine")}
    served = {}
    for l in ctl2.leaves:
        if l.kind == "connect" and l.inst == "":
            mo = _re.match(r"^interface\.bank(\d+)$", key(l.value))
            tgt = key(l.target)
            if mo and tgt.endswith(".req") and tgt[:-4] in bms2:
                served[int(mo.group(1))] = bms2[tgt[:-4]]
    if ob7.need(len(served) == 4 and len(bms2) == 4, "controller (2 ranks x 2 banks): expected 4 bank machines each connected to one interface bank, found %d / %d" %
                (len(bms2), len(served))):
        for k_, o in sorted(served.items()):
            n_ = o.kwargs.get("n", o.args[0] if o.args else None)
            ob7.instance("interface.bank%d" % k_, {"bank machine": str(o), "n": key(n_) if n_ is not None else None})
            if not (isinstance(n_, Const) and n_.v == k_):
                ob7.refute("bank-index:%d" % k_, "interface bank %d (rank %d, bank %d) is served by a bank machine built with n = %s: its commands carry bank address %s, so the "
                           "rank decode / the DRAM bank differ from what the port address says" % (k_, k_ // 2, k_ % 2, key(n_) if n_ is not None else None,
                                                                                                key(n_) if n_ is not None else None), o.loc)
    ob6 = ctx.ob("C06.6", "the rank part of the address selects the chip select on the bus: a command that issues on a phase selects exactly the rank its bank address "
                          "names, and the DFI bank field carries the remaining bits (shared with C02.6, truth table of the extracted steerer)", 2)
    from ..report import Ctx as _Ctx
    from . import c02 as _c02
    _sub = _Ctx("C02", ctx.tier, ctx.seed, ctx.repo)
    _c02.rank_decode(_sub)
    for _o in _sub.obligations:
        for _i in _o.instances:
            ob6.instance(_o.oid + ": " + _i["what"], _i["detail"] or "ok")
        for _r in _o.refutations:
            ob6.refute(_o.oid + ":" + _r["key"], _r["msg"], _r.get("loc"))
        for _u in _o.unknowns:
            ob6.unknown(_u)


def _fmt(v):
    out = []
    for b in v:
        if b[0] == "const":
            out.append(str(b[1]))
        elif b[0] == "or":
            out.append("or")
        else:
            out.append("a%d" % b[1])
    return " ".join(out)

