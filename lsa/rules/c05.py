"""C05 - no deadlock / starvation: structural necessary conditions only (the bound itself is a runtime quantity)."""
import re
from ..ruleutil import *
from .c03 import BMRoles, MuxRoles, REFR
from .c01 import xbar_view


def dead_ends(ctx):
    ob = ctx.ob("C05.1", "no dead-end: every state of the bank-machine, multiplexer and refresher FSMs has an outgoing edge (or is a "
                         "delayed_enter chain), and every target state exists", 12)
    views = []
    R = BMRoles(ctx, ob)
    if R.ok:
        views.append(("BankMachine", R.v, R.fsm))
    for nph in (1, 4):
        M = MuxRoles(ctx, ob, nph)
        if M.ok:
            views.append(("Multiplexer(nphases=%d)" % nph, M.v, M.fsm))
    for zq in (True, False):
        r = elab(ctx, REFR, "Refresher", kwargs={"zqcs_freq": Sym("zqcs_freq"), "postponing": Sym("postponing"), "clk_freq": Sym("clk_freq")}) \
            .variant_map({"(settings.timing.tZQCS is None)": not zq, "(settings.timing.tZQCS isnot None)": zq})
        fs = r.fsms("")
        if ob.need(len(fs) == 1, "Refresher FSM not found"):
            views.append(("Refresher(zqcs=%s)" % zq, r, fs[0]))
    for name, v, f in views:
        edges, delayed = fsm_graph(v, f)
        states = [s for s in f.states if v.fsm_leaves(f, s) or cfg_ok(f.cfg.get(s, ()), v.assume)]
        known = set(states) | set(delayed)
        for s in states:
            outs = [(d, l) for (src, d, l) in edges if src == s]
            ob.instance("%s state %s" % (name, s), [d for d, l in outs])
            if not outs:
                ob.refute("dead-end:%s:%s" % (name, s), "%s state %s has no outgoing transition" % (name, s), f.acts[s][0].loc if f.acts[s] else None)
            for d, l in outs:
                if d not in known:
                    ob.refute("unknown-target:%s:%s->%s" % (name, s, d), "%s: transition from %s to undefined state %s" % (name, s, d), l.loc)
        for nm, (t, d, loc) in delayed.items():
            if t not in known:
                ob.refute("unknown-target:%s:%s->%s" % (name, nm, t), "%s: delayed_enter %s ends in undefined state %s" % (name, nm, t), loc)


def anti_starvation(ctx):
    ob = ctx.ob("C05.2", "anti-starvation: the read-mode state enables its time-out counter unconditionally in every configuration and can leave "
                         "for the turnaround under write_available & (no read available OR the time-out), symmetric for write mode; the "
                         "counter's derived bound is the configured read_time / write_time", 8)
    for nph in (1, 2, 4):
        M = MuxRoles(ctx, ob, nph)
        if not M.ok:
            return
        v = M.v.variant_map({"settings.read_time": True, "settings.write_time": True})
        f = M.fsm
        # "a read / a write is waiting" = OR over the bank machines' requests of valid & is_read / is_write (role, not name)
        def avail(kind):
            t = None
            for b in ("bm0", "bm1"):
                x = Op("&", (Sym("%s.cmd.valid" % b), Sym("%s.cmd.%s" % (b, kind))))
                t = x if t is None else Op("|", (t, x))
            return key(t)
        RD, WR = avail("is_read"), avail("is_write")
        for st, mine, other, tname in ((M.read_state, RD, WR, "settings.read_time"), (M.write_state, WR, RD, "settings.write_time")):
            ls = v.fsm_leaves(f, st)
            outs = [l for l in ls if l.kind == "next" and isinstance(l.value, Const) and l.value.v not in M.refresh_states]
            if not ob.need(len(outs) >= 1, "nphases=%d: no turnaround edge out of %s" % (nph, st)):
                continue
            okedge = False
            tmo = None
            for l in outs:
                lits = v.guard_lits(l, False)
                ks = nkeys(v, lits)
                if other in ks:
                    for a, p in lits:
                        dk = as_disj(a, p)
                        if dk is not None:
                            dks = {k_ for x in dk for k_ in ([lkey((deref(v, x[0]), x[1]))])}
                            if "~" + mine in dks:
                                rest = [x for x in dk if lkey((deref(v, x[0]), x[1])) != "~" + mine]
                                if len(rest) == 1:
                                    tmo = rest[0]
                                    okedge = True
            ob.instance("nphases=%d state %s turnaround" % (nph, st), [sorted(v.guard_keys(l, False)) for l in outs])
            if not okedge:
                ob.refute("no-timeout-exit:%s:%d" % (st, nph), "state %s leaves for the other direction only under %s: no time-out disjunct, so a "
                          "continuous stream in one direction starves the other" % (st, [sorted(v.guard_keys(l, False)) for l in outs]), outs[0].loc)
                continue
            # time-out signal: max_time = (time == 0); time loaded with timeout-1 while ~en, decremented while en & ~max
            tv = deref(v, tmo[0])
            cnt = None
            a, p = literal(tv)
            if (not p) == tmo[1]:
                cnt = a
            if cnt is None and isinstance(tv, Op) and tv.op == "==" and tmo[1]:
                # up-counter form (counter == K): decided here only for what can be shown with a witness - the counter's declared range must contain K
                ctr_ = [x for x in tv.args if isinstance(x, Obj) and x.cls == "Signal"]
                K_ = [x for x in tv.args if not (isinstance(x, Obj) and x.cls == "Signal")]
                mx_ = ctr_[0].kwargs.get("max") if len(ctr_) == 1 else None
                par_ = sorted(x for x in (support(K_[0]) if len(K_) == 1 else set()) if x.startswith("settings."))
                if mx_ is not None and len(par_) == 1:
                    from ..bits import ieval
                    wit_ = None
                    try:
                        for n_ in range(2, 200):
                            kv_, mv_ = ieval(K_[0], {par_[0]: n_}), ieval(mx_, {par_[0]: n_})
                            if kv_ >= (1 << max(1, (mv_ - 1).bit_length())):
                                wit_ = (n_, kv_, mv_)
                                break
                    except Exception:
                        wit_ = None
                    ob.instance("nphases=%d state %s: up-counter time-out %s, declared max=%s" % (nph, st, key(tv), key(mx_)), {"witness": wit_})
                    if wit_:
                        ob.refute("timeout-unreachable:%s:%d" % (st, nph), "the time-out %s compares a counter declared Signal(max=%s) with %s: for %s = %d the counter has %d bit(s) and "
                                  "never reaches %d - the time-out never fires and a continuous stream in one direction starves the other" %
                                  (key(tv), key(mx_), key(K_[0]), par_[0], wit_[0], max(1, (wit_[2] - 1).bit_length()), wit_[1]), ctr_[0].loc)
                        continue
            if not ob.need(cnt is not None and isinstance(cnt, (Obj, Sym)), "nphases=%d: time-out %s is not (counter == 0)" % (nph, lkey(tmo))):
                continue
            ds = v.drivers(cnt)
            dec = [d for d in ds if lin_diff(d.target, d.value) is not None and lin_diff(d.target, d.value).is_const() and lin_diff(d.target, d.value).constval() == 1]
            load = [d for d in ds if d not in dec]
            if not ob.need(len(load) == 1 and len(dec) == 1, "nphases=%d: time-out counter %s does not match the load/decrement template" % (nph, key(cnt))):
                continue
            # the counter RUNS when it is not being reloaded.  Necessary: in state `st`, whenever the other direction is waiting, it runs (then it expires
            # after `bound` cycles and forces the turnaround); in the opposite mode state it is reloaded (so the budget starts afresh).
            def in_state(t_, st_):
                """t_ with every FSM-driven signal replaced by the OR of the conditions under which state st_ asserts it"""
                if isinstance(t_, Op):
                    return Op(t_.op, tuple(in_state(x_, st_) for x_ in t_.args))
                if isinstance(t_, (Obj, Sym)):
                    dr = [l_ for l_ in M.v.drivers(t_) if l_.fsm is not None]
                    if dr:
                        r_ = Const(0)
                        for l_ in v.asserted(v.fsm_leaves(f, st_), t_):
                            c_ = Const(1)
                            for x_ in leaf_cond(l_):
                                c_ = Op("&", (c_, x_))
                            r_ = Op("|", (r_, c_))
                        return r_
                    d_ = v.single_comb_def(t_)
                    if d_ is not None and not isinstance(d_, Const):
                        return in_state(d_, st_)
                return t_
            reload_c = Const(1)
            for c_, p_ in load[0].guards:
                reload_c = Op("&", (reload_c, c_ if p_ else Op("~", (c_,))))
            run = Op("~", (reload_c,))
            bound = Op("+", (load[0].value, Const(1)))
            other_t = None
            for b_ in ("bm0", "bm1"):
                x_ = Op("&", (Sym("%s.cmd.valid" % b_), Sym("%s.cmd.%s" % (b_, "is_write" if mine == RD else "is_read"))))
                other_t = x_ if other_t is None else Op("|", (other_t, x_))
            run_here = in_state(run, st)
            okrun, cex = implies([other_t], [run_here])
            other_state = M.write_state if st == M.read_state else M.read_state
            run_there = in_state(run, other_state)
            stops, cex2 = implies([run_there], [Const(0)])
            ob.instance("nphases=%d %s time-out" % (nph, st), {"counter": key(cnt), "runs in this state when": key(run_here)[:200], "bound_cycles": key(bound), "configured": tname,
                                                               "runs in the opposite mode when": key(run_there)[:120]})
            if not lin_eq(bound, Sym(tname)):
                ob.refute("timeout-bound:%s:%d" % (st, nph), "time-out of state %s fires after %s cycles, configured %s" % (st, key(bound), tname), load[0].loc)
            if okrun is None or stops is None:
                ob.unknown("nphases=%d %s: run condition of the time-out counter too large to enumerate" % (nph, st))
                continue
            if okrun is False:
                ob.refute("timeout-not-enabled:%s:%d" % (st, nph), "in state %s (nphases=%d) the time-out counter does not run although the other direction is waiting "
                          "(run condition %s is false for %s): it never expires, so the other direction can be starved" %
                          (st, nph, key(run_here)[:160], sorted(k_ for k_, x_ in cex.items() if x_)), load[0].loc)
            if stops is False:
                ob.refute("timeout-enabled-elsewhere:%s:%d" % (st, nph), "the time-out counter of %s also runs in state %s (under %s): its budget is used up before the mode "
                          "is entered" % (st, other_state, sorted(k_ for k_, x_ in cex2.items() if x_)), load[0].loc)


def arbiters(ctx):
    ob = ctx.ob("C05.3", "round-robin arbiters are SP_CE and advance exactly when the current choice cannot make progress: command choosers under "
                         "cmd.ready | ~cmd.valid; the crossbar's per-bank arbiter under exactly ~bank.valid & ~bank.lock (an extra conjunct "
                         "can freeze a bank on a master that is busy elsewhere and lock other ports out)", 4)
    M = MuxRoles(ctx, ob, 4)
    if M.ok:
        v = M.v
        for ch in v.instances_of("_CommandChooser"):
            rr = [o for o in v.d.objs if o.cls == "RoundRobin" and str(o).startswith(str(ch) + ".")]
            if not ob.need(len(rr) == 1, "%s: RoundRobin not found" % ch):
                continue
            mode = rr[0].args[1] if len(rr[0].args) > 1 else rr[0].kwargs.get("switch_policy")
            ce = v.drivers(str(rr[0]) + ".ce")
            c = key(ch.attrs["cmd"])
            dk = litset(disj(ce[0].value)) if len(ce) == 1 else set()
            ob.instance("%s arbiter" % ch, {"policy": key(mode) if mode is not None else None, "ce": sorted(dk)})
            if mode is None or key(mode) != "SP_CE":
                ob.refute("policy:%s" % ch, "%s arbiter policy is %s, expected SP_CE" % (ch, mode), rr[0].loc)
            if dk != {c + ".ready", "~" + c + ".valid"}:
                ob.refute("ce:%s" % ch, "%s arbiter advances under %s, expected cmd.ready | ~cmd.valid" % (ch, sorted(dk)), ce[0].loc if ce else None)
    for nb, nm_ in ((2, 2),) if ctx.tier == "quick" else ((2, 2), (4, 3)):
        x = xbar_view(ctx, nb, nm_)
        for b in range(nb):
            ce = x.drivers("arbiters[%d].ce" % b)
            if not ob.need(len(ce) == 1, "crossbar arbiter %d ce not found" % b):
                continue
            c = x.value_conj_keys(ce[0].value, False)
            exp = {"~controller.bank%d.valid" % b, "~controller.bank%d.lock" % b}
            ob.instance("crossbar arbiter %d/%d" % (b, nb), sorted(c))
            if exp - c:
                ob.refute("xbar-ce-missing:%d/%d" % (b, nb), "bank %d's arbiter can advance under %s, without %s: the grant can move while a command of the granted master is still "
                          "queued or in flight, its data strobe then goes to another port and the first port waits for ever" % (b, sorted(c), sorted(exp - c)), ce[0].loc)
            if c - exp:
                # positive witness: the extra condition is about the master the grant currently rests on (its lock / its other banks)
                if any(re.search(r"master|grant", a) for a in c - exp):
                    ob.refute("xbar-ce-extra:%d/%d" % (b, nb), "bank %d's arbiter additionally waits for %s: while that holds the grant stays on a master "
                              "that may be busy on another bank, and other ports requesting this idle bank are never granted" % (b, sorted(c - exp)), ce[0].loc)
                else:
                    ob.unknown("bank %d's arbiter additionally waits for %s: whether that condition can hold for ever is not decided" % (b, sorted(c - exp)))
            rr = [o for o in x.d.objs if o.cls == "RoundRobin"]
            for o in rr[:1]:
                mode = o.args[1] if len(o.args) > 1 else o.kwargs.get("switch_policy")
                if mode is None or not key(mode).endswith("SP_CE"):
                    ob.refute("xbar-policy", "crossbar arbiter policy is %s, expected SP_CE" % (mode,), o.loc)


def lock_release(ctx):
    ob = ctx.ob("C05.4", "the bank lock depends only on the occupancy of the two queue stages (it falls when they drain)", 1)
    R = BMRoles(ctx, ob)
    if not R.ok:
        return
    from .c01 import lock_analysis
    LA = lock_analysis(R)
    if not ob.need(LA["ok"], "bank machine: req.lock definition or the two queue stages not found"):
        return
    f_valid, b_valid, f_level = LA["names"]
    ob.instance("bank lock", {"term": key(LA["term"])[:200], "queue stages covered": sorted(LA["stages"]), "fifo level term": LA["level"],
                              "occupancy counter": LA["occupancy"], "other disjuncts": LA["unknown"]})
    covered = LA["occupancy"] is not None or LA["stages"] == {f_valid, b_valid}
    if LA["foreign"]:
        ob.refute("lock-extra", "req.lock depends on %s, which is not an occupancy of the request queue: it may stay high after the queue has drained, locking the master out of "
                  "other banks" % sorted(LA["foreign"]), None)
    if LA["unknown"]:
        ob.unknown("req.lock has counter-like disjuncts this rule cannot classify (%s): whether it falls when the queue drains is not decided" % LA["unknown"])
    elif not covered:
        ob.refute("lock-gap", "req.lock is %s: it does not cover both queue stages' valid (%s, %s) and is not an occupancy counter, so it can drop while a command is still queued; "
                  "the arbiter then re-arbitrates and the queued command's data strobe goes to another port - the accepted command never gets its data" %
                  (key(LA["term"])[:160], f_valid, b_valid), None)


def gate_triggers(ctx):
    ob = ctx.ob("C05.5", "timing gates are triggered only by ACCEPTED commands (fire = valid & ready): a gate triggered by a command that is merely "
                         "presented can keep itself closed for ever (shared with the trigger clauses of C03.2 / C03.5)", 6)
    from ..report import Ctx
    from . import c03
    sub = Ctx("C03", ctx.tier, ctx.seed, ctx.repo)
    c03.bm_gates(sub)
    c03.mux_gates(sub)
    for o in sub.obligations:
        for i in o.instances:
            if "trigger" in i["what"]:
                ob.instance(o.oid + ": " + i["what"], i["detail"])
        for r in o.refutations:
            if "trigger" in r["key"]:
                ob.refute(o.oid + ":" + r["key"], r["msg"], r.get("loc"))
        for u in o.unknowns:
            ob.unknown(u)


def run(ctx):
    gate_triggers(ctx)
    dead_ends(ctx)
    anti_starvation(ctx)
    arbiters(ctx)
    lock_release(ctx)
    ob6 = ctx.ob("C05.6", "no wait-for cycle around refresh: the refresh request wins in the bank machine's idle state and in the multiplexer's read/write states, every "
                          "other state has a traffic-independent exit, command acceptance does not depend on the pending request, and every refresher state waits for the block it started (shared with C04.3, C04.9)", 8)
    share(ctx, ob6, "C04", ("C04.3", "C04.9"))
    ctx.assume("the latency bound itself and fairness between ports under all schedules are NOT decided (runtime quantities); read_time / "
               "write_time = 0 disables the time-out by configuration (reported, not refuted)")
