"""C11 - Avalon-MM port: burst counters, FIFO fork, latched single accesses, addresses."""
from ..ruleutil import *

AV = "litedram.frontend.avalon"


def av_view(ctx, mbl=16):
    return elab(ctx, AV, "LiteDRAMAvalonMM2Native", kwargs={"avalon": pobj("avalon"), "port": pobj("port"), "max_burst_length": Const(mbl), "base_address": Sym("base_address"),
                                                            "burst_increment": Sym("burst_increment")},
                overrides={"len(avalon.writedata)": Const(32), "len(port.wdata.data)": Const(32), "port.data_width": Const(32), "port.mode": Const("both")})


def capacity(sig):
    """largest value a Signal can hold, or None"""
    if not isinstance(sig, Obj) or sig.cls != "Signal":
        return None
    if sig.args and isinstance(sig.args[0], Const) and isinstance(sig.args[0].v, int):
        return (1 << sig.args[0].v) - 1
    mx = sig.kwargs.get("max")
    if isinstance(mx, Const) and isinstance(mx.v, int):
        n = max((mx.v - 1).bit_length(), 1)
        return (1 << n) - 1
    return None


def run(ctx):
    ob1 = ctx.ob("C11.1", "burst read: the number of commands and the number of expected data beats are both loaded from avalon.burstcount into counters "
                          "wide enough for max_burst_length; commands stop after the count, the state is left on the last beat; readdatavalid is driven only "
                          "by port.rdata.valid", 2)
    ob2 = ctx.ob("C11.2", "burst write: command FIFO and data FIFO are pushed by the same valid and waitrequest is the negation of BOTH readys (an accepted "
                          "beat enters both); each beat's data AND byte enables are taken live from the bus; a command is issued only with data available", 6)
    ob3 = ctx.ob("C11.3", "single access: write data and byte enables are latched together with the address under the same strobe and used by the "
                          "single-write state", 2)
    ob4 = ctx.ob("C11.4", "address: avalon.address - (base_address >> log2(bytes)) on the direct and on the latched path", 2)
    converted_widths(ctx, ob4)
    for mbl in (16, 8):
        v = av_view(ctx, mbl)
        fs = v.fsms("")
        if not ob1.need(len(fs) == 1, "Avalon FSM not found"):
            return
        f = fs[0]
        tag = "max_burst_length=%d" % mbl
        # roles
        rd_state = [s for s in f.states if any(l.kind == "nextvalue" and lin_eq(l.value, Op("-", (l.target, Const(1)))) and "port.rdata.valid" in v.guard_keys(l, False)
                                               for l in v.fsm_leaves(f, s))]
        wr_state = [s for s in f.states if any(l.kind == "assign" and key(l.target) == "cmd_fifo.sink.valid" for l in v.fsm_leaves(f, s))]
        if not ob1.need(len(rd_state) == 1 and len(wr_state) == 1, "%s: burst read / burst write states not identified" % tag):
            continue
        rs, ws = rd_state[0], wr_state[0]
        ls = v.fsm_leaves(f, rs)
        cmdv = [l for l in ls if l.kind == "assign" and key(l.target) == "port.cmd.valid"]
        seen = None
        if cmdv:
            a, p = literal(cmdv[0].value)
            if not p:
                seen = key(a)
        decs = [l for l in ls if l.kind == "nextvalue" and lin_eq(l.value, Op("-", (l.target, Const(1))))]
        cmd_cnt = [l for l in decs if "port.cmd.ready" in v.guard_keys(l, False)]
        dat_cnt = [l for l in decs if "port.rdata.valid" in v.guard_keys(l, False)]
        if not ob1.need(seen is not None and len(cmd_cnt) == 1 and len(dat_cnt) == 1, "%s: burst-read counters not identified" % tag):
            continue
        cc, dc = cmd_cnt[0].target, dat_cnt[0].target
        loads_c = [l for l in v.all_leaves_named(cc) if not lin_eq(l.value, Op("-", (l.target, Const(1))))] if hasattr(v, "all_leaves_named") else \
            [l for l in v.drivers(cc) if l not in decs]
        loads_d = [l for l in v.drivers(dc) if l not in decs and l.state != ws and not (l.fsm is not None and l.state == ws)]
        ob1.instance("%s counters" % tag, {"commands": key(cc), "loads": [key(l.value) for l in loads_c], "beats": key(dc), "loads_": [key(l.value) for l in loads_d],
                                            "capacity": [capacity(cc), capacity(dc)]})
        if not loads_c or any(key(l.value) != "avalon.burstcount" for l in loads_c):
            ob1.refute("cmd-count-load:%d" % mbl, "the burst-read command counter %s is loaded with %s, expected avalon.burstcount" % (key(cc), [key(l.value) for l in loads_c]),
                       (loads_c or cmd_cnt)[0].loc)
        ld = [l for l in v.drivers(dc) if l.domain.startswith("sync") and l.fsm is None]
        if not ld or any(key(l.value) != "avalon.burstcount" for l in ld):
            ob1.refute("beat-count-load:%d" % mbl, "the burst beat counter %s is latched from %s, expected avalon.burstcount" % (key(dc), [key(l.value) for l in ld]), (ld or dat_cnt)[0].loc)
        for nm, sig in (("command", cc), ("beat", dc)):
            cap = capacity(sig)
            if cap is None:
                ob1.unknown("%s: width of the %s counter unknown" % (tag, nm))
            elif cap < mbl:
                ob1.refute("counter-width:%s:%d" % (nm, mbl), "the burst %s counter %s can hold at most %d but max_burst_length is %d: a maximum-length burst "
                           "latches as %d and the burst never completes / the bus hangs" % (nm, key(sig), cap, mbl, mbl & cap), sig.loc)
        sset = [l for l in ls if l.kind == "nextvalue" and key(l.target) == seen and is1(l.value)]
        okk = len(sset) == 1 and {"port.cmd.ready", key(Op("==", (cc, Const(1))))} <= v.guard_keys(sset[0], False)
        if not okk:
            ob1.refute("cmd-stop:%d" % mbl, "commands do not stop exactly after the count: %s is set under %s" % (seen, [sorted(v.guard_keys(x, False)) for x in sset]),
                       (sset or cmdv)[0].loc)
        out = [l for l in ls if l.kind == "next"]
        if not out or any(not {"port.rdata.valid", key(Op("==", (dc, Const(1))))} <= v.guard_keys(l, False) for l in out):
            ob1.refute("read-exit:%d" % mbl, "the burst-read state is left under %s, expected on the last data beat (rdata.valid & count == 1)" %
                       [sorted(v.guard_keys(l, False)) for l in out], (out or ls)[0].loc)
        rdv = [l for l in v.fsm_leaves(f) if l.kind == "assign" and key(l.target) == "avalon.readdatavalid"]
        for l in rdv:
            if not (key(l.value) == "port.rdata.valid" or (is1(l.value) and "port.rdata.valid" in v.guard_keys(l, False))):
                ob1.refute("readdatavalid:%s" % l.state, "readdatavalid is driven by %s in state %s, not by port.rdata.valid" % (key(l.value), l.state), l.loc)
        clr = [l for l in v.fsm_leaves(f) if l.kind == "nextvalue" and key(l.target) == seen and is0(l.value)]
        if not clr or any(l.state != f.reset_state for l in clr):
            ob1.refute("seen-clear:%d" % mbl, "%s is not cleared in the start state" % seen, None)
        if mbl != 16:
            continue
        # ---- C11.2 ----
        wl = v.fsm_leaves(f, ws)
        def val(k):
            ds = [l for l in wl if l.kind == "assign" and key(l.target) == k and not l.guards]
            return ds[0].value if ds else None
        cv, dv = val("cmd_fifo.sink.valid"), val("wdata_fifo.sink.valid")
        wreq = [l for l in wl if l.kind == "assign" and key(l.target) == "avalon.waitrequest" and not l.guards]
        ob2.instance("fifo pushes", {"cmd": key(cv) if cv is not None else None, "data": key(dv) if dv is not None else None, "waitrequest": [key(l.value) for l in wreq]})
        if cv is None or dv is None or key(cv) != key(dv) or litset(conj(cv)) != {"avalon.write", "~avalon.waitrequest"}:
            ob2.refute("fork-valid", "command FIFO and data FIFO are pushed under %s / %s, expected the same avalon.write & ~waitrequest" %
                       (key(cv) if cv is not None else None, key(dv) if dv is not None else None), None)
        if not wreq or litset(conj(wreq[0].value, False)) != {"cmd_fifo.sink.ready", "wdata_fifo.sink.ready"} and litset(disj(wreq[0].value)) != {"~cmd_fifo.sink.ready", "~wdata_fifo.sink.ready"}:
            ob2.refute("fork-ready", "waitrequest in the burst-write state is %s, expected ~(cmd_fifo.sink.ready & wdata_fifo.sink.ready)" % [key(l.value) for l in wreq], None)
        for tgt, exp in (("wdata_fifo.sink.payload.data", "avalon.writedata"), ("wdata_fifo.sink.payload.byteenable", "avalon.byteenable"),
                         ("port.wdata.data", "wdata_fifo.source.payload.data"), ("port.wdata.we", "wdata_fifo.source.payload.byteenable"),
                         ("port.wdata.valid", "wdata_fifo.source.valid"), ("wdata_fifo.source.ready", "port.wdata.ready"),
                         ("port.cmd.addr", "cmd_fifo.source.payload.address"), ("cmd_fifo.source.ready", "port.cmd.ready")):
            t = val(tgt)
            ob2.instance(tgt, key(t) if t is not None else None)
            if t is None or key(t) != exp:
                ob2.refute("burst-write:%s" % tgt, "in the burst-write state %s is %s, expected %s%s" % (tgt, key(t) if t is not None else None, exp,
                           " (each beat carries its own byte enables; a latched copy holds the first beat's)" if "byteenable" in tgt and "sink" in tgt else ""), None)
        pv = val("port.cmd.valid")
        if pv is None or "cmd_fifo.source.valid" not in litset(conj(pv)) or not any("wdata_fifo.level" in k for k in litset(conj(pv))):
            ob2.refute("cmd-needs-data", "burst-write command valid is %s, expected cmd_fifo.source.valid & (wdata_fifo.level > 0)" % (key(pv) if pv is not None else None), None)
        # burst not abandoned: the burst-write state is left only when every beat of the burst was received
        wout = [l for l in wl if l.kind == "next"]
        bc = key(dc)
        for l in wout:
            g = v.guard_keys(l, False)
            zero = {"~" + bc, key(Op("==", (dc, Const(0))))}
            ob2.instance("burst-write exit", sorted(g))
            if not (g & zero):
                ob2.refute("burst-write-exit", "the burst-write state is left under %s, which does not require the beat counter %s to be 0: during an idle gap of "
                           "the master (write deasserted between beats, legal in Avalon-MM) the FSM abandons the burst once the FIFOs drained and the "
                           "remaining beats are decoded as new accesses" % (sorted(g), bc), l.loc)
        if not wout:
            ob2.unknown("burst-write state has no exit")
        # ---- C11.3 ----
        lat = [l for l in v.leaves if l.domain.startswith("sync") and l.fsm is None and l.kind == "assign" and l.inst == ""]
        lm = {key(l.target): (key(l.value), sorted(v.guard_keys(l, False))) for l in lat}
        ob3.instance("latched on access start", lm)
        gset = {tuple(g) for _, g in lm.values()}
        latched_from = {vv[0]: k_ for k_, vv in lm.items()}
        for e in ("avalon.byteenable", "avalon.writedata", "avalon.burstcount"):
            if e not in latched_from:
                ob3.refute("latch:%s" % e, "%s is not latched at the start of an access (latched: %s)" % (e, sorted(latched_from)), None)
        if latched_from.get("avalon.burstcount") != key(dc):
            ob3.refute("latch:beat-counter", "avalon.burstcount is latched into %s but the burst states count beats with %s" % (latched_from.get("avalon.burstcount"), key(dc)), None)
        if len(gset) != 1:
            ob3.refute("latch-strobe", "the access registers are latched under different strobes: %s" % lm, None)
        WD, BE = latched_from.get("avalon.writedata"), latched_from.get("avalon.byteenable")
        sw = [s for s in f.states if any(l.kind == "assign" and key(l.target) == "port.wdata.data" and key(l.value) == WD for l in v.fsm_leaves(f, s))]
        if not sw or not any(l.kind == "assign" and key(l.target) == "port.wdata.we" and key(l.value) == BE for l in v.fsm_leaves(f, sw[0])):
            ob3.refute("single-write", "the single-write state does not use the latched data and byte enables", None)
        else:
            ob3.instance("single write state", sw[0])
        # ---- C11.4 ----
        # the offset may be a named wire or written out; compare with wires replaced by what they stand for
        def nk(t_):
            if isinstance(t_, Op):
                return Op(t_.op, tuple(nk(a_) for a_ in t_.args))
            d_ = deref(v, t_)
            return nk(d_) if d_ is not t_ else t_
        direct = [l for l in v.fsm_leaves(f, f.reset_state) if l.kind == "assign" and key(l.target) == "port.cmd.addr"]
        want = key(Op("-", (Sym("avalon.address"), Op(">>", (Sym("base_address"), Const(2))))))
        lat_addr = [l for l in lat if key(nk(l.value)) == want]
        la = want if lat_addr else None
        ob4.instance("direct command address", [key(nk(l.value)) for l in direct])
        ob4.instance("latched command address", [str(l) for l in lat_addr])
        if not direct or key(nk(direct[0].value)) != want or la != want:
            # another arrangement (e.g. the bus address latched / counted first and ONE shared subtractor): every command-address driver must still subtract the
            # base offset from something that comes from the bus address
            offk = key(Op(">>", (Sym("base_address"), Const(2))))
            alld = [l for l in v.fsm_leaves(f) if l.kind == "assign" and key(l.target) == "port.cmd.addr"] + \
                   [l for l in v.leaves if l.fsm is None and l.kind == "assign" and key(l.target) == "port.cmd.addr" and l.inst == ""]
            verdicts = []
            for l in alld:
                ln = lin(nk(l.value))
                if ln is None:
                    verdicts.append(None)
                    continue
                co = {("*".join(m_) if m_ else "1"): c_ for m_, c_ in ln.t.items()}
                has_off = co.get(offk) == -1
                others = [k_ for k_, c_ in co.items() if k_ not in (offk, "1")]
                def from_bus(k_, dep=0):
                    if k_ == "avalon.address":
                        return True
                    if dep > 4:
                        return False
                    ds_ = v.drivers(k_)
                    return bool(ds_) and all(isinstance(d_.value, V) and all(from_bus(x_, dep + 1) or x_ == k_ or (not v.drivers(x_) and not x_.startswith(("avalon.", "port."))) for x_ in support(d_.value))
                                             for d_ in ds_)
                if has_off and len(others) == 1 and co[others[0]] == 1 and from_bus(others[0]):
                    verdicts.append(True)
                elif not has_off and any(from_bus(k_) for k_ in others) and offk not in " ".join(support(nk(l.value))):
                    verdicts.append(False)
                else:
                    verdicts.append(None)
            if alld and all(x_ is True for x_ in verdicts):
                ob4.instance("command address (shared subtractor form)", [key(nk(l.value))[:100] for l in alld])
            elif any(x_ is False for x_ in verdicts):
                ob4.refute("address", "command address is %s (direct) / %s (latched): the base address offset (base_address >> 2 for a 32-bit port) is not subtracted" %
                           ([key(nk(l.value)) for l in direct], la), None)
            else:
                ob4.unknown("command address %s is not of a form this rule reads" % [key(nk(l.value))[:80] for l in alld])
        # consecutive beats of a burst address consecutive words: the burst states advance the WHOLE latched address (an increment confined to the low bits wraps a
        # burst that crosses a block boundary back to the start of the block)
        areg = [l for l in lat if key(nk(l.value)) == want]
        if areg:
            ak = key(areg[0].target)
            steps = [l for l in v.fsm_leaves(f) if l.kind == "nextvalue" and isinstance(l.value, V) and ak in support(l.value) and "burst_increment" in support(l.value)]
            ob4.instance("burst address steps", [str(l)[:100] for l in steps])
            for l in steps:
                if key(l.target) != ak:
                    ob4.refute("burst-step-partial", "`%s` advances only part of the latched command address %s: a burst that crosses that field's range wraps inside it instead "
                               "of going on to the next words" % (str(l)[:100], ak), l.loc)
                elif not lin_eq(l.value, Op("+", (l.target, Sym("burst_increment")))):
                    ob4.refute("burst-step", "`%s`: the burst address is not advanced by burst_increment" % str(l)[:100], l.loc)
            if not steps:
                ob4.unknown("no burst-state statement advances the latched command address %s" % ak)
    ctx.assume("stall interleavings and data values are not decided; the width-adjusting converter in front of the bridge is covered by C07")


def converted_widths(ctx, ob4):
    """with a width converter in front, every register that carries the command address is as wide as the address of the port it drives"""
    for aw, pw, what in ((32, 64, "narrower Avalon bus (up-conversion)"), (64, 32, "wider Avalon bus (down-conversion)")):
        v = elab(ctx, AV, "LiteDRAMAvalonMM2Native", kwargs={"avalon": pobj("avalon"), "port": pobj("port"), "max_burst_length": Const(16), "base_address": Sym("base_address"),
                                                             "burst_increment": Sym("burst_increment")},
                 overrides={"len(avalon.writedata)": Const(aw), "len(port.wdata.data)": Const(pw), "port.data_width": Const(pw), "port.mode": Const("both")})
        ports = [o for o in v.d.objs if o.cls == "LiteDRAMNativePort" and o.kind != "param"]
        if not ob4.need(len(ports) == 1, "%s: bus-side port of the converter not found" % what):
            continue
        np_ = ports[0]
        paw = np_.kwargs.get("address_width")
        srcs = {}
        for l in v.leaves:
            if l.kind == "assign" and key(l.target) == str(np_) + ".cmd.addr":
                for t_ in subterms(l.value):
                    if isinstance(t_, Obj) and t_.cls == "Signal" and t_.kind == "prim" and "." not in str(t_):
                        srcs[str(t_)] = t_
        # registers feeding those sources through the command FIFO / latches
        for l in v.leaves:
            if l.kind in ("assign", "nextvalue") and isinstance(l.target, Obj) and str(l.target) in srcs:
                pass
        regs = {}
        for nm, o in srcs.items():
            if any(d.domain.startswith("sync") or d.kind == "nextvalue" for d in v.drivers(o)):
                regs[nm] = o
        ob4.instance("%s: address registers" % what, {nm: key(o.args[0]) if o.args else None for nm, o in regs.items()})
        if not ob4.need(bool(regs), "%s: no register carries the command address" % what):
            continue
        for nm, o in regs.items():
            w = o.args[0] if o.args else o.kwargs.get("bits_sign")
            if w is None or (lin_ge(w, paw) is not True and key(w) != key(paw)):
                ob4.refute("addr-reg-width:%s" % nm, "%s: the address register %s is %s bits wide but drives the command address of a port with %s address bits: the top "
                           "address bits of a burst are lost (bursts land in the lower part of the memory)" % (what, nm, key(w) if w is not None else None, key(paw)), o.loc)
