"""C15 - ECC port: lane partition / writer-reader stride agreement, counters, byte-enable mask widths."""
import ast

from ..ruleutil import *
from ..bits import ieval, Unresolved

ECC = "litedram.frontend.ecc"
CONFIGS = [(64, 104, 8), (64, 128, 8), (128, 176, 8), (256, 312, 8), (64, 72, 1), (256, 320, 8), (16, 24, 2)]


def slice_bounds(t):
    """slice term with constant bounds -> (base key, lo, hi) or None"""
    if isinstance(t, Op) and t.op == "slice" and isinstance(t.args[1], Const) and isinstance(t.args[2], Const):
        return key(t.args[0]), t.args[1].v, t.args[2].v
    if isinstance(t, Op) and t.op == "index" and isinstance(t.args[1], Const):
        return key(t.args[0]), t.args[1].v, t.args[1].v + 1
    return None


def lanes(ctx):
    ob = ctx.ob("C15.1", "lane partition and writer/reader agreement: encoder inputs partition sink.data, decoder outputs partition source.data, and "
                         "lane i's code word is written to exactly the bit range [i*W,(i+1)*W) with W = data_width_to//burst_cycles that lane i's "
                         "decoder reads (same stride on both sides, also when the DRAM-side port is wider than the code)", 7)
    for (wf_, wt_, bc) in CONFIGS:
        kw = {"data_width_from": Const(wf_), "data_width_to": Const(wt_), "burst_cycles": Const(bc)}
        w = elab(ctx, ECC, "LiteDRAMNativePortECCW", kwargs=kw)
        r = elab(ctx, ECC, "LiteDRAMNativePortECCR", kwargs=kw)
        tag = "from=%d to=%d lanes=%d" % (wf_, wt_, bc)
        wf, wt = wf_ // bc, wt_ // bc
        enc = [o for o in w.d.objs if o.cls == "ECCEncoder"]
        dec = [o for o in r.d.objs if o.cls == "ECCDecoder"]
        if not ob.need(len(enc) == bc and len(dec) == bc, "%s: expected %d encoders/decoders, found %d/%d" % (tag, bc, len(enc), len(dec))):
            continue
        # writer side
        enc_in, enc_out = {}, {}
        for l in w.leaves:
            if l.kind != "assign":
                continue
            tk = key(l.target)
            for i, e in enumerate(enc):
                if tk == str(e) + ".i":
                    enc_in[i] = slice_bounds(l.value)
                if key(l.value) == str(e) + ".o":
                    enc_out[i] = slice_bounds(l.target)
        whole = [l for l in w.leaves if l.kind == "assign" and key(l.target) == "source.data"]
        if whole and not enc_out:
            v = whole[0].value
            if isinstance(v, Op) and v.op == "Cat" and all(any(key(a) == str(e) + ".o" for e in enc) for a in v.args):
                ob.refute("writer-stride:%s" % tag, "%s: the encoder outputs are concatenated back to back (stride = code word width n+1) but the decoder "
                          "reads lane i at i*%d (= data_width_to//burst_cycles): the strides agree only when the DRAM-side port is an exact fit, "
                          "which the module does not require (assert port_to.data_width >= (n+1)*burst_cycles)" % (tag, wt), whole[0].loc)
                continue
        dec_in, dec_out = {}, {}
        for l in r.leaves:
            if l.kind != "assign":
                continue
            tk = key(l.target)
            for i, d_ in enumerate(dec):
                if tk == str(d_) + ".i":
                    dec_in[i] = slice_bounds(l.value)
                if key(l.value) == str(d_) + ".o":
                    dec_out[i] = slice_bounds(l.target)
        if not ob.need(len(enc_in) == bc and len(enc_out) == bc and len(dec_in) == bc and len(dec_out) == bc,
                       "%s: per-lane slice assignments not recognised (enc_in %d, enc_out %d, dec_in %d, dec_out %d)" %
                       (tag, len(enc_in), len(enc_out), len(dec_in), len(dec_out))):
            continue
        ob.instance(tag, {"encoder.i": [enc_in[i][1:] for i in range(bc)][:3], "encoder.o->": [enc_out[i][1:] for i in range(bc)][:3],
                          "decoder.i<-": [dec_in[i][1:] for i in range(bc)][:3], "decoder.o->": [dec_out[i][1:] for i in range(bc)][:3]})
        for nm, m, width, total, base in (("encoder inputs", enc_in, wf, wf_, "sink.data"), ("decoder outputs", dec_out, wf, wf_, "source.data")):
            got = [m[i] for i in range(bc)]
            exp = [(base, i * width, (i + 1) * width) for i in range(bc)]
            if got != exp:
                ob.refute("partition:%s:%s" % (nm, tag), "%s: %s are %s, expected lane i = %s[i*%d:(i+1)*%d] (a partition of the %d-bit word in lane "
                          "order)" % (tag, nm, got[:4], base, width, width, total), None)
        for i in range(bc):
            a, b = enc_out[i], dec_in[i]
            if a is None or b is None or (a[1], a[2]) != (b[1], b[2]) or a[0] != "source.data" or b[0] != "sink.data":
                ob.refute("lane-mismatch:%d:%s" % (i, tag), "%s: lane %d's code word is written to %s but read back from %s" % (tag, i, a, b), None)
            elif (a[1], a[2]) != (i * wt, (i + 1) * wt):
                ob.refute("lane-stride:%d:%s" % (i, tag), "%s: lane %d occupies bits [%d,%d), expected [%d,%d)" % (tag, i, a[1], a[2], i * wt, (i + 1) * wt), None)
        for e in enc:
            if not (e.args and isinstance(e.args[0], Const) and e.args[0].v == wf):
                ob.refute("encoder-width:%s" % tag, "%s: encoder built for %s data bits, lane has %d" % (tag, e.args[0] if e.args else None, wf), e.loc)
        for d_ in dec:
            if not (d_.args and isinstance(d_.args[0], Const) and d_.args[0].v == wf):
                ob.refute("decoder-width:%s" % tag, "%s: decoder built for %s data bits, lane has %d" % (tag, d_.args[0] if d_.args else None, wf), d_.loc)
        # flags: lane i -> sec[i] / ded[i] under source.valid
        for fl in ("sec", "ded"):
            for i, d_ in enumerate(dec):
                ds = [l for l in r.leaves if l.kind == "assign" and key(l.target) == "%s[%d]" % (fl, i)]
                # `If(valid, x.eq(f))` and `x.eq(f & valid)` are the same thing
                ck_ = (r.guard_keys(ds[0], False) | litset(conj(ds[0].value))) if len(ds) == 1 else set()
                if len(ds) != 1 or ck_ != {"%s.%s" % (d_, fl), "source.valid"}:
                    ob.refute("flag:%s[%d]:%s" % (fl, i, tag), "%s: %s[%d] is not decoder %d's %s flag under source.valid: %s" % (tag, fl, i, i, fl, [str(x) for x in ds]), None)


def counters(ctx):
    ob = ctx.ob("C15.2", "error counters: sec_errors / ded_errors each increment (and their sticky flags are set) under exactly {not clear, not "
                         "saturated, any lane flags that kind}: the two kinds are counted independently (a corrected error in one lane must not "
                         "hide an uncorrectable error in another lane of the same beat); clear resets all four", 4)
    v = elab(ctx, ECC, "LiteDRAMNativePortECC", overrides={"port_from.data_width": Const(64), "port_to.data_width": Const(104)},
             kwargs={"burst_cycles": Const(8), "with_error_injection": Const(False), "with_we_error_detection": Const(False)})
    clear = "clear.wr_stb"
    for kind in ("sec", "ded"):
        cnt = "%s_errors.status" % kind
        flag = "%s_detected" % kind
        incs = [l for l in v.leaves if l.kind == "assign" and key(l.target) == cnt and not is0(l.value)]
        sets = [l for l in v.leaves if l.kind == "assign" and key(l.target) == flag and is1(l.value)]
        clrs = [l for l in v.leaves if l.kind == "assign" and key(l.target) in (cnt, flag) and is0(l.value)]
        if not ob.need(len(incs) == 1 and len(sets) == 1, "%s counter increment / flag set not found" % kind):
            continue
        rd = [o for o in v.d.instances.values() if o.cls == "LiteDRAMNativePortECCR"]
        src = key(rd[0].attrs[kind]) if rd else "?"
        other_src = key(rd[0].attrs["ded" if kind == "sec" else "sec"]) if rd else "?"
        for what, l in (("increment", incs[0]), ("flag", sets[0])):
            # an event flag that is registered first (counted one cycle later) stands for the condition it was loaded with
            lits = []
            for a_, p_ in v.guard_lits(l, False):
                ds_ = v.drivers(a_) if isinstance(a_, Obj) else []
                if p_ and isinstance(a_, Obj) and a_.cls == "Signal" and len(ds_) == 1 and ds_[0].domain.startswith("sync") and not ds_[0].guards and isinstance(ds_[0].value, V):
                    lits.extend(conj(ds_[0].value))
                else:
                    lits.append((a_, p_))
            g = litset(lits)
            exp_core = {"~" + clear, src}
            sat = {k for k in g if cnt in k and k not in exp_core}
            extra = g - exp_core - sat
            ob.instance("%s %s guard" % (kind, what), sorted(g))
            if not exp_core <= g:
                if any(k_.startswith("trunc(" + src) for k_ in g):
                    pass
                elif src not in g and any(src in support(a_) for a_, _ in lits):
                    ob.unknown("%s %s happens under %s: the %s flags are tested in a form this rule does not read" % (kind, what, sorted(g), kind))
                else:
                    ob.refute("%s-%s-guard" % (kind, what), "%s %s happens under %s, which lacks %s" % (kind, what, sorted(g), sorted(exp_core - g)), l.loc)
            trunc_ = sorted(k_ for k_ in g if k_.startswith("trunc(" + src))
            if trunc_:
                ob.refute("%s-%s-guard" % (kind, what), "%s %s tests %s: the per-lane flag vector is cut down to its low bit(s), so errors in the other lanes are never counted" %
                          (kind, what, trunc_), l.loc)
                continue
            edge_ = []
            for a_, p_ in lits:
                ds_ = v.drivers(a_) if isinstance(a_, Obj) else []
                if (not p_) and ds_ and all(d_.domain.startswith("sync") for d_ in ds_) and any(isinstance(d_.value, V) and src in support(d_.value) for d_ in ds_):
                    edge_.append(lkey((a_, p_)))
            if edge_:
                ob.refute("%s-%s-masked" % (kind, what), "%s %s additionally requires %s, a register loaded from the %s flags themselves: only the first of several consecutive "
                          "erroneous beats is counted" % (kind, what, edge_, kind), l.loc)
                continue
            masking = sorted(k_ for k_ in extra if other_src in k_)
            # handshake qualifiers ("count the word once, when it is transferred") are sound only where the flags and the handshake belong to the same pipeline
            # stage: the decoders' flags are combinational from the decoder INPUT word, so a handshake of the user port is aligned with them only if no register
            # sits between (the reader's source side is not bufferized), and only as a complete valid & ready pair of one endpoint
            hs = sorted(k_ for k_ in extra if k_ not in masking and k_.lstrip("~").rsplit(".", 1)[-1] in ("valid", "ready"))
            wr_ = [w_ for w_ in (rd[0].meta.get("wrappers", []) if rd else []) if w_[0] == "BufferizeEndpoints"]
            src_buffered = any("source" in str(a_) for w_ in wr_ for a_ in w_[1])
            eps_ = {}
            for k_ in hs:
                eps_.setdefault(k_.rsplit(".", 1)[0], set()).add(k_.rsplit(".", 1)[1])
            user_side = [e_ for e_ in eps_ if e_.startswith("port_from.")]
            if user_side and src_buffered:
                ob.refute("%s-%s-masked" % (kind, what), "%s %s additionally requires %s of the user port, but the decoded word passes an output register first "
                          "(BufferizeEndpoints on the reader's source): a word that moves into that register while the user is not ready is never counted" %
                          (kind, what, hs), l.loc)
                continue
            benign_ = sorted(k_ for k_ in hs if eps_[k_.rsplit(".", 1)[0]] == {"valid", "ready"})
            rest = sorted(set(extra) - set(masking) - set(benign_))
            if masking:
                ob.refute("%s-%s-masked" % (kind, what), "%s %s additionally requires %s: a beat in which another lane reports the other kind of error is "
                          "not counted (e.g. a corrected error in lane i hides an uncorrectable error in lane j)" % (kind, what, masking), l.loc)
            elif rest:
                ob.unknown("%s %s additionally requires %s: whether every error event is still counted is not decided" % (kind, what, rest))
            if what == "increment" and not lin_eq(l.value, Op("+", (l.target, Const(1)))):
                ob.refute("%s-step" % kind, "%s counter is updated to %s, expected +1" % (kind, key(l.value)), l.loc)
        if len(clrs) != 2 or any(v.guard_keys(c, False) != {clear} for c in clrs):
            ob.refute("%s-clear" % kind, "%s counter / flag are not both reset under clear alone: %s" % (kind, [str(c) for c in clrs]), None)
    # the granularity-error counter of the write half: counts under the writer's flag; a handshake of the writer's registered output side is another pipeline stage
    try:
        vw = elab(ctx, ECC, "LiteDRAMNativePortECC", overrides={"port_from.data_width": Const(64), "port_to.data_width": Const(104)},
                  kwargs={"burst_cycles": Const(8), "with_error_injection": Const(False), "with_we_error_detection": Const(True)})
    except Exception:
        vw = None
    if vw is not None:
        wr_i = [o for o in vw.d.instances.values() if o.cls == "LiteDRAMNativePortECCW" and "." not in o.path]
        wincs = [l for l in vw.leaves if l.kind == "assign" and l.inst == "" and isinstance(l.value, Op) and lin_eq(l.value, Op("+", (l.target, Const(1))))
                 and wr_i and any(key(wr_i[0].attrs.get("we_error", Sym("?"))) in k_ for k_ in vw.guard_keys(l, False))]
        ob.instance("granularity-error counter increments", [sorted(vw.guard_keys(l, False)) for l in wincs])
        for l in wincs:
            wsrc = key(wr_i[0].attrs["we_error"])
            wrap_ = [w_ for w_ in (wr_i[0].meta.get("wrappers", []) or []) if w_[0] == "BufferizeEndpoints"]
            buffered_ = {str(a_) for w_ in wrap_ for a_ in w_[1]}
            for k_ in sorted(vw.guard_keys(l, False)):
                b_ = k_.lstrip("~")
                if b_ == wsrc or key(l.target) in b_ or "clear" in b_ or "wr_stb" in b_:
                    continue
                if b_.rsplit(".", 1)[-1] in ("valid", "ready") and b_.startswith(wr_i[0].path + ".") :
                    side_ = b_[len(wr_i[0].path) + 1:].split(".", 1)[0]
                    if any(side_ in x_ for x_ in buffered_):
                        ob.refute("we-errors-masked", "the granularity-error counter additionally requires %s, a handshake of the writer's %s side, which lies behind an output register "
                                  "(BufferizeEndpoints) while the flag is computed from the word at its input: a partial write that moves into that register while the memory side "
                                  "is not ready is never counted" % (k_, side_), l.loc)
                    else:
                        ob.unknown("the granularity-error counter additionally requires %s: whether every partial write is still counted is not decided" % k_)
                else:
                    ob.unknown("the granularity-error counter additionally requires %s: whether every partial write is still counted is not decided" % k_)
    rd_ = [o for o in v.d.instances.values() if o.cls == "LiteDRAMNativePortECCR" and "." not in o.path]
    en = v.drivers(rd_[0].path + ".enable") if rd_ else []
    if not en or key(en[0].value) != "enable.storage":
        ob.refute("enable", "decoder enable is not driven by the enable CSR", None)


def width_of_slice(sb):
    return sb[2] - sb[1]


def masks(ctx):
    ob = ctx.ob("C15.3", "byte-enable mask widths: a constant ASSIGNED to a byte-enable slice must have at least slice-width low one-bits (Migen "
                         "truncates); a constant COMPARED with a byte-enable slice must be the all-ones value of exactly the slice width (Migen "
                         "zero-extends, so a wider constant never matches and every full write would be reported as a granularity error)", 8)
    bad_cmp, bad_asg, bad_fn = [], [], []
    for (wf_, wt_, bc) in CONFIGS:
        kw = {"data_width_from": Const(wf_), "data_width_to": Const(wt_), "burst_cycles": Const(bc)}
        w = elab(ctx, ECC, "LiteDRAMNativePortECCW", kwargs=kw)
        tag = "from=%d to=%d lanes=%d" % (wf_, wt_, bc)
        n_assign = n_cmp = n_fn = 0
        for l in w.leaves:
            if l.kind == "assign":
                sb = slice_bounds(l.target)
                if sb and sb[0] == "source.we" and isinstance(l.value, Const) and isinstance(l.value.v, int):
                    n_assign += 1
                    W = width_of_slice(sb)
                    c = l.value.v
                    okc = W > 0 and (c & ((1 << W) - 1)) == (1 << W) - 1
                    if n_assign <= 2:
                        ob.instance("%s assign source.we[%d:%d]" % (tag, sb[1], sb[2]), {"width": W, "constant": c, "ok": okc})
                    if not okc:
                        bad_asg.append(("%s: source.we[%d:%d] (%d bits) is assigned %d" % (tag, sb[1], sb[2], W, c), l.loc))
            # comparisons of a byte-enable slice with a non-zero constant, wherever they are written (guard or value) on the way to we_error
            if l.target is None or key(l.target) != "we_error":
                continue
            for c_ in [c0 for c0, p in l.guards] + ([l.value] if l.value is not None else []):
                for t in subterms(c_):
                    if isinstance(t, Op) and t.op in ("==", "!=") and len(t.args) == 2:
                        for a, b in ((t.args[0], t.args[1]), (t.args[1], t.args[0])):
                            sb = slice_bounds(a)
                            if sb and sb[0] == "sink.we" and isinstance(b, Const) and isinstance(b.v, int) and b.v != 0:
                                n_cmp += 1
                                W = width_of_slice(sb)
                                okc = b.v == (1 << W) - 1
                                if n_cmp <= 2:
                                    ob.instance("%s compare sink.we[%d:%d]" % (tag, sb[1], sb[2]), {"width": W, "constant": b.v, "ok": okc})
                                if not okc:
                                    bad_cmp.append(("%s: sink.we[%d:%d] (%d bits, all ones = %d) compared with %d" %
                                                    (tag, sb[1], sb[2], W, (1 << W) - 1, b.v), l.loc))
        if n_cmp == 0 or n_assign == 0:
            ob.unknown("%s: byte-enable assignment / we_error comparison not found (%d/%d)" % (tag, n_assign, n_cmp))
        # the flag as a function of the lane's byte enables: raised for EVERY pattern that is not all ones (a lane left wholly disabled included)
        for l in w.drivers("we_error"):
            if is0(l.value):
                continue
            cj = [(c0, p0) for c0, p0 in l.guards] + ([(a0, p0) for a0, p0 in conj(l.value)] if not is1(l.value) else [])
            lane = None
            for c0, p0 in cj:
                for t in subterms(expand_term(w, c0)):
                    sb = slice_bounds(t)
                    if sb and sb[0] == "sink.we":
                        lane = sb
            if lane is None or not (0 < width_of_slice(lane) <= 8):
                continue
            Wl = width_of_slice(lane)

            class _NoEval(Exception):
                pass

            def ev_(t, val):
                if isinstance(t, Const) and isinstance(t.v, (int, bool)):
                    return int(t.v)
                sb_ = slice_bounds(t)
                if sb_ == lane:
                    return val
                if key(t) == "sink.valid":
                    return 1
                if isinstance(t, Op) and t.op in ("==", "!=") and len(t.args) == 2:
                    r_ = ev_(t.args[0], val) == ev_(t.args[1], val)
                    return int(r_ if t.op == "==" else not r_)
                if isinstance(t, Op) and t.op in ("&", "|") :
                    vs_ = [ev_(x, val) for x in t.args]
                    r_ = vs_[0]
                    for x in vs_[1:]:
                        r_ = (r_ & x) if t.op == "&" else (r_ | x)
                    return r_
                if isinstance(t, Op) and t.op == "~" and all(ev_(x, val) in (0, 1) for x in t.args):
                    return 1 - ev_(t.args[0], val)
                raise _NoEval()
            try:
                wit = None
                for val in range(1 << Wl):
                    got = all(bool(ev_(expand_term(w, c0), val)) == p0 for c0, p0 in cj)
                    if got != (val != (1 << Wl) - 1):
                        wit = (val, got)
                        break
                n_fn += 1
                if n_fn <= 2:
                    ob.instance("%s we_error as a function of sink.we[%d:%d]" % (tag, lane[1], lane[2]), {"patterns": 1 << Wl, "differs at": wit})
                if wit is not None and wit[0] != (1 << Wl) - 1:
                    bad_fn.append(("%s: with sink.valid and sink.we[%d:%d] = %s the flag is %s" % (tag, lane[1], lane[2], bin(wit[0]), wit[1]), l.loc))
            except _NoEval:
                pass
        if tag == "from=%d to=%d lanes=%d" % CONFIGS[0]:
            ob.instance("%s: lanes whose granularity flag was evaluated over all byte-enable patterns" % tag, n_fn, nontrivial=n_fn > 0)
        for l in w.drivers("we_error"):
            if "sink.valid" not in (w.guard_keys(l, False) | (litset(conj(l.value)) if not is1(l.value) else set())) and not is0(l.value):
                ob.refute("we_error-valid", "we_error can be raised without sink.valid", l.loc)
    if bad_cmp:
        ob.refute("we_error-compare-constant", "the granularity check compares a byte-enable slice with a constant that is not the all-ones value of "
                  "the slice width, so a write that enables every byte of the lane is still reported as a granularity error (%d lane/config "
                  "instances, e.g. %s)" % (len(bad_cmp), "; ".join(m for m, _ in bad_cmp[:3])), bad_cmp[0][1], [m for m, _ in bad_cmp[:20]])
    if bad_fn:
        ob.refute("we_error-pattern-exempt", "the granularity flag is not raised for every byte-enable pattern that leaves part of an ECC word disabled (%d lane/config instances, "
                  "e.g. %s): such a write is not reported" % (len(bad_fn), "; ".join(m for m, _ in bad_fn[:3])), bad_fn[0][1], [m for m, _ in bad_fn[:20]])
    if bad_asg:
        ob.refute("we-assign-constant", "a byte-enable slice of the code word is assigned a constant that does not enable all its bytes (%d instances, "
                  "e.g. %s)" % (len(bad_asg), "; ".join(m for m, _ in bad_asg[:3])), bad_asg[0][1], [m for m, _ in bad_asg[:20]])


def locality_and_siblings(ctx):
    ob4 = ctx.ob("C15.4", "lane locality of the byte enables: the stored byte enables of ECC word i depend only on the input byte enables of word i (a write that "
                          "enables one word must not rewrite the stored code words of the others)", 4)
    ob5 = ctx.ob("C15.5", "writer and reader halves of the ECC port are built for the same partition: identical (data_width_from, data_width_to, burst_cycles)", 1)
    for (wf_, wt_, bc) in [c_ for c_ in CONFIGS if c_[2] > 1][:3]:
        kw = {"data_width_from": Const(wf_), "data_width_to": Const(wt_), "burst_cycles": Const(bc)}
        w = elab(ctx, ECC, "LiteDRAMNativePortECCW", kwargs=kw)
        tag = "from=%d to=%d lanes=%d" % (wf_, wt_, bc)
        wfl, wtl = wf_ // bc, wt_ // bc                   # bits per lane on both sides
        lane_from = {(i * wfl // 8, (i + 1) * wfl // 8): i for i in range(bc)}
        lane_to = {(i * wtl // 8, (i + 1) * wtl // 8): i for i in range(bc)}
        bf = bt = 1
        n = 0
        for l in w.leaves:
            if l.kind != "assign" or l.target is None:
                continue
            sb = slice_bounds(l.target)
            if sb and sb[0] == "source.we":
                if (sb[1], sb[2]) not in lane_to:
                    continue
                tl = {lane_to[(sb[1], sb[2])]}
            elif key(l.target) == "source.we":
                tl = set(range(bc))
            else:
                continue
            n += 1
            rl = set()
            whole = False
            for t_ in [c0 for c0, _ in l.guards] + ([l.value] if isinstance(l.value, V) else []):
                for st_ in subterms(t_):
                    b_ = slice_bounds(st_)
                    if b_ and b_[0] == "sink.we":
                        rl.add(lane_from.get((b_[1], b_[2]), "?"))
                    elif isinstance(st_, (Obj, Sym)) and key(st_) == "sink.we":
                        # whole-vector use (not as the base of a slice)
                        whole = True
            uses_whole = whole and not any(slice_bounds(st_) and slice_bounds(st_)[0] == "sink.we" for t_ in [c0 for c0, _ in l.guards] for st_ in subterms(t_))
            if n <= 2:
                ob4.instance("%s: %s" % (tag, str(l)[:100]), {"stored lanes written": sorted(tl), "input lanes read": "all" if uses_whole else sorted(map(str, rl))})
            if uses_whole and len(tl) >= 1 and bc > 1:
                ob4.refute("we-not-per-lane:%s" % tag, "%s: `%s` sets stored byte enables from the whole input byte-enable vector: a write enabling one ECC word rewrites the "
                           "code words of all lanes with whatever is on the data bus" % (tag, str(l)[:140]), l.loc)
            elif rl and "?" not in rl and (len(tl) != 1 or rl != tl):
                ob4.refute("we-lane-mix:%s" % tag, "%s: stored byte enables of lane(s) %s depend on the input byte enables of lane(s) %s" % (tag, sorted(tl), sorted(rl)), l.loc)
        if n == 0:
            ob4.unknown("%s: no assignment to the stored byte enables found" % tag)
    v = elab(ctx, ECC, "LiteDRAMNativePortECC", overrides={"port_from.data_width": Const(32), "port_to.data_width": Const(52)},
             kwargs={"burst_cycles": Const(4), "with_error_injection": Const(False), "with_we_error_detection": Const(False)})
    ws = [o for o in v.d.instances.values() if o.cls == "LiteDRAMNativePortECCW" and "." not in o.path]
    rs = [o for o in v.d.instances.values() if o.cls == "LiteDRAMNativePortECCR" and "." not in o.path]
    if ob5.need(len(ws) == 1 and len(rs) == 1, "writer / reader halves of LiteDRAMNativePortECC not found"):
        def cfg(o):
            # effective constructor values: explicit arguments, else the default of the formal parameter
            out = {}
            fm = [n_ for n_ in o.clsv.node.body if isinstance(n_, ast.FunctionDef) and n_.name == "__init__"]
            dfl = {}
            if fm:
                names = [a.arg for a in fm[0].args.args]
                for a_, d_ in zip(names[len(names) - len(fm[0].args.defaults):], fm[0].args.defaults):
                    if isinstance(d_, ast.Constant):
                        dfl[a_] = str(d_.value)
            for k_ in ("data_width_from", "data_width_to", "burst_cycles"):
                out[k_] = key(o.kwargs[k_]) if k_ in o.kwargs else dfl.get(k_)
            return out
        cw, cr = cfg(ws[0]), cfg(rs[0])
        ob5.instance("ECC halves", {"writer": cw, "reader": cr})
        if cw != cr:
            ob5.refute("halves-differ", "the ECC writer is built with %s and the reader with %s: the two halves partition the word differently, so clean data is decoded with "
                       "the wrong code" % (cw, cr), rs[0].loc)


def run(ctx):
    lanes(ctx)
    counters(ctx)
    masks(ctx)
    locality_and_siblings(ctx)
    ctx.assume("the SECDED code itself (litex.soc.cores.ecc ECCEncoder/ECCDecoder) is outside the repository and trusted")
