"""C02 - DRAM command stream obeys the bank state machine (typestate over the bank FSM, refresh handshake, steering)."""
from ..ruleutil import *
from .c03 import BMRoles, MuxRoles, mux_view, classify_event, BM, MUX, REFR

REF_ENC = {"ACT": {"ras"}, "PRE": {"ras", "we"}, "RD": {"cas"}, "WR": {"cas", "we"}, "REF": {"ras", "cas"}, "ZQCS": {"we"}}
MODEL = "litedram.phy.model"


def encodings(ctx):
    ob = ctx.ob("C02.1", "command classes and encodings: every bank-machine path asserting cmd.valid asserts exactly one of is_cmd/is_read/"
                         "is_write with strobes ACT{ras} PRE{ras,we} RD{cas} WR{cas,we}; refresher events are PREA{ras,we,A10} REF{ras,cas} "
                         "ZQCS{we}; the in-repo readers of the encoding (DFITimingsChecker.CMDS, DFIPhaseModel decode) agree", 9)
    R = BMRoles(ctx, ob)
    if not R.ok:
        return
    v = R.v
    cmdk = key(R.cmd)
    for s, role, site, site_strobes in R.all_sites:
        ls = v.fsm_leaves(R.fsm, s)
        if True:
            gsite = litset(v.guard_lits(site, False))
            kinds = {}
            for nm in ("is_cmd", "is_read", "is_write", "we"):
                for l in v.asserted(ls, "%s.%s" % (cmdk, nm)):
                    if R.mine(site, l):
                        kinds.setdefault(nm, []).append(litset(v.guard_lits(l, False)))
            want = REF_ENC[role] if role in ("ACT", "PRE") else None
            if want is not None and site_strobes != want:
                ob.refute("strobes:%s" % s, "state %s (%s by its effect on the row tracking) presents strobes %s, the %s encoding is %s" %
                          (s, role, sorted(site_strobes), role, sorted(want)), site.loc)
            if role == "COL" and not ("cas" in site_strobes and "ras" not in site_strobes):
                ob.refute("strobes:%s" % s, "column command state %s presents strobes %s" % (s, sorted(site_strobes)), site.loc)
            if role in ("ACT", "PRE"):
                ok = "is_cmd" in kinds and any(g <= gsite for g in kinds["is_cmd"]) and "is_read" not in kinds and "is_write" not in kinds
                ob.instance("bank FSM state %s: %s" % (s, role), {"class": sorted(kinds)})
                if not ok:
                    ob.refute("class:%s" % s, "%s in state %s is not marked is_cmd only (marks: %s): the multiplexer would treat it as a data "
                              "command" % (role, s, sorted(kinds)), site.loc)
            else:
                # column site: is_write <=> we, is_read under the complementary guard
                w = kinds.get("is_write", [])
                r = kinds.get("is_read", [])
                we = kinds.get("we", [])
                ok = len(w) == 1 and len(r) == 1 and len(we) == 1 and w[0] == we[0] and "is_cmd" not in kinds
                if ok:
                    dw, dr = w[0] - gsite, r[0] - gsite
                    ok = len(dw) == 1 and len(dr) == 1 and ({"~" + list(dw)[0]} == dr or {list(dw)[0]} == {"~" + list(dr)[0]})
                ob.instance("bank FSM state %s: RD/WR" % s, {"is_write": [sorted(x) for x in w], "is_read": [sorted(x) for x in r]})
                if not ok:
                    ob.refute("class:%s" % s, "column command in state %s: is_read / is_write / we are not complementary on the request's "
                              "direction (%s)" % (s, {k: [sorted(x) for x in val] for k, val in kinds.items()}), site.loc)
    # a state that presents no command must not mark is_read / is_write
    for s in R.fsm.states:
        if s in R.sites:
            continue
        ls = v.fsm_leaves(R.fsm, s)
        for nm in ("is_read", "is_write"):
            for l in v.asserted(ls, "%s.%s" % (cmdk, nm)):
                ob.refute("class:%s:%s" % (s, nm), "state %s marks %s without presenting a command" % (s, nm), l.loc)
    # refresher events
    for cls, names in (("RefreshExecuter", ("PREA", "REF")), ("ZQCSExecuter", ("PREA", "ZQCS"))):
        e = elab(ctx, REFR, cls, kwargs={"cmd": Sym("cmd")})
        tls = [l for l in e.leaves if l.kind == "timeline"]
        if not ob.need(len(tls) == 1, "%s timeline not found" % cls):
            continue
        kinds = [classify_event(st, "cmd")[0] for t, st in tls[0].stmt.events]
        ob.instance("%s events" % cls, kinds)
        if kinds[:2] != list(names):
            ob.refute("events:%s" % cls, "%s issues %s, expected %s then done" % (cls, kinds, list(names)), tls[0].loc)
    # readers
    m = ctx.repo.module(MODEL)
    if not ob.need(m is not None, "phy/model.py vanished"):
        return
    el = Elab(ctx.repo)
    env = el.modenv(MODEL)
    chk = env.vars.get("DFITimingsChecker")
    tbl = el.find_class_const(chk, "CMDS") if chk is not None else None
    if ob.need(isinstance(tbl, ListV), "DFITimingsChecker.CMDS table not found"):
        for ent in tbl.items:
            nm, pat = ent.items[0].v, ent.items[1].v
            cs, ras, cas, we = (c == "0" for c in pat)
            got = {n for n, b in (("ras", ras), ("cas", cas), ("we", we)) if b}
            ob.instance("DFITimingsChecker.CMDS[%s]" % nm, {"pattern": pat, "asserted": sorted(got)})
            if nm in REF_ENC and (got != REF_ENC[nm] or not cs):
                ob.refute("CMDS:%s" % nm, "timing checker decodes %s as %s (cs,ras,cas,we), the controller issues %s with strobes %s" %
                          (nm, pat, nm, sorted(REF_ENC[nm])), (m.rel(), 0))
    pm = elab(ctx, MODEL, "DFIPhaseModel", kwargs={"dfi": Sym("dfi"), "n": Const(0)}, overrides={"dfi.phases": ListV([Sym("phase")])})
    dec = {}
    for l in pm.leaves:
        if l.kind == "assign" and isinstance(l.target, Obj) and str(l.target) in ("activate", "precharge", "write", "read"):
            g = litset(pm.guard_lits(l, False))
            val = lkey(literal(l.value))
            dec[str(l.target)] = g | {val}
    exp = {"activate": {"~P.cs_n", "~P.ras_n", "P.cas_n", "P.we_n"},
           "precharge": {"~P.cs_n", "~P.ras_n", "P.cas_n", "~P.we_n"},
           "write": {"~P.cs_n", "P.ras_n", "~P.cas_n", "~P.we_n"},
           "read": {"~P.cs_n", "P.ras_n", "~P.cas_n", "P.we_n"}}
    # the phase record is whatever the decode reads cs_n from
    pref = None
    for g in dec.values():
        for x in g:
            if x.endswith(".cs_n"):
                pref = x.lstrip("~")[:-len(".cs_n")]
    exp = {k: {x.replace("P.", (pref or "P") + ".") for x in e} for k, e in exp.items()}
    for k, e in exp.items():
        ob.instance("DFIPhaseModel.%s decode" % k, sorted(dec.get(k, [])))
        if k not in dec:
            ob.unknown("DFIPhaseModel.%s decode not found" % k)
        elif dec[k] != e:
            ob.refute("decode:%s" % k, "simulation model decodes %s under %s, the DFI encoding is %s" % (k, sorted(dec[k]), sorted(e)), None)


def typestate(ctx):
    ob = ctx.ob("C02.2", "bank typestate (abstract interpretation of (controller belief row_opened, actual DRAM bank) over the bank FSM "
                         "graph incl. delayed_enter chains): ACT only on a closed bank; RD/WR only under row_opened & row_hit with the bank "
                         "really open and the latched row = the row sent with ACT = the row compared; an accepted ACT/PRE always leaves "
                         "its state; the refresh grant closes the row, presents no command and is left only on ~refresh_req", 8)
    for ap in (True, False):
        R = BMRoles(ctx, ob, {"settings.with_auto_precharge": ap})
        if not R.ok:
            return
        v = R.v
        cmdk = key(R.cmd)
        ready = cmdk + ".ready"
        tag = "auto_precharge=%s" % ap
        nodes = list(R.fsm.states) + [n for n in R.delayed if n not in R.fsm.states]
        # accepted ACT / PRE must leave the state
        for s, role, site, _st in R.all_sites:
            if role == "COL":
                continue
            if True:
                gs = v.guard_keys(site, False)
                outs = [l for (src, d, l) in R.edges if src == s]
                ok = any(v.guard_keys(l, False) == gs | {ready} for l in outs)
                ob.instance("%s: accepted %s leaves state %s" % (tag, role, s), {"site": sorted(gs), "exits": [sorted(v.guard_keys(l, False)) for l in outs]})
                if not ok:
                    ob.refute("stay:%s" % s, "an accepted %s does not leave state %s (exits %s): the command would be repeated / the "
                              "tracking diverges" % (role, s, [sorted(v.guard_keys(l, False)) for l in outs]), site.loc)
        # effects
        close_states = {s: v.asserted(v.fsm_leaves(R.fsm, s), R.close) for s in R.fsm.states}
        open_states = {s: v.asserted(v.fsm_leaves(R.fsm, s), R.open) for s in R.fsm.states}
        gnt_sites = {s: v.asserted(v.fsm_leaves(R.fsm, s), R.refresh_gnt) for s in R.fsm.states}
        gnt_sites = {s: ls_ for s, ls_ in gnt_sites.items() if ls_}
        gnt_states = set(gnt_sites)
        rrk = key(R.refresh_req)

        def forced_exit(og, exits):
            if any(e_ <= og for e_ in exits):
                return True
            ext = [e_ - og for e_ in exits if og <= e_ and len(e_ - og) == 1]
            lits_ = {list(x_)[0] for x_ in ext}
            return any((("~" + l_) in lits_) for l_ in lits_ if not l_.startswith("~"))

        def contradict(g1, g2):
            return any((("~" + x) in g2) or (x.startswith("~") and x[1:] in g2) for x in g1)
        # a hold state presents no command and is left only when the refresher releases its request
        hold = {s for s in R.fsm.states if not v.asserted(v.fsm_leaves(R.fsm, s), cmdk + ".valid")
                and [1 for (src, d, l) in R.edges if src == s] and all(("~" + rrk) in v.guard_keys(l, False) for (src, d, l) in R.edges if src == s)}
        a10 = None
        for l in v.drivers(cmdk + ".a"):
            for t in subterms(l.value):
                if isinstance(t, Op) and t.op == "<<" and isinstance(t.args[1], Const) and t.args[1].v == 10:
                    a10 = t.args[0]
        succ = {}
        for s, d, l in R.edges:
            succ.setdefault(s, []).append((d, v.guard_keys(l, False), l))
        for nm, (t, dl, loc) in R.delayed.items():
            succ.setdefault(nm, []).append((t, set(), None))

        def step(s, E, b, a, selfloop):
            # belief
            bs = {b}
            cl = close_states.get(s) or []
            op = open_states.get(s) or []
            if any(not l.guards for l in cl):
                bs = {0}
            elif cl:
                cgs = [v.guard_keys(l, False) for l in cl]
                exits = [e_ for (d_, e_, _l) in succ.get(s, [])]
                if selfloop:
                    # a conditional close whose condition also forces an exit never fires while the FSM stays in the state
                    bs = {b} if all(forced_exit(cg, exits) for cg in cgs) else {b, 0}
                elif any(cg <= E for cg in cgs):
                    bs = {0}
                elif any(not contradict(cg, E) for cg in cgs):
                    bs = {b, 0}
                else:
                    bs = {b}
            elif op:
                ogs = [v.guard_keys(l, False) for l in op]
                exits = [e_ for (d_, e_, _l) in succ.get(s, [])]
                if (not selfloop) and any(og <= E for og in ogs):
                    bs = {1}
                elif selfloop and all(forced_exit(og, exits) for og in ogs):
                    bs = {b}          # whenever the open strobe fires the FSM leaves the state (accepted or not)
                elif (not selfloop) and all(contradict(og, E) for og in ogs):
                    bs = {b}
                else:
                    bs = {b, 1}
            # actual
            an = a
            if not selfloop:
                role = R.sites.get(s)
                hit = [r_ for (s_, r_, x, _st) in R.all_sites if s_ == s and r_ in ("ACT", "PRE") and ready in E and v.guard_keys(x, False) <= E]
                if hit:
                    an = 1 if hit[0] == "ACT" else 0
                elif role == "COL" and a10 is not None and key(a10) in E and ready in E:
                    an = 0
                elif s in gnt_sites:
                    gs_ = [v.guard_keys(x, False) for x in gnt_sites[s]]
                    if s in hold and ("~" + rrk) in E:
                        an = 0              # protocol: the refresher releases its request only after every bank machine has granted
                    elif any(g_ <= E for g_ in gs_):
                        an = 0
                    elif any(not contradict(g_, E) for g_ in gs_):
                        return {(x, y) for x in bs for y in (a, 0)}     # the grant may or may not have been given on this edge
            return {(x, an) for x in bs}

        reach = {n: set() for n in nodes}
        reach[R.fsm.reset_state].add((0, 0))
        changed = True
        it = 0
        while changed and it < 100:
            changed = False
            it += 1
            for s in nodes:
                for (b, a) in list(reach[s]):
                    for ns in step(s, set(), b, a, True):
                        if ns not in reach[s]:
                            reach[s].add(ns); changed = True
                    for d, E, l in succ.get(s, []):
                        if d not in reach:
                            ob.unknown("transition to unknown state %s" % d)
                            return
                        # an edge that requires belief/~belief filters the source pairs
                        bk = key(R.belief)
                        if bk in E and b == 0:
                            continue
                        if "~" + bk in E and b == 1:
                            continue
                        for ns in step(s, E, b, a, False):
                            if ns not in reach[d]:
                                reach[d].add(ns); changed = True
        ctx.stat("typestate_pairs", sum(len(x) for x in reach.values()))
        for s_, r_, x, _st in R.extra_sites:
            if r_ == "ACT":
                gx = v.guard_keys(x, False)
                bk = key(R.belief)
                prs = sorted((b, a) for b, a in reach[s_] if not (("~" + bk) in gx and b == 1) and not (bk in gx and b == 0))
                ob.instance("%s: additional ACT site in state %s reachable (belief, actual) pairs" % (tag, s_), prs)
                if any(a == 1 for b, a in prs):
                    ob.refute("act-open:%s" % s_, "ACT can be presented in state %s (under %s) while the bank is still open (reachable (belief,actual) pairs %s)" %
                              (s_, sorted(gx), prs), x.loc)
        for s, role in R.sites.items():
            pairs = sorted(reach[s])
            if role == "ACT":
                ob.instance("%s: ACT site %s reachable (belief, actual) pairs" % (tag, s), pairs)
                if any(a == 1 for b, a in pairs):
                    ob.refute("act-open:%s" % s, "ACT can be presented in state %s while the bank is still open (reachable (belief,actual) "
                              "pairs %s)" % (s, pairs), R.site_leaves[s][0].loc)
            if role == "COL":
                g = v.guard_keys(R.site_leaves[s][0], False)
                ob.instance("%s: RD/WR site %s" % (tag, s), {"guards": sorted(g), "pairs": pairs})
                if key(R.belief) not in g:
                    ob.refute("col-no-belief:%s" % s, "column command in state %s is not conditioned on the row-opened register" % s, R.site_leaves[s][0].loc)
                if any(b == 1 and a == 0 for b, a in pairs):
                    ob.refute("col-closed:%s" % s, "RD/WR can be issued in state %s while the controller believes the row open but the bank "
                              "is closed (pairs %s)" % (s, pairs), R.site_leaves[s][0].loc)
        # row terms
        rowreg = None
        for l in v.leaves:
            if l.kind == "assign" and l.domain == "sync" and l.inst == "" and l.target is not R.belief and R.open in litset(v.guard_lits(l, False)):
                rowreg = l
        sel_row = [l for l in v.drivers(cmdk + ".a") if any(p for a, p in v.guard_lits(l, False))]
        hit = None
        col = [s for s, r in R.sites.items() if r == "COL"][0]
        for a, p in v.guard_lits(R.site_leaves[col][0], False):
            dv = v.single_comb_def(a) if not (isinstance(a, Op) and a.op == "==") else a
            if p and dv is not None and isinstance(dv, Op) and dv.op == "==" and rowreg is not None and any(x is rowreg.target for x in dv.args):
                hit = [x for x in dv.args if x is not rowreg.target][0]
        if ob.need(rowreg is not None and len(sel_row) == 1 and hit is not None, "%s: row register / row address select / row-hit compare not identified" % tag):
            act_state = [s for s, r in R.sites.items() if r == "ACT"][0]
            selsig = [a for a, p in v.guard_lits(sel_row[0], False) if p][0]
            sel_in_act = bool(v.asserted(v.fsm_leaves(R.fsm, act_state), selsig))
            terms = {"latched": key(rowreg.value), "sent": key(sel_row[0].value), "compared": key(hit)}
            ob.instance("%s: row terms" % tag, terms)
            if len(set(terms.values())) != 1:
                ob.refute("row-terms", "the row latched on ACT (%s), the row address sent with ACT (%s) and the row compared for a hit (%s) "
                          "are not the same term" % (terms["latched"], terms["sent"], terms["compared"]), rowreg.loc, terms)
            if not sel_in_act:
                ob.refute("row-sel", "the ACT state does not select the row address onto cmd.a", sel_row[0].loc)
            if "cmd_buffer.source.addr" not in terms["latched"]:
                ctx.assume("row term is not taken from the queue head `cmd_buffer.source.addr` (renamed?): %s" % terms["latched"])
        # refresh grant sites: while the grant is given no command is presented, and after it nothing happens until the refresher releases its request
        for s, sites in sorted(gnt_sites.items()):
            ls = v.fsm_leaves(R.fsm, s)
            outs = [(d, v.guard_keys(l, False), l) for (src, d, l) in R.edges if src == s]
            for site in sites:
                g = v.guard_keys(site, False)
                cmds = [c for c in v.asserted(ls, cmdk + ".valid") if not contradict(v.guard_keys(c, False), g)]
                facts = {"grant under": sorted(g), "hold state": s in hold, "commands compatible with the grant": [str(c)[:80] for c in cmds],
                         "exits": [(d, sorted(e)) for d, e, _ in outs]}
                ob.instance("%s: refresh grant in state %s" % (tag, s), facts)
                if cmds:
                    ob.refute("refresh-cmd:%s" % s, "state %s can present a command (%s) in the cycle in which it grants the refresh (grant under %s)" %
                              (s, str(cmds[0])[:100], sorted(g)), site.loc)
                if s in hold:
                    continue
                # not a hold state: the grant must be followed at once by a move into a hold state (or by the release of the request)
                comp = [(d, e, l) for d, e, l in outs if not contradict(e, g)]
                forced = [(d, e, l) for d, e, l in comp if e <= g]
                if not forced:
                    ob.refute("refresh-exit:%s" % s, "state %s grants the refresh under %s but no transition is forced in that cycle (exits %s): the bank machine can go on "
                              "issuing commands while the refresher runs" % (s, sorted(g), [(d, sorted(e)) for d, e, _ in outs]), site.loc)
                for d, e, l in comp:
                    if ("~" + rrk) in e or d in hold:
                        continue
                    ob.refute("refresh-exit:%s" % s, "after granting the refresh in state %s the FSM can move to %s (under %s), which is not a state that waits for the "
                              "refresher to release its request" % (s, d, sorted(e)), l.loc)
        # a hold state that grants is entered only under the refresh request
        for (src, d, l) in R.edges:
            if d in gnt_states and d in hold and rrk not in v.guard_keys(l, False):
                ob.refute("refresh-entry:%s" % src, "refresh state entered from %s without refresh_req" % src, l.loc)
        if not (gnt_states & hold):
            ob.refute("refresh-exit:none", "no state both grants the refresh and waits for the request to be released: after the refresh sequence the bank machines' "
                      "view of their rows is not re-synchronised", None)


def auto_precharge(ctx):
    ob = ctx.ob("C02.3", "auto-precharge consistency: A10 of a column command is the auto_precharge signal; the FSM leaves for a row-closing "
                         "state on exactly cmd.ready & auto_precharge; auto_precharge is forced low while the row is being closed so an "
                         "explicit PRE (which reuses the column address path) never carries A10=1 (precharge-all)", 3)
    R = BMRoles(ctx, ob, {"settings.with_auto_precharge": True})
    if not R.ok:
        return
    v = R.v
    cmdk = key(R.cmd)
    a10 = None
    col_leaf = None
    for l in v.drivers(cmdk + ".a"):
        for t in subterms(l.value):
            if isinstance(t, Op) and t.op == "<<" and isinstance(t.args[1], Const) and t.args[1].v == 10:
                a10, col_leaf = t.args[0], l
    if not ob.need(a10 is not None, "A10 term (x << 10) not found in the column address"):
        return
    ob.instance("A10 term", {"a10": key(a10), "address": key(col_leaf.value)})
    col = [s for s, r in R.sites.items() if r == "COL"][0]
    outs = [(d, l) for (src, d, l) in R.edges if src == col and key(a10) in v.guard_keys(l, False)]
    if ob.need(len(outs) == 1, "expected one edge out of the column state conditioned on the A10 signal, found %d" % len(outs)):
        d, l = outs[0]
        g = v.guard_keys(l, False)
        site = v.guard_keys(R.site_leaves[col][0], False)
        ob.instance("auto-precharge edge %s->%s" % (col, d), sorted(g))
        if g != site | {cmdk + ".ready", key(a10)}:
            ob.refute("ap-edge", "the edge to %s is taken under %s, expected column site & cmd.ready & %s" % (d, sorted(g), key(a10)), l.loc)
        if d not in R.closing_states:
            ob.refute("ap-target", "after a column command with A10 the FSM goes to %s which does not clear the row-opened register" % d, l.loc)
    ds = v.drivers(a10)
    if not ob.need(bool(ds), "no driver of the A10 signal in the auto-precharge configuration"):
        return
    for l in ds:
        lits = litset(v.guard_lits(l, False)) | litset(conj(l.value))
        ob.instance("driver of %s" % key(a10), sorted(lits))
        if "~" + R.close not in lits:
            ob.refute("ap-while-closing", "auto_precharge can be 1 while the row is being closed (%s): an explicit PRECHARGE would be sent with "
                      "A10=1 and close every bank of the rank behind the other bank machines' backs" % l, l.loc)
    # every PRE-presenting state asserts the close strobe unconditionally (so A10 is low there)
    for s, r in R.sites.items():
        if r == "PRE":
            cl = v.asserted(v.fsm_leaves(R.fsm, s), R.close)
            if not any(not c.guards for c in cl):
                ob.refute("pre-without-close:%s" % s, "state %s presents PRE without asserting the close strobe: A10 not forced low" % s, R.site_leaves[s][0].loc)
    # lookahead comparison uses the two queue stages
    v0 = elab(ctx, *BM).variant_map({"settings.with_auto_precharge": False})
    if v0.drivers(a10):
        ob.refute("ap-disabled", "auto_precharge is driven although settings.with_auto_precharge is off", v0.drivers(a10)[0].loc)


def refresh_handshake(ctx):
    ob = ctx.ob("C02.4", "refresh handshake: refresh_req of every bank machine is refresher.cmd.valid; go_to_refresh is the AND over ALL "
                         "refresh_gnt; every edge into the multiplexer state that selects STEER_REFRESH / acknowledges the refresher is "
                         "guarded by go_to_refresh, and no other state does either", 4)
    for nbm in (2, 3):
        v = elab(ctx, *MUX, kwargs={"bank_machines": ListV([Sym("bm%d" % i) for i in range(nbm)])},
                 overrides={"settings.phy.nphases": Const(2), "dfi.phases": ListV([Sym("dfi.p0"), Sym("dfi.p1")]),
                            "settings.phy.rdphase": Const(0), "settings.phy.wrphase": Const(1)},
                 hasattrs={"refresher.cmd.valid": True, "nop.valid": False})
        for i in range(nbm):
            ds = v.drivers("bm%d.refresh_req" % i)
            ok = len(ds) == 1 and not ds[0].guards and key(ds[0].value) == "refresher.cmd.valid"
            ob.instance("nbm=%d bm%d.refresh_req" % (nbm, i), [str(d) for d in ds])
            if not ok:
                ob.refute("refresh_req:bm%d/%d" % (i, nbm), "bank machine %d of %d does not receive refresher.cmd.valid as refresh_req (%s): it "
                          "would keep issuing commands during a refresh" % (i, nbm, [str(d) for d in ds]), ds[0].loc if ds else None)
        f = v.fsms("")[0]
        ref_states = set()
        for s in f.states:
            for l in v.fsm_leaves(f, s):
                if l.kind == "assign" and ((key(l.target) == "refresher.cmd.ready" and not is0(l.value)) or
                                           (str(l.target).startswith("steerer.sel") and isinstance(l.value, Const) and l.value.v == 3)):
                    ref_states.add(s)
        if not ob.need(len(ref_states) >= 1, "no multiplexer state serves the refresher"):
            continue
        gnts = {"bm%d.refresh_gnt" % i for i in range(nbm)}
        n_in = 0
        for rs in sorted(ref_states):
            for s in f.states:
                for l in v.fsm_leaves(f, s):
                    if l.kind == "next" and isinstance(l.value, Const) and l.value.v == rs and s != rs:
                        n_in += 1
                        g = v.guard_keys(l)
                        ob.instance("nbm=%d edge %s->%s" % (nbm, s, rs), sorted(g))
                        if not gnts <= g:
                            ob.refute("enter-refresh:%s->%s/%d" % (s, rs, nbm), "multiplexer state %s serves the refresher (acknowledges it / steers "
                                      "STEER_REFRESH) but is entered from %s without the refresh grant of %s: precharge-all/refresh could hit a "
                                      "bank that still has a row open or a command in flight" % (rs, s, sorted(gnts - g)), l.loc)
            if rs == f.reset_state:
                ob.refute("refresh-at-reset", "the reset state %s serves the refresher without any grant" % rs, f.acts[rs][0].loc)
        rs = sorted(ref_states)[0]
        ob.need(n_in >= 2, "fewer than two edges into the refresh state")
        for nm, (t, dl, loc) in fsm_graph(v, f)[1].items():
            if t in ref_states:
                ob.refute("delayed-into-refresh", "delayed_enter chain %s ends in the refresh state without checking the grants" % nm, loc)
        # ready must also be consumed by the steerer: refresher.cmd drives phase of sel[..]==3
        # leaving the refresh state only on refresher.cmd.last
        outs = [l for r_ in ref_states for l in v.fsm_leaves(f, r_) if l.kind == "next"]
        for l in outs:
            gk = v.guard_keys(l)
            if "refresher.cmd.last" not in gk:
                if any("refresher." in a for a in gk):
                    ob.unknown("nbanks=%d: the multiplexer leaves the refresh state under %s, another handshake of the refresher than cmd.last: whether that "
                               "marks the end of the sequence is the refresher's business and not decided here" % (nbm, sorted(gk)))
                else:
                    ob.refute("leave-refresh/%d" % nbm, "multiplexer leaves the refresh state without refresher.cmd.last (%s)" % l, l.loc)


def steering(ctx):
    ob = ctx.ob("C02.5", "steering: one select per phase; in read (write) mode the request chooser sits on rdphase (wrphase) and the command "
                         "chooser on (phase-1) mod nphases, distinct for nphases>1; every strobe and rddata_en/wrdata_en is gated by "
                         "valid&ready&field; the command chooser never wants reads/writes; idle/turnaround states steer NOPs", 10)
    combos = [(1, 0, 0), (2, 0, 1), (4, 2, 3)] if ctx.tier == "quick" else \
        [(n, r, w) for n in (1, 2, 4) for r in range(n) for w in range(n)]
    for nph, rd, wr in combos:
        v = elab(ctx, *MUX, kwargs={"bank_machines": ListV([Sym("bm0"), Sym("bm1")])},
                 overrides={"settings.phy.nphases": Const(nph), "dfi.phases": ListV([Sym("dfi.p%d" % i) for i in range(nph)]),
                            "settings.phy.rdphase": Const(rd), "settings.phy.wrphase": Const(wr)},
                 hasattrs={"refresher.cmd.valid": True, "nop.valid": False})
        tag = "nphases=%d rd=%d wr=%d" % (nph, rd, wr)
        f = v.fsms("")[0]
        ch = v.instances_of("_CommandChooser")
        modes = {}
        for s in f.states:
            for l in v.fsm_leaves(f, s):
                if l.kind == "assign" and is1(l.value):
                    for c in ch:
                        if l.target is c.attrs.get("want_reads"):
                            modes[s] = ("read", rd, c)
                        if l.target is c.attrs.get("want_writes"):
                            modes[s] = ("write", wr, c)
        if not ob.need(len(modes) == 2, "%s: read/write mode states not found" % tag):
            continue
        for s in f.states:
            final = {}
            for l in v.fsm_leaves(f, s):
                if l.kind == "assign" and str(l.target).startswith("steerer.sel[") and not l.guards:
                    final[str(l.target)] = l.value.v if isinstance(l.value, Const) else str(l.value)
                elif l.kind == "assign" and str(l.target).startswith("steerer.sel") and l.guards:
                    ob.unknown("%s: conditional steering assignment %s" % (tag, l))
            if s in modes:
                mode, ph, reqc = modes[s]
                exp = {"steerer.sel[%d]" % i: 0 for i in range(nph)}
                exp["steerer.sel[%d]" % ph] = 2
                exp["steerer.sel[%d]" % ((ph - 1) % nph)] = 1     # later assignment wins when nphases == 1
                ob.instance("%s state %s (%s mode)" % (tag, s, mode), final)
                if final != exp:
                    ob.refute("sel:%s:%s" % (tag, s), "in %s mode the per-phase selects are %s, expected request chooser on phase %d and "
                              "command chooser on phase %d, NOP elsewhere (%s)" % (mode, final, ph, (ph - 1) % nph, exp), f.acts[s][0].loc)
            else:
                bad = {k: x for k, x in final.items() if x not in (0, 3)}
                if bad:
                    ob.refute("sel:%s:%s" % (tag, s), "state %s steers %s although no chooser is enabled there" % (s, bad), f.acts[s][0].loc)
        # accept implies steered: a source whose `ready` can be high in a state must sit on some phase in that state,
        # otherwise its command is acknowledged to the bank machine but never reaches the DFI bus
        st_inst = [o for o in v.instances_of("_Steerer")]
        if ob.need(len(st_inst) == 1 and st_inst[0].args and isinstance(st_inst[0].args[0], ListV), "%s: steerer command list not found" % tag):
            srcs = [key(x) for x in st_inst[0].args[0].items]
            for idx, src in enumerate(srcs):
                if idx == 0:
                    continue
                for l in v.drivers(src + ".ready"):
                    if is0(l.value):
                        continue
                    states = [l.state] if l.fsm is not None else list(f.states) + list(fsm_graph(v, f)[1])
                    for stt in states:
                        sels = set()
                        for m in v.fsm_leaves(f, stt):
                            if m.kind == "assign" and str(m.target).startswith("steerer.sel[") and not m.guards and isinstance(m.value, Const):
                                sels.add(m.value.v)
                        # later unconditional assignments win; collect the final value per select
                        final = {}
                        for m in v.fsm_leaves(f, stt):
                            if m.kind == "assign" and str(m.target).startswith("steerer.sel[") and isinstance(m.value, Const):
                                final[str(m.target)] = m.value.v
                        aliases = {i for i, x in enumerate(srcs) if x == src}
                        if not (set(final.values()) & aliases):
                            ob.refute("accepted-not-steered:%s:%s:%s" % (tag, stt, src), "in state %s %s.ready can be asserted (%s) but no phase "
                                      "selects that source (selects %s): an accepted command would never reach the DFI bus while the bank "
                                      "machine believes it was issued" % (stt, src, l, final), l.loc)
                ob.instance("%s accept-implies-steered %s" % (tag, src), len(v.drivers(src + ".ready")))
        # chooser wants
        if nph > 1:
            cmdch = [c for c in ch if c is not list(modes.values())[0][2]][0]
            for w in ("want_reads", "want_writes"):
                ds = v.drivers(cmdch.attrs[w])
                if ds:
                    ob.refute("cmdch-%s:%s" % (w, tag), "the command chooser is given %s: a read/write could be issued on the command phase "
                              "without its data strobes" % w, ds[0].loc)
            reqc = list(modes.values())[0][2]
            ds = [d for d in v.drivers(reqc.attrs["want_cmds"]) if not is0(d.value)]
            if ds:
                ob.refute("reqch-want_cmds:%s" % tag, "the request chooser is given want_cmds although nphases > 1", ds[0].loc)
        # steerer strobes
        st_i = v.instances_of("_Steerer")
        if st_i and st_i[0].args and isinstance(st_i[0].args[0], ListV) and len(st_i[0].args[0].items) == 4:
            cmds = [None] + [key(x) for x in st_i[0].args[0].items[1:]]
        else:
            ob.unknown("%s: steerer command list not found" % tag)
            continue
        for i in range(nph):
            for field, tgt, inv in (("cas", "cas_n", True), ("ras", "ras_n", True), ("we", "we_n", True), ("is_read", "rddata_en", False),
                                    ("is_write", "wrdata_en", False)):
                ds = v.drivers("dfi.p%d.%s" % (i, tgt))
                if not ob.need(len(ds) == 1 and ds[0].domain == "sync" and not ds[0].guards, "%s: dfi.p%d.%s not a single registered assignment" % (tag, i, tgt)):
                    continue
                val = ds[0].value
                if inv:
                    a, p = literal(val)
                    if p:
                        ob.refute("strobe-pol:%s:p%d.%s" % (tag, i, tgt), "dfi.p%d.%s is not the negation of the selected strobe" % (i, tgt), ds[0].loc)
                    val = a
                if not (isinstance(val, Op) and val.op == "select" and key(val.args[0]) == "steerer.sel[%d]" % i and len(val.args) == 5):
                    ob.unknown("%s: dfi.p%d.%s is not select(sel[%d], 4 sources): %s" % (tag, i, tgt, i, key(val)))
                    continue
                okk = is0(val.args[1])
                for c, src in zip(cmds[1:], val.args[2:]):
                    okk = okk and litset(conj(src)) == {c + ".valid", c + ".ready", c + "." + field}
                if i == 0:
                    ob.instance("%s dfi.p%d.%s" % (tag, i, tgt), key(val))
                if not okk:
                    ob.refute("strobe:%s:p%d.%s" % (tag, i, tgt), "dfi.p%d.%s = %s: expected 0 for NOP and valid&ready&%s of the command / "
                              "request / refresher sources in that order" % (i, tgt, key(val), field), ds[0].loc)


def steering_signal_phases(ctx):
    ob = ctx.ob("C02.7", "steering with run-time phases (rdphase / wrphase are PHY CSR signals): in read mode the command chooser sits on the phase equal "
                         "to a signal defined as rdphase - 1, in write mode on a signal defined as wrphase - 1, and the request chooser on rdphase / wrphase "
                         "themselves (each mode uses its own phase pair)", 2)
    rd, wr = Obj("Signal", (Const(2),)), Obj("Signal", (Const(2),))
    rd.name, wr.name = "rdphase_csr", "wrphase_csr"
    rd.provisional = wr.provisional = False
    v = elab(ctx, *MUX, kwargs={"bank_machines": ListV([Sym("bm0"), Sym("bm1")])},
             overrides={"settings.phy.nphases": Const(4), "dfi.phases": ListV([Sym("dfi.p%d" % i) for i in range(4)]),
                        "settings.phy.rdphase": rd, "settings.phy.wrphase": wr},
             hasattrs={"refresher.cmd.valid": True, "nop.valid": False})
    f = v.fsms("")[0]
    ch = v.instances_of("_CommandChooser")
    modes = {}
    for s_ in f.states:
        for l in v.fsm_leaves(f, s_):
            if l.kind == "assign" and is1(l.value):
                for c in ch:
                    if l.target is c.attrs.get("want_reads"):
                        modes[s_] = ("read", rd)
                    if l.target is c.attrs.get("want_writes"):
                        modes[s_] = ("write", wr)
    if not ob.need(len(modes) == 2, "read/write mode states not found"):
        return
    for s_, (mode, ph) in modes.items():
        req_sigs, cmd_sigs = set(), set()
        for l in v.fsm_leaves(f, s_):
            if l.kind == "assign" and str(l.target).startswith("steerer.sel[") and isinstance(l.value, Const) and l.value.v in (1, 2):
                for c, p in l.guards:
                    if p and isinstance(c, Op) and c.op == "==":
                        sig = [a for a in c.args if not isinstance(a, Const)]
                        if sig:
                            (req_sigs if l.value.v == 2 else cmd_sigs).add(key(sig[0]))
        cmd_defs = {}
        for cs in cmd_sigs:
            dv = v.single_comb_def(Sym(cs))
            # either a named wire defined as phase - 1, or that expression itself in the comparison
            cmd_defs[cs] = key(dv) if dv is not None else cs
        ob.instance("%s mode (state %s)" % (mode, s_), {"request phase": sorted(req_sigs), "command phase": cmd_defs})
        want = key(Op("-", (ph, Const(1))))
        if req_sigs != {key(ph)}:
            ob.refute("req-phase:%s" % mode, "in %s mode the request chooser is steered by %s, expected the %s phase signal" % (mode, sorted(req_sigs), mode), f.acts[s_][0].loc)
        if len(cmd_defs) != 1 or list(cmd_defs.values())[0] != want:
            ob.refute("cmd-phase:%s" % mode, "in %s mode the command chooser is steered by %s, expected a signal defined as %s: with the other mode's phase the "
                      "two choosers can land on the same DFI phase and an accepted request never reaches the bus" % (mode, cmd_defs, want), f.acts[s_][0].loc)


def shared_a10(ctx):
    ob = ctx.ob("C02.8", "the column slicer never drives address bit 10, so A10 of a column command is exactly the auto-precharge flag (shared with C06.4)", 10)
    from ..report import Ctx
    from . import c06
    sub = Ctx("C06", ctx.tier, ctx.seed, ctx.repo)
    c06.run(sub)
    for o in sub.obligations:
        if o.oid == "C06.4":
            for i in o.instances[:200]:
                ob.instance("C06.4: " + i["what"], i["detail"] or "ok")
            for r in o.refutations:
                ob.refute(r["key"], r["msg"], r.get("loc"))
            for u in o.unknowns:
                ob.unknown(u)


def rank_decode(ctx):
    ob = ctx.ob("C02.6", "rank decode: cs_n is decoded from the top rankbits of cmd.ba and the DFI bank from the remaining bits (partition of "
                         "ba); all ranks are selected for STEER_REFRESH on the phase on which the multiplexer issues the refresher's commands", 2)
    for nph in (2, 4):     # 4 phases: the write-mode command phase is not phase 0 (rdphase 2 / wrphase 3), so "refresh on the command phase" differs from "on phase 0"
        _rank_decode_n(ctx, ob, nph)


def _rank_decode_n(ctx, ob, nph):
    v = mux_view(ctx, nph)
    multi = v.variant_map({"log2_int(len(dfi.p%d.cs_n))" % j: True for j in range(nph)})
    f = v.fsms("")[0]
    ref_phases = set()
    for s in f.states:
        for l in v.fsm_leaves(f, s):
            if l.kind == "assign" and str(l.target).startswith("steerer.sel[") and isinstance(l.value, Const) and l.value.v == 3:
                ref_phases.add(int(str(l.target)[len("steerer.sel["):-1]))
    if not ob.need(len(ref_phases) >= 1, "nphases=%d: phase on which STEER_REFRESH is selected not found" % nph):
        return
    # selector values the multiplexer can put on each phase (a value that is never assigned there is unreachable and not part of the specification)
    reach = {j: {0} for j in range(nph)}
    for l in v.leaves:
        if l.kind == "assign" and str(l.target).startswith("steerer.sel[") and l.inst == "":
            j = int(str(l.target)[len("steerer.sel["):-1])
            if isinstance(l.value, Const) and isinstance(l.value.v, int):
                reach[j].add(l.value.v)
            else:
                reach[j] |= {0, 1, 2, 3}
    # truth table of the extracted steerer (concrete evaluation of the HIR, lsa/ceval.py): 2 ranks x 4 banks, every selector value, every bank address of the
    # selected command, every non-empty strobe combination.  Specification: a command that issues on phase i selects exactly its rank (cs_n = ~onehot(rank)),
    # or every rank when it comes from the refresher on the phase the multiplexer steers refresh to, and phase.bank carries the bank bits.  Phases that issue
    # nothing are unconstrained (NOP and DESELECT are both harmless).
    from ..ceval import CEval
    from ..bits import Unresolved
    import itertools
    total_rows = 0
    for i in range(nph):
        bank = multi.drivers("dfi.p%d.bank" % i)
        srcs = []
        if len(bank) == 1 and isinstance(bank[0].value, Op) and bank[0].value.op == "select":
            for x in bank[0].value.args[1:]:
                names = sorted({str(y)[:-len(".ba")] for y in subterms(x) if isinstance(y, (Sym, Obj)) and str(y).endswith(".ba")})
                srcs.append(names[0] if len(names) == 1 else None)
        if not ob.need(len(srcs) == 4 and all(srcs), "nphases=%d " % nph + "phase %d: the four command sources of the steerer not identified from the bank select (%s)" % (i, srcs)):
            continue
        cfg = {"len(dfi.p%d.cs_n)" % j: 2 for j in range(nph)}
        cfg.update({"len(%s.ba)" % c_: 3 for c_ in srcs})
        cfg.update({"len(dfi.p%d.bank)" % j: 3 for j in range(nph)})     # the DFI bank field is as wide as the controller's bank address
        nchk = 0
        bad = None
        try:
            # the all-zero NOP record: a Record built locally in the multiplexer that nothing drives
            idle = [n_ for n_, c_ in enumerate(srcs) if any(str(o_) == c_ and o_.cls == "Record" for o_ in multi.d.objs)
                    and not any(multi.drivers(c_ + "." + f_) for f_ in ("ras", "cas", "we", "valid"))]
            for k_, b_ in itertools.product(range(4), range(8)):
                if k_ in idle or k_ not in reach[i]:
                    continue
                for ras, cas, we in ((1, 0, 0), (0, 1, 0), (0, 0, 1), (1, 1, 0), (1, 0, 1), (0, 1, 1), (1, 1, 1)):
                    env = {"steerer.sel[%d]" % j: (k_ if j == i else 0) for j in range(nph)}
                    for n_, c_ in enumerate(srcs):
                        sel_ = n_ == k_
                        env.update({c_ + ".ba": (b_ if sel_ else (b_ ^ 5)), c_ + ".valid": 1, c_ + ".ready": 1, c_ + ".ras": ras if sel_ else 0,
                                    c_ + ".cas": cas if sel_ else 0, c_ + ".we": we if sel_ else 0, c_ + ".is_read": 0, c_ + ".is_write": 0, c_ + ".is_cmd": 1})
                    ce = CEval(multi, env, cfg)
                    got_cs = ce.nextval(Sym("dfi.p%d.cs_n" % i)) & 3
                    got_bank = ce.nextval(Sym("dfi.p%d.bank" % i)) & 3
                    exp_cs = 0 if (k_ == 3 and i in ref_phases) else (~(1 << (b_ >> 2)) & 3)
                    nchk += 1
                    if got_cs != exp_cs or got_bank != (b_ & 3):
                        bad = bad or (k_, b_, (ras, cas, we), got_cs, exp_cs, got_bank)
        except Unresolved as e:
            ob.unknown("phase %d: steerer not evaluable (%s)" % (i, e))
            continue
        total_rows += nchk
        if nchk == 0:
            continue        # a phase the multiplexer never steers anything to
        ob.instance("nphases=%d phase %d chip-select / bank truth table" % (nph, i), {"command sources": srcs, "rows checked": nchk, "refresh phases": sorted(ref_phases), "nphases": nph}, nontrivial=True)
        if bad:
            k_, b_, st_, got_cs, exp_cs, got_bank = bad
            what = ("all ranks must be selected for a refresher command (ras,cas,we)=%s on phase %d" % (st_, i)) if exp_cs == 0 else \
                ("rank %d must be selected and bank %d driven" % (b_ >> 2, b_ & 3))
            ob.refute(("all-ranks:p%d" % i if exp_cs == 0 else "rank-split:p%d" % i) + ("" if nph == 2 else "/%d" % nph), "phase %d, selector %d (%s), bank address %s, strobes %s: cs_n becomes %s and bank %d, but %s "
                      "(expected cs_n = %s): the command reaches the wrong rank / only one rank is precharged or refreshed" %
                      (i, k_, srcs[k_], bin(b_), st_, format(got_cs, "02b"), got_bank, what, format(exp_cs, "02b")), bank[0].loc)
    ob.need(total_rows >= 2 * 8 * 7, "nphases=%d: only %d rows of the steerer truth table could be formed" % (nph, total_rows))


def run(ctx):
    encodings(ctx)
    typestate(ctx)
    auto_precharge(ctx)
    refresh_handshake(ctx)
    steering(ctx)
    steering_signal_phases(ctx)
    shared_a10(ctx)
    rank_decode(ctx)
    ddr4_act_mux(ctx)
    ob10 = ctx.ob("C02.10", "an ACTIVATE only reaches a bank whose precharge has completed: every site where a precharge takes effect (explicit, auto-precharge release, "
                            "refresh grant) waits for the write-recovery and row-active gates, and ACT waits for the row-cycle gate (the gate discipline of C03.2 - a precharge "
                            "the device has not finished leaves the bank open when the next ACTIVATE arrives)", 3)
    share(ctx, ob10, "C03", ("C03.2",))
    ctx.assume("the refresher keeps cmd.valid (refresh_req) high until its sequence is done (C03.6) and precharge-all is issued before "
               "REF/ZQCS (C04.4), so leaving the refresh-grant state implies the bank is precharged")


def ddr4_act_mux(ctx):
    """C02.9: DDR4 shares RAS_n/CAS_n/WE_n with A16/A15/A14 on an ACTIVATE (JESD79-4: ACT_n low, RAS_n/A16, CAS_n/A15, WE_n/A14)."""
    ob = ctx.ob("C02.9", "DDR4 pin multiplexing behind the controller: on an activate ACT_n is low and RAS_n/CAS_n/WE_n carry row address bits 16/15/14 (JESD79-4), on every "
                         "other command ACT_n is high and the three strobes pass through - otherwise the device opens another row than the one the controller tracks", 1)
    from ..ceval import CEval
    from ..bits import Unresolved
    import itertools
    try:
        v = elab(ctx, "litedram.phy.dfi", "DDR4DFIMux", kwargs={"dfi_i": pobj("dfi_i"), "dfi_o": pobj("dfi_o")},
                 overrides={"dfi_i.phases": ListV([Sym("i.p0")]), "dfi_o.phases": ListV([Sym("o.p0")])})
    except Exception as e:
        ob.unknown("DDR4DFIMux not elaborated (%s)" % str(e)[:80])
        return
    cfg = {"len(i.p0.address)": 17, "len(o.p0.address)": 17}
    for f_ in ("ras_n", "cas_n", "we_n", "act_n", "cs_n"):
        cfg["len(i.p0.%s)" % f_] = 1
        cfg["len(o.p0.%s)" % f_] = 1
    n = 0
    bad = None
    try:
        for ras_n, cas_n, we_n in itertools.product((0, 1), repeat=3):
            for abits in itertools.product((0, 1), repeat=3):
                addr = (abits[0] << 14) | (abits[1] << 15) | (abits[2] << 16) | 0x1234
                env = {"i.p0.ras_n": ras_n, "i.p0.cas_n": cas_n, "i.p0.we_n": we_n, "i.p0.address": addr, "i.p0.act_n": 1, "i.p0.cs_n": 0}
                ce = CEval(v, env, cfg)
                got = tuple(ce.val(Sym("o.p0." + f_)) & 1 for f_ in ("act_n", "ras_n", "cas_n", "we_n"))
                act = (ras_n, cas_n, we_n) == (0, 1, 1)
                exp = (0, abits[2], abits[1], abits[0]) if act else (1, ras_n, cas_n, we_n)
                n += 1
                if got != exp and bad is None:
                    bad = ((ras_n, cas_n, we_n), abits, got, exp)
    except Unresolved as e:
        ob.unknown("DDR4DFIMux not evaluable (%s)" % e)
        return
    ob.instance("DDR4 activate multiplexing truth table", {"rows": n}, nontrivial=True)
    if bad:
        (st_, ab_, got, exp) = bad
        ob.refute("ddr4-act-mux", "with (ras_n, cas_n, we_n) = %s and row address bits (A14, A15, A16) = %s the PHY sees (act_n, ras_n/A16, cas_n/A15, we_n/A14) = %s, expected %s: "
                  "the DRAM activates a different row than the controller believes open" % (st_, ab_, got, exp), None)
