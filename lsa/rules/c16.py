"""C16 - cycle counts derived from datasheets are on the safe side (rounding-direction analysis of modules.py)."""
import ast

from fractions import Fraction

from ..ruleutil import *
from ..elab import eval_method, Elab

MOD = "litedram.modules"
MIN_FIELDS = ["tRP", "tRCD", "tWR", "tRFC", "tWTR", "tFAW", "tCCD", "tRRD", "tRC", "tRAS", "tZQCS"]
UP, DOWN, NEAREST = "UP", "DOWN", "NEAREST"
ROUND = {"ceil": UP, "floor": DOWN, "int": DOWN, "//": DOWN, "round": NEAREST, "trunc": DOWN}
CONVERTERS = ("ns_to_cycles", "ck_to_cycles", "ck_ns_to_cycles", "margin", "rate_frac", "get", "get_timing", "get_speedgrade_timing",
              "get_technology_timing", "__init__", "timing_settings")


def paths_to(t, leaf, acc=None, cur=None):
    """All operator paths (root -> leaf) to occurrences of the leaf symbol named `leaf`."""
    acc = [] if acc is None else acc
    cur = cur or []
    if isinstance(t, (Sym, Obj)) and str(t) == leaf:
        acc.append(list(cur))
    elif isinstance(t, Op):
        opn = t.op
        if t.op == "call" and isinstance(t.args[0], Sym):
            opn = t.args[0].path.split(".")[-1]
        for a in t.args:
            paths_to(a, leaf, acc, cur + [opn])
    elif isinstance(t, ListV):
        for a in t.items:
            paths_to(a, leaf, acc, cur)
    return acc


def timing_param():
    t = Obj("Timing")
    t.name = "timing"
    t.kind = "param"
    return t


def find_sub(t, pred):
    for x in subterms(t):
        if pred(x):
            return x
    return None


def conv_term(ctx, ob, method, kwargs, rate):
    try:
        r, el = eval_method(ctx.repo, MOD, "SDRAMModule", method, [timing_param()], kwargs, overrides={"self.rate": Const(rate)})
    except KeyError as e:
        ob.unknown("conversion method vanished: %s" % e)
        return None
    ctx.stat("methods_evaluated")
    if r is None or el.design.unknown:
        ob.unknown("cannot evaluate SDRAMModule.%s symbolically (%s)" % (method, el.design.unknown[:2]))
        return None
    return r


def init_keywords(ctx, ob):
    """keyword -> (converter method name, kwargs dict of V, first-arg ast) from SDRAMModule.__init__'s TimingSettings(...) call."""
    m = ctx.repo.module(MOD)
    cls = m.classes.get("SDRAMModule") if m else None
    if not ob.need(cls is not None, "SDRAMModule vanished"):
        return None
    init = [n for n in cls.body if isinstance(n, ast.FunctionDef) and n.name == "__init__"]
    if not ob.need(bool(init), "SDRAMModule.__init__ vanished"):
        return None
    call = None
    for n in ast.walk(init[0]):
        if isinstance(n, ast.Call) and isinstance(n.func, ast.Name) and n.func.id == "TimingSettings":
            call = n
    if not ob.need(call is not None, "TimingSettings(...) call not found in SDRAMModule.__init__"):
        return None
    out = {}
    for kw in call.keywords:
        convs = [c for c in ast.walk(kw.value) if isinstance(c, ast.Call) and isinstance(c.func, ast.Attribute)
                 and isinstance(c.func.value, ast.Name) and c.func.value.id == "self" and c.func.attr != "get"]
        # outermost converter only
        convs = [c for c in convs if not any(c is not d and any(c is x for x in ast.walk(d)) for d in convs)]
        if len(convs) != 1:
            ob.unknown("field %s: expected exactly one conversion call, found %d (%s)" % (kw.arg, len(convs), ast.unparse(kw.value)))
            continue
        c = convs[0]
        kws = {}
        for k in c.keywords:
            if isinstance(k.value, ast.Constant):
                kws[k.arg] = Const(k.value.value)
            elif isinstance(k.value, ast.Name):
                kws[k.arg] = Sym(k.value.id)
            else:
                kws[k.arg] = Sym(ast.unparse(k.value))
        out[kw.arg] = (c.func.attr, kws, c.args[0] if c.args else None, kw.value)
    return out, call


def run(ctx):
    ob1 = ctx.ob("C16.1", "every minimum-type TimingSettings field is max(ceil(ck/ratio), ceil((ns + margin)/period)): rounded UP on both the "
                          "clock-count and the nanosecond path, period = 1e9/clk_freq", 11)
    ob2 = ctx.ob("C16.2", "the phase margin normalises to period*(1 - 1/ratio) = (ratio-1) DRAM clocks and is added on every minimum-type path", 3)
    ob3 = ctx.ob("C16.3", "the refresh interval is rounded DOWN (never longer than the datasheet tREFI) and carries no margin", 1)
    ob4 = ctx.ob("C16.4", "tRC is converted from tRP + tRAS (Timing.__add__ adds ck and ns componentwise); every field converts its own datasheet entry", 12)
    ob5 = ctx.ob("C16.5", "no module class of the library overrides the conversion methods or timing_settings; timing literals are well-formed "
                          "(ck, ns) pairs / numbers and tREFI entries are plain nanosecond numbers", 60)
    ob6 = ctx.ob("C16.6", "SPD decoders hand nanosecond values to the same conversion path: txx_ns = mtb*MTB + twos_complement(ftb)*FTB and no "
                          "rounding call in get_timings", 2)
    # SDRAMModule.__init__ is evaluated symbolically with `get(name[, key])` replaced by an opaque datasheet entry Timing(get(name).ck, get(name).ns):
    # every TimingSettings field becomes a term over those entries, whatever helpers / local functions the source uses to build it
    # only when evaluated on behalf of C03 (whose statement measures spacings with the phase positions included): the clock-count branch of the
    # activate-to-activate minimums.  The two activates can sit on different command slots (the command phase of read mode and of write mode differ when
    # rdphase != wrphase), so `cycles*ratio` DRAM clocks between them shrink by up to ratio-1; ceil(ck/ratio) alone does not cover that.
    # tFAW has the same conversion but is not exposed: tFAWController re-opens two cycles late (registered count over a window that keeps an activate for
    # tfaw cycles), which covers the ratio-1 clocks (shown by /verif/findings/F15b_tfaw_ck_phase_not_reachable.py); tCCD / tWTR / tRFC pairs reuse a phase or pass
    # a full turnaround cycle.  Only tRRD - an exact counter - is hit.
    obA = ctx.ob("C16.ckphase", "the activate-to-activate minimum given in clocks (tRRD) is converted with the (ratio-1)-clock phase margin", 2) \
        if getattr(ctx, "shared_for", None) == "C03" else None
    ck_unsafe = {}
    period_key = "/(1000000000.0, clk_freq)"
    seen_bad = set()
    mrel = ctx.repo.module(MOD).rel()
    init_line = 0
    for rate in ("1:1", "1:2", "1:4"):
        denom = int(rate.split(":")[1])
        keys_used = {}

        def get_stub(el, f_, args, kwargs, keys_used=keys_used):
            nm = args[0].v if args and isinstance(args[0], Const) else str(args[0]) if args else "?"
            k_ = args[1] if len(args) > 1 else kwargs.get("key")
            if k_ is not None and not (isinstance(k_, Const) and k_.v is None):
                keys_used.setdefault(nm, []).append(k_)
            tcls = el.modenv(MOD).vars.get("Timing")
            return el.instantiate(tcls, [Sym("get(%s).ck" % nm), Sym("get(%s).ns" % nm)], {})
        try:
            _, el = eval_method(ctx.repo, MOD, "SDRAMModule", "__init__", [Sym("clk_freq"), Const(rate)], {"fine_refresh_mode": Sym("fine_refresh_mode")},
                                stubs={"SDRAMModule.get": get_stub})
        except KeyError as e:
            ob1.unknown("SDRAMModule.__init__ vanished: %s" % e)
            return
        ctx.stat("methods_evaluated")
        ts = el.design.top.attrs.get("timing_settings")
        if not ob1.need(isinstance(ts, Obj) and ts.cls == "TimingSettings" and not el.design.unknown, "SDRAMModule.__init__ does not build TimingSettings in an evaluable way (%s)" % el.design.unknown[:2]):
            return
        init_line = ts.loc[1] if ts.loc else 0
        fields = dict(ts.kwargs)
        for f in MIN_FIELDS + ["tREFI"]:
            if f not in fields:
                ob1.unknown("TimingSettings field %s is not filled by SDRAMModule.__init__" % f)
        for f, T in fields.items():
            # optional entries: `None if get(x) is None else conv(get(x))` - the stub's entries are never None, so the conversion arm is what remains
            exp_names = ["tRP", "tRAS"] if f == "tRC" else [f]
            atoms = sorted(x for x in support(T) if x.startswith("get("))
            ns_atoms = [x for x in atoms if x.endswith(".ns")]
            ck_atoms = [x for x in atoms if x.endswith(".ck")]
            ns_paths = [p_ for a_ in ns_atoms for p_ in paths_to(T, a_)]
            ck_paths = [p_ for a_ in ck_atoms for p_ in paths_to(T, a_)]
            dirs_ns = [[ROUND[o] for o in p if o in ROUND] for p in ns_paths]
            dirs_ck = [[ROUND[o] for o in p if o in ROUND] for p in ck_paths]
            div = find_sub(T, lambda x: isinstance(x, Op) and x.op == "/" and any(a_ in support(x.args[0]) for a_ in ns_atoms))
            info = {"rate": rate, "term": key(T), "ns_rounding": dirs_ns, "ck_rounding": dirs_ck}
            ns_sum = None
            for e_ in exp_names:
                ns_sum = Lin.atom("get(%s).ns" % e_) if ns_sum is None else ns_sum + Lin.atom("get(%s).ns" % e_)
            ck_sum = None
            for e_ in exp_names:
                x_ = Sym("get(%s).ck" % e_)
                ck_sum = x_ if ck_sum is None else Op("+", (ck_sum, x_))
            if rate == "1:1":
                # C16.4 provenance
                got = sorted({x[4:].split(")")[0] for x in atoms})
                ob4.instance("field %s <- datasheet entries" % f, got)
                if f in MIN_FIELDS and set(exp_names) < set(got) and isinstance(T, Op) and T.op == "max":
                    # more datasheet entries than expected, combined by max(): an additional lower bound (e.g. an explicit tRC next to tRP + tRAS) can only lengthen
                    # the timing; the expected entries must still be there as one of the arms, which the shape / margin checks below look at
                    ob4.instance("field %s has an additional lower bound" % f, sorted(set(got) - set(exp_names)))
                elif f in MIN_FIELDS + ["tREFI"] and got != sorted(exp_names):
                    ob4.refute("source:%s" % f, "TimingSettings.%s is converted from %s, expected the datasheet entr%s %s" %
                               (f, got, "ies" if len(exp_names) > 1 else "y", " + ".join(exp_names)), (mrel, init_line))
                if f in ("tREFI", "tRFC"):
                    ks_ = keys_used.get(f, [])
                    if not ks_ or not all("fine_refresh_mode" in support(k_) for k_ in ks_):
                        ob4.refute("fine-refresh-key:%s" % f, "%s is not looked up with the fine refresh mode (keys %s)" % (f, [key(k_) for k_ in ks_]), (mrel, init_line))
            if f == "tREFI":
                ob3.instance("tREFI @%s" % rate, info)
                if not ns_paths:
                    ob3.unknown("tREFI conversion does not depend on the nanosecond value")
                    continue
                if any(UP in d or NEAREST in d for d in dirs_ns) or any(not d for d in dirs_ns):
                    ob3.refute("tREFI-rounding", "the refresh interval is converted with %s on its nanosecond path (%s): the interval handed to "
                               "the controller can exceed the datasheet tREFI by up to one controller cycle" %
                               (sorted({o for p in ns_paths for o in p if o in ROUND}) or "no rounding", key(T)), (mrel, init_line))
                if div is not None:
                    n = lin(div.args[0])
                    if n is None or n != ns_sum:
                        ob3.refute("tREFI-margin", "the refresh interval has a margin added before conversion: %s" % key(div.args[0]), (mrel, init_line))
                    if key(div.args[1]) != period_key:
                        ob3.refute("tREFI-period", "refresh interval divided by %s, expected the controller clock period 1e9/clk_freq" % key(div.args[1]), None)
                continue
            if f not in MIN_FIELDS:
                continue
            if rate == "1:4":
                ob1.instance("%s" % f, info)
            bad = None
            if not ns_paths or not ck_paths:
                if "<Fraction" in key(T) or "phi(is(" in key(T):
                    ob1.unknown("%s at rate %s: the conversion is written with objects / function arguments the elaborator does not evaluate (%s)" % (f, rate, key(T)[:140]))
                    continue
                bad = "does not depend on both the ns and the ck component (%s)" % key(T)
            elif any((not d) or any(x != UP for x in d) for d in dirs_ns):
                bad = "nanosecond path rounding is %s, expected exactly one ceil" % dirs_ns
            elif any((not d) or any(x != UP for x in d) for d in dirs_ck):
                bad = "clock-count path rounding is %s, expected exactly one ceil" % dirs_ck
            elif any(len(d) > 1 for d in dirs_ns + dirs_ck):
                # several ceilings in a row only ever round further up; the formula between them is another conversion than the one this rule compares
                ob1.unknown("%s at rate %s: the conversion rounds up more than once (%s / %s): conservative in direction, but the arithmetic between the "
                            "ceilings is not compared" % (f, rate, dirs_ns, dirs_ck))
                continue
            elif any("min" in p for p in ns_paths + ck_paths):
                bad = "a min() sits on the path"
            elif not (isinstance(T, Op) and T.op == "max"):
                bad = "the ck and ns requirements are not combined by max(): %s" % key(T)
            shape_key = key(T).replace("get(%s)" % f, "get(<f>)")
            if bad and ("shape", shape_key if f != "tRC" else f, rate, bad[:40]) in seen_bad:
                continue
            if bad:
                seen_bad.add(("shape", shape_key if f != "tRC" else f, rate, bad[:40]))
                ob1.refute("%s@%s:shape" % (f, rate), "%s at rate %s: %s" % (f, rate, bad), (mrel, init_line), info)
                continue
            ckdiv = find_sub(T, lambda x: isinstance(x, Op) and x.op == "/" and any(a_ in support(x.args[0]) for a_ in ck_atoms))
            if ckdiv is None or not (lin_eq(ckdiv.args[0], ck_sum) and isinstance(ckdiv.args[1], Const) and ckdiv.args[1].v == denom):
                ob1.refute("%s@%s:ck" % (f, rate), "%s: clock count converted as %s, expected (datasheet clocks)/%d" % (f, key(ckdiv) if ckdiv else None, denom), (mrel, init_line))
            if obA is not None and f in ("tRRD",) and denom > 1 and ckdiv is not None:
                extra = lin(ckdiv.args[0])
                cks = ck_sum if isinstance(ck_sum, Lin) else lin(ck_sum)
                dlt = (extra - cks) if (extra is not None and cks is not None) else None
                okp = dlt is not None and dlt.is_const() and dlt.constval() >= denom - 1
                obA.instance("%s at rate %s: clock-count numerator" % (f, rate), {"numerator": key(ckdiv.args[0]), "needs": "clocks + %d" % (denom - 1)}, nontrivial=True)
                if not okp:
                    ck_unsafe.setdefault(f, []).append(rate)
            if div is None or key(div.args[1]) != period_key:
                ob1.refute("%s@%s:period" % (f, rate), "%s: nanoseconds divided by %s, expected 1e9/clk_freq" % (f, key(div.args[1]) if div else None), (mrel, init_line))
                continue
            n = lin(div.args[0])
            exp = ns_sum + Lin.atom(period_key) * Lin.const(Fraction(denom - 1, denom))
            okm = n is not None and all(abs(float(n.t.get(k, 0)) - float(exp.t.get(k, 0))) < 1e-9 for k in set(n.t) | set(exp.t))
            if f == "tRP":
                ob2.instance("margin @%s" % rate, {"numerator": key(div.args[0]), "expected": "ns + %s*period" % Fraction(denom - 1, denom)})
            if not okm:
                if ("margin", rate, key(div.args[0]).replace("get(%s)" % f, "get(<f>)")) in seen_bad and f != "tRC":
                    continue
                seen_bad.add(("margin", rate, key(div.args[0]).replace("get(%s)" % f, "get(<f>)")))
                ob2.refute("%s@%s:margin" % (f, rate), "%s at rate %s: numerator is %s, expected ns + (1 - 1/%d)*period (the two commands "
                           "can sit on the least favourable phases)" % (f, rate, key(div.args[0]), denom), (mrel, init_line))
    if obA is not None:
        for f_, rates_ in sorted(ck_unsafe.items()):
            obA.refute("ck-no-phase-margin:%s" % f_, "%s: a datasheet minimum given in clocks is converted as ceil(clocks/ratio) at rates %s, without the ratio-1 clocks of "
                       "phase margin the nanosecond branch gets: two activates issued on different command slots (read-mode and write-mode command phase) are up to ratio-1 "
                       "DRAM clocks closer than cycles*ratio" % (f_, rates_), (mrel, init_line))
    try:
        other = Obj("Timing"); other.name = "other"; other.kind = "param"
        r, el = eval_method(ctx.repo, MOD, "Timing", "__add__", [other])
        ck, ns = (r.attrs.get("ck"), r.attrs.get("ns")) if isinstance(r, Obj) else (None, None)
        ob4.instance("Timing.__add__", {"ck": key(ck) if ck is not None else None, "ns": key(ns) if ns is not None else None})
        if ck is None or ns is None or not lin_eq(ck, Op("+", (Sym("self.ck"), Sym("other.ck")))) or not lin_eq(ns, Op("+", (Sym("self.ns"), Sym("other.ns")))):
            ob4.refute("timing-add", "Timing.__add__ does not add ck and ns componentwise", None)
    except KeyError as e:
        ob4.unknown("Timing.__add__ not found: %s" % e)
    # C16.5 who-overrides + literal well-formedness
    m = ctx.repo.module(MOD)
    MODTREE[0] = m.tree
    nmod = 0
    def derives(cn, seen=()):
        node = m.classes.get(cn)
        if node is None or cn in seen:
            return False
        for b in node.bases:
            if isinstance(b, ast.Name) and (b.id == "SDRAMModule" or derives(b.id, seen + (cn,))):
                return True
        return False
    for cname, cnode in m.classes.items():
        if cname == "SDRAMModule" or not derives(cname):
            continue
        nmod += 1
        over = [n.name for n in cnode.body if isinstance(n, ast.FunctionDef) and n.name in CONVERTERS]
        over += [t.id for n in cnode.body if isinstance(n, ast.Assign) for t in n.targets if isinstance(t, ast.Name) and t.id in CONVERTERS]
        for o in over:
            ob5.refute("override:%s.%s" % (cname, o), "module class %s overrides %s: its cycle counts bypass the checked conversion" % (cname, o),
                       (m.rel(), cnode.lineno))
        nlit = 0
        for n in ast.walk(cnode):
            if isinstance(n, ast.Call) and isinstance(n.func, ast.Name) and n.func.id in ("_TechnologyTimings", "_SpeedgradeTimings"):
                for kw in n.keywords:
                    nlit += 1
                    prob = literal_problem(kw.arg, kw.value, cnode)
                    if prob:
                        ob5.refute("literal:%s.%s" % (cname, kw.arg), "module %s: timing %s = %s is malformed: %s" % (cname, kw.arg, ast.unparse(kw.value), prob),
                                   (m.rel(), n.lineno))
        ob5.instance("module class %s" % cname, {"timing_literals": nlit})
    ctx.stat("module_classes", nmod)
    # C16.7 fine-refresh tables (JEDEC DDR4: tREFI2 = tREFI/2, tREFI4 = tREFI/4), library modules and the SPD decoder alike
    ob7 = ctx.ob("C16.7", "every fine-granularity-refresh tREFI table (library DDR4 modules and the DDR4 SPD decoder) satisfies "
                          "tREFI[kx] = tREFI[1x]/k, and the SPD decoders' single-mode tREFI equals the library value for that memory type", 3)
    el = Elab(ctx.repo)
    env = el.modenv(MOD)
    tables = []
    for cname, cnode in m.classes.items():
        cv = env.vars.get(cname)
        for attr in ("trefi",):
            if any(isinstance(n, ast.Assign) and any(isinstance(t, ast.Name) and t.id == attr for t in n.targets) for n in cnode.body):
                val = el.find_class_const(cv, attr)
                tables.append((cname, val, cnode.lineno))
    try:
        r, e2 = eval_method(ctx.repo, MOD, "DDR4SPDData", "get_timings", [Sym("data")])
        tables.append(("DDR4SPDData.get_timings", e2.design.top.attrs.get("trefi"), m.classes["DDR4SPDData"].lineno))
    except KeyError:
        ob7.unknown("DDR4SPDData.get_timings not found")
    for name, val, line in tables:
        if not isinstance(val, DictV):
            ob7.unknown("%s: trefi is not a literal table (%s)" % (name, val))
            continue
        d = {k.v: v.v for k, v in val.items if isinstance(k, Const) and isinstance(v, Const)}
        ob7.instance("%s trefi" % name, d)
        if set(d) != {"1x", "2x", "4x"}:
            ob7.refute("trefi-modes:%s" % name, "%s: refresh-mode table has keys %s" % (name, sorted(d)), (m.rel(), line))
            continue
        for k, div in (("2x", 2), ("4x", 4)):
            if abs(d[k] * div - d["1x"]) > 1e-6:
                ob7.refute("trefi-%s:%s" % (k, name), "%s: tREFI[%s] = %.2f ns, expected tREFI[1x]/%d = %.2f ns (longer interval than the "
                           "datasheet allows in that refresh mode)" % (name, k, d[k], div, d["1x"] / div), (m.rel(), line))
    # C16.6 SPD
    for cname in ("DDR3SPDData", "DDR4SPDData"):
        cnode = m.classes.get(cname)
        if not ob6.need(cnode is not None, "%s vanished" % cname):
            continue
        gt = [n for n in cnode.body if isinstance(n, ast.FunctionDef) and n.name == "get_timings"]
        if not ob6.need(bool(gt), "%s.get_timings vanished" % cname):
            continue
        rc = [ast.unparse(c) for c in ast.walk(gt[0]) if isinstance(c, ast.Call) and isinstance(c.func, ast.Name) and c.func.id in ("round", "ceil", "floor", "int")]
        try:
            r, el = eval_method(ctx.repo, MOD, cname, "txx_ns", [Sym("mtb"), Sym("ftb")])
        except KeyError as e:
            ob6.unknown("%s.txx_ns not found" % cname)
            continue
        ob6.instance("%s.txx_ns" % cname, {"term": key(r), "rounding_calls_in_get_timings": rc})
        if rc:
            ob6.refute("spd-rounding:%s" % cname, "%s.get_timings rounds datasheet values before the cycle conversion: %s" % (cname, rc), (m.rel(), gt[0].lineno))
        l = lin(r)
        good = l is not None and len(l.t) == 2 and any("mtb" in k and any("medium_timebase" in a for a in k) for k in l.t) and \
            any(any("fine_timebase" in a for a in k) for k in l.t) and all(c == 1 for c in l.t.values())
        if not good:
            ob6.refute("spd-txx:%s" % cname, "%s.txx_ns = %s, expected mtb*medium_timebase + twos_complement(ftb)*fine_timebase" % (cname, key(r)), None)


MODTREE = [None]


def literal_problem(name, node, cnode):
    def num(n):
        if isinstance(n, ast.Constant) and (n.value is None or isinstance(n.value, (int, float))) and not isinstance(n.value, bool):
            return True
        if isinstance(n, ast.BinOp) and isinstance(n.op, (ast.Div, ast.Mult, ast.Add, ast.Sub)):
            return num(n.left) and num(n.right)
        if isinstance(n, ast.UnaryOp) and isinstance(n.op, ast.USub):
            return num(n.operand)
        return False

    def pair(n):
        return isinstance(n, ast.Tuple) and len(n.elts) == 2 and all(num(e) for e in n.elts)

    def resolve(n, depth=4):
        # a name defined in the class body or at module level, possibly copied with dict(...)
        while depth and isinstance(n, ast.Call) and isinstance(n.func, ast.Name) and n.func.id == "dict" and len(n.args) == 1 and not n.keywords:
            n = n.args[0]
            depth -= 1
        if isinstance(n, ast.Name) and depth:
            for body in (cnode.body, MODTREE[0].body if MODTREE[0] is not None else []):
                for b in body:
                    if isinstance(b, ast.Assign) and any(isinstance(t, ast.Name) and t.id == n.id for t in b.targets):
                        return resolve(b.value, depth - 1)
        return n
    node = resolve(node)
    if isinstance(node, ast.Subscript) and isinstance(node.slice, ast.Constant):
        base = resolve(node.value)
        if isinstance(base, ast.Dict):
            for k, v in zip(base.keys, base.values):
                if isinstance(k, ast.Constant) and k.value == node.slice.value:
                    node = v
    if name == "tREFI":
        if isinstance(node, ast.Dict):
            return None if all(num(v) and not (isinstance(v, ast.Constant) and v.value is None) for v in node.values) else "fine-refresh entries must be numbers"
        if num(node) and not (isinstance(node, ast.Constant) and node.value is None):
            return None
        return "tREFI must be a plain nanosecond number (it is converted without a clock-count component)"
    if isinstance(node, ast.Dict):
        return None if all(num(v) or pair(v) for v in node.values) else "dict entries must be numbers or (ck, ns) pairs"
    if num(node) or pair(node):
        if pair(node) and all(isinstance(e, ast.Constant) and e.value is None for e in node.elts):
            return "both components are None"
        return None
    return "not a number or a (ck, ns) pair"
