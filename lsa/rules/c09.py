"""C09 - AXI port: reservation discipline, response-after-data, single driver of the shared native command, RMW merge, addresses."""
import re
from ..ruleutil import *

AXI = "litedram.frontend.axi"


def _preshifted(val, a):
    """<a>[2:] - (base_address >> 2) and its spellings (>> 2, // 4 on either side)"""
    def sh2(t, name):
        if isinstance(t, Op) and t.op == "slice" and key(t.args[0]) == name and key(t.args[1]) == "2" and (isinstance(t.args[2], Const) and t.args[2].v is None):
            return True
        if isinstance(t, Op) and t.op == ">>" and key(t.args[0]) == name and key(t.args[1]) == "2":
            return True
        if isinstance(t, Op) and t.op == "//" and key(t.args[0]) == name and key(t.args[1]) == "4":
            return True
        return False
    if isinstance(val, Op) and val.op == "-" and len(val.args) == 2:
        return sh2(val.args[0], a) and sh2(val.args[1], "base_address")
    return False


def wview(ctx, rmw):
    return elab(ctx, AXI, "LiteDRAMAXI2NativeW", kwargs={"axi": pobj("axi"), "port": pobj("port"), "buffer_depth": Sym("buffer_depth"),
                                                         "base_address": Sym("base_address"), "with_read_modify_write": Const(rmw)},
                overrides={"port.data_width": Const(32), "len(axi.w.strb)": Const(4), "len(w_buffer.sink.strb)": Const(4)})


def rview(ctx, rmw):
    return elab(ctx, AXI, "LiteDRAMAXI2NativeR", kwargs={"axi": pobj("axi"), "port": pobj("port"), "buffer_depth": Sym("buffer_depth"),
                                                         "base_address": Sym("base_address"), "with_read_modify_write": Const(rmw)},
                overrides={"port.data_width": Const(32)})


def single(v, k):
    ds = [d for d in v.drivers(k) if not d.guards]
    return ds[0].value if len(ds) >= 1 else None


def tset(*names):
    return {n for n in names}


def _expand(v, t_):
    if isinstance(t_, Op):
        return Op(t_.op, tuple(_expand(v, a_) for a_ in t_.args))
    d_ = deref(v, t_)
    return _expand(v, d_) if d_ is not t_ else t_


def level_counter(v, ob, tag, lvl, q, dq):
    """q / dq: sets of literal keys whose conjunction is the queue / dequeue strobe. The guards of the counter's drivers are evaluated for
    every assignment of the primitive handshake signals: +1 must happen exactly under queue & ~dequeue, -1 exactly under dequeue & ~queue."""
    import itertools
    ds = sorted(v.drivers(lvl), key=lambda l_: l_.order)
    ob.instance("%s reservation counter" % tag, [str(d) for d in ds])
    prims = sorted({k.lstrip("~") for k in q | dq})
    bad = None
    for bits in itertools.product((False, True), repeat=len(prims)):
        env = dict(zip(prims, bits))
        Q = all((not env[k[1:]]) if k.startswith("~") else env[k] for k in q)
        DQ = all((not env[k[1:]]) if k.startswith("~") else env[k] for k in dq)
        delta = 0
        for d in ds:
            fires = True
            for c_, p_ in d.guards:
                r_ = eval3(_expand(v, c_), env)
                if r_ is None:
                    bad = "guard %s of `%s` depends on more than the two handshakes" % (key(c_), d)
                    break
                if r_ != p_:
                    fires = False
                    break
            if bad:
                break
            if fires:
                if lin_eq(d.value, Op("+", (d.target, Const(1)))):
                    delta = 1
                elif lin_eq(d.value, Op("-", (d.target, Const(1)))):
                    delta = -1
                else:
                    bad = "`%s` is neither +1 nor -1" % d
        if bad:
            break
        want = (1 if Q and not DQ else 0) - (1 if DQ and not Q else 0)
        if delta != want:
            bad = "with queue=%s dequeue=%s the counter moves by %+d, expected %+d" % (Q, DQ, delta, want)
            break
    if bad:
        ob.refute("%s:level-counter" % tag, "%s: the reservation counter %s is not +1 on queue&~dequeue / -1 on dequeue&~queue (%s): %s" % (tag, lvl, bad, [str(d) for d in ds]),
                  ds[0].loc if ds else None)


def counter_strobes(v, lvl):
    """The positive conjunct sets under which the counter `lvl` is incremented / decremented."""
    res = {}
    for d in v.drivers(lvl):
        kind = "inc" if lin_eq(d.value, Op("+", (d.target, Const(1)))) else ("dec" if lin_eq(d.value, Op("-", (d.target, Const(1)))) else None)
        if kind is None:
            continue
        pos = set()
        for a, p in v.guard_lits(d, False):
            dd = deref(v, a)
            if p:
                pos |= nkeys(v, conj(dd, True))
            elif dd is a and not (isinstance(a, Op) and a.op in ("&", "and")):
                pos.add(lkey((a, False)))
        res[kind] = pos
    return res


def write_path(ctx):
    ob1 = ctx.ob("C09.1", "write reservation: a write command is offered only when aw.valid and more data beats are buffered than already reserved "
                          "(w_buffer.level > reserved) and the arbiter grants it; the reservation counter is +1 exactly on fire(port.cmd)&we and -1 exactly on "
                          "the buffer pop; the SAME gate (reserved != 0 | reserving now) sits on port.wdata.valid and on the buffer's source.ready", 6)
    ob2 = ctx.ob("C09.2", "write response after data: the B response is pushed (and the ID popped) exactly when the LAST beat leaves the write buffer "
                          "towards the port (source.valid & source.last & source.ready of the buffer itself); the ID is pushed on fire(aw)&first", 3)
    QW = {"port.cmd.valid", "port.cmd.ready", "port.cmd.we"}
    DQW = {"w_buffer.source.valid", "w_buffer.source.ready"}
    for rmw in (False, True):
        v = wview(ctx, rmw)
        tag = "rmw=%s" % rmw
        # regular command path: port.cmd.valid <= 1 under aw.valid & <buffered-data condition> & cmd_grant
        pv = [d for d in v.drivers("port.cmd.valid") if d.fsm is None and is1(d.value)]
        if not ob1.need(len(pv) == 1, "%s: regular-path driver of port.cmd.valid not found" % tag):
            continue
        lits = v.guard_lits(pv[0], False)
        flat = []
        for a, p in lits:
            d = deref(v, a)
            flat.extend(conj(d, p) if (d is not a and not (isinstance(d, Op) and d.op in (">", "<", "!=", "=="))) else [(a, p)])
        gk = {lkey(x) for x in flat}
        ob1.instance("%s port.cmd.valid (regular path)" % tag, sorted(gk))
        rest = [x for x in flat if lkey(x) not in ("aw.valid", "cmd_grant")]
        if {"aw.valid", "cmd_grant"} <= gk and len(rest) > 1:
            # further conjuncts only hold the command back; the buffered-data condition is the one that reads the write buffer's level
            lv_ = [x for x in rest if x[1] and any("w_buffer.level" in s_ for s_ in support(deref(v, x[0])) | support(x[0]))]
            if len(lv_) == 1:
                ob1.instance("%s further conditions on port.cmd.valid (they only delay the command)" % tag, sorted(lkey(x) for x in rest if x is not lv_[0]))
                rest = lv_
            else:
                ob1.unknown("%s: port.cmd.valid is driven under %s: the buffered-data condition is not identified among them" % (tag, sorted(gk)))
                continue
        if not ({"aw.valid", "cmd_grant"} <= gk) or len(rest) != 1 or not rest[0][1]:
            ob1.refute("%s:cmd-valid" % tag, "the regular write path drives port.cmd.valid under %s, expected aw.valid & <buffered-data condition> & cmd_grant" % sorted(gk), pv[0].loc)
            continue
        CW = rest[0][0]                                # role: can_write (a wire or the comparison itself)
        cwv = deref(v, CW)
        ob1.instance("%s buffered-data condition" % tag, key(cwv))
        LV = None                                       # role: reservation counter
        if isinstance(cwv, Op) and cwv.op in (">", "<") and len(cwv.args) == 2:
            big, small = (cwv.args[0], cwv.args[1]) if cwv.op == ">" else (cwv.args[1], cwv.args[0])
            if key(big) == "w_buffer.level" and isinstance(small, (Obj, Sym)):
                LV = key(small)
        if LV is None and isinstance(cwv, Op) and cwv.op in (">=", "<=") and len(cwv.args) == 2 and any(key(a_) == "w_buffer.level" for a_ in cwv.args) \
                and any(isinstance(a_, Obj) and a_.cls == "Signal" and v.drivers(a_) for a_ in cwv.args):
            ob1.refute("%s:can_write" % tag, "%s is %s: a non-strict comparison of the buffer level with the reservation register lets a command through for a beat that is not "
                       "buffered yet (level == reserved means every buffered beat already has its command)" % (key(CW), key(cwv)), pv[0].loc)
            continue
        if LV is None:
            if "w_buffer.level" not in support(cwv) and not any("w_buffer" in s_ for s_ in support(cwv)):
                ob1.refute("%s:can_write" % tag, "%s is %s, which does not look at the write buffer at all: a command can be issued for a beat that is not buffered yet" %
                           (key(CW), key(cwv)), pv[0].loc)
            else:
                ob1.unknown("%s: the buffered-data condition %s is not of the form w_buffer.level > <reservation register>: the reservation scheme is not decided" % (tag, key(cwv)))
            continue
        cs = counter_strobes(v, LV)
        if cs.get("inc") != QW or cs.get("dec") != DQW:
            ob1.refute("%s:queue-dequeue" % tag, "the reservation counter %s is incremented under %s and decremented under %s: expected fire(port.cmd)&we and the buffer pop" %
                       (LV, sorted(cs.get("inc", [])), sorted(cs.get("dec", []))), (v.drivers(LV) or [pv[0]])[0].loc)
            continue
        level_counter(v, ob1, tag, LV, QW, DQW)
        wv = single(v, "port.wdata.valid")
        sr = single(v, "w_buffer.source.ready")
        l1 = [x for x in conj(wv) if lkey(x) != "w_buffer.source.valid"] if wv is not None else []
        l2 = [x for x in conj(sr) if lkey(x) != "port.wdata.ready"] if sr is not None else []
        ob1.instance("%s data gate" % tag, {"wdata.valid": key(wv) if wv is not None else None, "source.ready": key(sr) if sr is not None else None})
        if wv is None or sr is None or len(l1) != 1 or {lkey(x) for x in l1} != {lkey(x) for x in l2} or "w_buffer.source.valid" not in litset(conj(wv)) \
                or "port.wdata.ready" not in litset(conj(sr)) or not l1[0][1]:
            ob1.refute("%s:fork-gate" % tag, "port.wdata.valid = %s and w_buffer.source.ready = %s are not gated by the same reservation term: a beat can leave the "
                       "buffer without being offered to the port (or be offered before its command)" % (key(wv) if wv is not None else None, key(sr) if sr is not None else None), None)
        else:
            send = deref(v, l1[0][0])
            alts = [nkeys(v, conj(a_, p_)) for a_, p_ in disj(send)]
            if sorted(map(sorted, alts)) != sorted(map(sorted, [{LV}, QW])):
                ob1.refute("%s:send-gate" % tag, "the data gate %s is %s, expected (reserved != 0) | reserving-now" % (key(l1[0][0]), key(send)), None)
        # C09.2
        rp = [d for d in v.drivers("resp_buffer.sink.valid") if is1(d.value)]
        ip = [d for d in v.drivers("id_buffer.source.ready") if is1(d.value)]
        want = {"w_buffer.source.valid", "w_buffer.source.last", "w_buffer.source.ready"}
        for what, ds in (("B response push", rp), ("write ID pop", ip)):
            if not ob2.need(len(ds) == 1, "%s: %s not found" % (tag, what)):
                continue
            g = v.guard_keys(ds[0], False)
            ob2.instance("%s %s" % (tag, what), sorted(g))
            if not (want <= g and g - want <= {"id_buffer.source.valid", "resp_buffer.sink.ready"}):
                ob2.refute("%s:%s" % (tag, what.replace(" ", "-")), "%s happens under %s, expected %s: the response must be produced when the last beat is really "
                           "handed to the memory port (the buffer's own ready includes the reservation gate)" % (what, sorted(g), sorted(want)), ds[0].loc)
        idp = single(v, "id_buffer.sink.valid")
        if idp is None or litset(conj(idp)) != {"aw.valid", "aw.first", "aw.ready"}:
            ob2.refute("%s:id-push" % tag, "the write ID is pushed under %s, expected aw.valid & aw.first & aw.ready" % (key(idp) if idp is not None else None), None)
        rid = single(v, "resp_buffer.sink.id")
        rl = [d for d in v.drivers("resp_buffer.sink.id")]
        if not rl:
            ob2.unknown("%s: no response FIFO fed with an ID: the write response is produced by another structure than the one this rule reads" % tag)
        elif key(rl[0].value) != "id_buffer.source.id":
            ob2.refute("%s:resp-id" % tag, "the response ID is not taken from the ID FIFO", None)


def read_path(ctx):
    ob = ctx.ob("C09.3", "read reservation: a read command is offered only while reserved != buffer_depth (no weaker condition), the reservation "
                         "bound, the read data buffer depth and the ID/last FIFO depth are the same term; ID/last pushed on fire(ar), popped on fire(axi.r); "
                         "returned data enters the buffer by a whole-record connect", 5)
    QR = {"port.cmd.valid", "port.cmd.ready", "~port.cmd.we"}
    DQR = {"r_buffer.source.valid", "r_buffer.source.ready"}
    for rmw in (False, True):
        v = rview(ctx, rmw)
        tag = "rmw=%s" % rmw
        pv = [d for d in v.drivers("port.cmd.valid") if d.fsm is None and is1(d.value)]
        if not ob.need(len(pv) == 1, "%s: regular-path driver of port.cmd.valid not found" % tag):
            continue
        flat = []
        for a_, p_ in v.guard_lits(pv[0], False):
            d = deref(v, a_)
            flat.extend(conj(d, p_) if (d is not a_ and not (isinstance(d, Op) and d.op in (">", "<", "!=", "=="))) else [(a_, p_)])
        gk = {lkey(x) for x in flat}
        rest = [x for x in flat if lkey(x) not in ("ar.valid", "cmd_grant")]
        if not ({"ar.valid", "cmd_grant"} <= gk) or len(rest) != 1 or not rest[0][1]:
            ob.refute("%s:cmd_request" % tag, "the read command is offered under %s, expected ar.valid & <reservation condition> & cmd_grant" % sorted(gk), pv[0].loc)
            continue
        CR = rest[0][0]
        val = deref(v, CR)
        ob.instance("%s reservation condition" % tag, key(val))
        LV = None
        BOUND = None
        fifos = {str(o): o for o in v.d.objs if o.cls == "SyncFIFO"}
        rb, ib = fifos.get("r_buffer"), fifos.get("id_buffer")
        d1 = d2 = None
        if rb is not None and ib is not None:
            d1 = rb.kwargs.get("depth", rb.args[1] if len(rb.args) > 1 else None)
            d2 = ib.kwargs.get("depth", ib.args[1] if len(ib.args) > 1 else None)
        if isinstance(val, Op) and val.op in ("!=", "<") and len(val.args) == 2:
            regs = [a for a in val.args if isinstance(a, Obj) and a.cls == "Signal" and v.drivers(a) and all(d_.domain.startswith("sync") for d_ in v.drivers(a))]
            if len(regs) == 1 and (val.op == "!=" or val.args[0] is regs[0]):
                LV = key(regs[0])
                BOUND = [a for a in val.args if a is not regs[0]][0]
        if LV is None:
            # a disjunction that contains a proper bound test next to something else is positively weaker than the bound test
            dj = disj(val) if isinstance(val, Op) and val.op in ("|", "or") else []
            proper = [x for x, p_ in dj if p_ and isinstance(x, Op) and x.op in ("!=", "<") and any(key(a) == "buffer_depth" for a in x.args)]
            if proper and len(dj) > 1:
                ob.refute("%s:can_read" % tag, "%s is %s: next to the bound test it has another way to become true, so a command is let through when the reservation (and the "
                          "equally deep ID/last FIFO) is full and an ID/last entry or a data word is lost" % (key(CR), key(val)), pv[0].loc)
            else:
                ob.unknown("%s: the reservation condition %s is not a comparison of a reservation register with a bound" % (tag, key(val)))
            continue
        if ob.need(rb is not None and ib is not None and d1 is not None and d2 is not None, "%s: r_buffer / id_buffer (or their depths) not found" % tag):
            ob.instance("%s depths" % tag, {"reservation bound": key(BOUND), "r_buffer": key(d1), "id_buffer": key(d2)})
            for nm_, d_ in (("read data buffer", d1), ("ID/last FIFO", d2)):
                ge = lin_ge(d_, BOUND)
                if ge is False:
                    ob.refute("%s:depths" % tag, "up to %s reads are reserved but the %s holds only %s entries: a returned word / an ID entry is lost when the reader stalls" %
                              (key(BOUND), nm_, key(d_)), rb.loc)
                elif ge is None:
                    ob.unknown("%s: cannot compare the reservation bound %s with the depth %s of the %s" % (tag, key(BOUND), key(d_), nm_))
        cs = counter_strobes(v, LV)
        if cs.get("inc") != QR or cs.get("dec") != DQR:
            ob.refute("%s:queue-dequeue" % tag, "the read reservation counter %s is incremented under %s and decremented under %s: expected fire(port.cmd)&~we / the buffer pop" %
                      (LV, sorted(cs.get("inc", [])), sorted(cs.get("dec", []))), None)
            continue
        level_counter(v, ob, tag, LV, QR, DQR)
        ip = single(v, "id_buffer.sink.valid")
        io = single(v, "id_buffer.source.ready")
        pk_ = litset(conj(ip)) if ip is not None else set()
        ok_ = litset(conj(io)) if io is not None else set()
        if ip is None or io is None or not {"ar.valid", "ar.ready"} <= pk_ or not {"axi.r.valid", "axi.r.ready"} <= ok_:
            ob.refute("%s:id-fifo" % tag, "read ID/last FIFO is pushed on %s / popped on %s: not on the handshakes fire(ar) / fire(axi.r)" %
                      (key(ip) if ip is not None else None, key(io) if io is not None else None), None)
        elif pk_ != {"ar.valid", "ar.ready"} or ok_ != {"axi.r.valid", "axi.r.ready"}:
            ob.unknown("%s: the ID FIFO is pushed on %s and popped on %s - one entry per burst instead of one per beat? that scheme (LAST regenerated from a length) is not decided" %
                       (tag, sorted(pk_), sorted(ok_)))
            continue
        for f, src in (("axi.r.last", "id_buffer.source.last"), ("axi.r.id", "id_buffer.source.id"), ("id_buffer.sink.last", "ar.last"), ("id_buffer.sink.id", "ar.id")):
            t = single(v, f)
            if t is None or key(t) != src:
                ob.refute("%s:%s" % (tag, f), "%s is %s, expected %s" % (f, key(t) if t is not None else None, src), None)
        c1 = find_connect(v, src="port.rdata", dst="r_buffer.sink")
        c2 = find_connect(v, src="r_buffer.source", dst="axi.r")
        if len(c1) != 1 or (c1[0].stmt.omit and c1[0].stmt.omit & {"valid", "ready", "data"}) or len(c2) != 1 or (c2[0].stmt.omit and c2[0].stmt.omit & {"valid", "ready", "data"}):
            # written field by field (valid / data forward, ready backward, nothing guarded): the same link
            okf = True
            for a_, b_ in (("port.rdata", "r_buffer.sink"), ("r_buffer.source", "axi.r")):
                covered = [c_ for c_ in find_connect(v, src=a_, dst=b_) if not c_.guards]
                for f_, tgt_, want_ in (("valid", b_ + ".valid", a_ + ".valid"), ("data", b_ + ".data", a_ + ".data"), ("ready", a_ + ".ready", b_ + ".ready")):
                    if any(not (c_.stmt.omit and f_ in c_.stmt.omit) and (c_.stmt.keep is None or f_ in c_.stmt.keep) for c_ in covered):
                        continue
                    ds_ = [l for l in v.drivers(tgt_) if l.kind == "assign"]
                    if not (len(ds_) == 1 and not ds_[0].guards and key(ds_[0].value) == want_):
                        okf = False
            if okf:
                ob.instance("%s: read data path written field by field" % tag, True)
                continue
            if any(key(l.value) == "port.rdata.data" for l in v.drivers("r_buffer.sink.data")) and any("r_buffer.source.data" in support(l.value) for l in v.drivers("axi.r.data")):
                ob.unknown("%s: the read data path is written field by field with guarded or several drivers: not the plain link this rule reads" % tag)
                continue
            ob.refute("%s:rdata-path" % tag, "returned data is not forwarded port.rdata -> r_buffer -> axi.r by whole-record connects", None)


def shared_cmd(ctx):
    ob4 = ctx.ob("C09.4", "single driver of the shared native command: the write and read paths drive port.cmd only under cmd_request & cmd_grant with "
                          "grants arbiter.grant == i for distinct i; every read-modify-write state that drives port.cmd asserts rmw_request, and "
                          "rmw_request forces can_write and can_read (hence both cmd_requests) to 0", 5)
    ob5 = ctx.ob("C09.5", "read-modify-write merge is (rdata & ~mask) | (wdata & mask) with mask = each strobe bit replicated over its byte, the RMW "
                          "write uses full strobes", 3)
    ob6 = ctx.ob("C09.6", "every native command address is (axi address - base_address) >> log2(bytes per word)", 4)
    t = elab(ctx, AXI, "LiteDRAMAXI2Native", kwargs={"axi": pobj("axi"), "port": pobj("port"), "w_buffer_depth": Sym("wd"), "r_buffer_depth": Sym("rd"),
                                                     "base_address": Sym("base_address"), "with_read_modify_write": Const(True)},
             overrides={"port.data_width": Const(32), "len(axi.w.strb)": Const(4), "len(w_buffer.sink.strb)": Const(4), "len(write.w_buffer.sink.strb)": Const(4)})
    grants = {}
    for side in ("write", "read"):
        d = t.drivers("%s.cmd_grant" % side)
        if ob4.need(len(d) == 1, "%s.cmd_grant driver not found" % side):
            grants[side] = key(d[0].value)
    ob4.instance("grants", grants)
    gv = list(grants.values())
    if len(gv) == 2 and (gv[0] == gv[1] or any(g in ("1", "True") for g in gv)):
        ob4.refute("grants", "write and read paths are granted by %s: both can hold the shared command channel in the same cycle" % grants, None)
    elif len(set(gv)) != len(gv) or not all(re.fullmatch(r"\((\d+ == )?[\w.]*arbiter\.grant( == \d+)?\)|~?[\w.]*arbiter\.grant", g) for g in gv):
        def n1_(g):        # (X == 1) of a one-bit X is X
            return g[1:-len(" == 1)")] if g.startswith("(") and g.endswith(" == 1)") else g
        gn = [n1_(g) for g in gv]
        if len(gn) == 2 and (gn[0] == "~" + gn[1] or gn[1] == "~" + gn[0]):
            pass          # one signal and its complement
        else:
            ob4.unknown("write and read paths are granted by %s: not two values of one round-robin arbiter's grant; whether they exclude each other is not decided" % grants)
    w = wview(ctx, True)
    r = rview(ctx, True)
    fs = w.fsms("")
    if ob4.need(len(fs) == 1, "RMW FSM not found"):
        f = fs[0]
        for st in f.states:
            ls = w.fsm_leaves(f, st)
            drives = [l for l in ls if l.kind == "assign" and key(l.target).startswith("port.cmd.") and not is0(l.value)]
            req = [l for l in ls if l.kind == "assign" and key(l.target) == "rmw_request" and is1(l.value) and not l.guards]
            if drives:
                ob4.instance("RMW state %s" % st, {"drives": sorted({key(l.target) for l in drives}), "rmw_request": bool(req)})
                if not req:
                    ob4.refute("rmw-state:%s" % st, "RMW state %s drives the shared port.cmd without asserting rmw_request: the regular write/read path can drive "
                               "it in the same cycle and one of the two commands sees a ready that belongs to the other" % st, drives[0].loc)
    def gate_of(v_, chan):
        cq_ = v_.single_comb_def(Sym("cmd_request"))
        r_ = sorted(litset(conj(cq_)) - {chan + ".valid"}) if cq_ is not None else []
        return r_[0] if len(r_) == 1 else "?"
    for v, sig in ((w, gate_of(w, "aw")), (r, gate_of(r, "ar"))):
        if sig == "?":
            ob4.unknown("cmd_request is not <channel>.valid & <one gate>: the gate that rmw_request has to force low is not identified")
            continue
        z = [d for d in v.drivers(sig) if is0(d.value) and "rmw_request" in v.guard_keys(d, False)]
        nz = [d for d in v.drivers(sig) if not is0(d.value)]
        later = z and nz and all(zz.order > n.order for zz in z for n in nz)
        ob4.instance("%s forced low by rmw_request" % sig, [str(d) for d in z])
        if not z or not later:
            ob4.refute("rmw-blocks:%s" % sig, "rmw_request does not force %s to 0 (as the last, winning assignment): regular commands can be issued while a "
                       "read-modify-write sequence owns the port" % sig, (z or nz or [None])[0].loc if (z or nz) else None)
    # C09.5
    merge = [l for l in w.leaves if l.kind == "nextvalue" and key(l.target) == "rmw_data"]
    if ob5.need(len(merge) == 1, "RMW merge assignment not found"):
        val = merge[0].value
        parts = val.args if isinstance(val, Op) and val.op == "|" else ()
        ks = sorted(litset(conj(p)) for p in parts) if parts else []
        ob5.instance("merge", key(val))
        maskform = len(parts) == 2 and all(len(k_) == 2 for k_ in ks)
        if sorted(map(sorted, ks)) != sorted([sorted({"port.rdata.data", "~rmw_mask"}), sorted({"axi.w.data", "rmw_mask"})]) and not maskform:
            ob5.unknown("the RMW merge is %s: not the (old & ~mask) | (new & mask) form this rule reads (e.g. a per-byte selection): polarity and mask are not decided" % key(val)[:160])
            merge = []
        elif sorted(map(sorted, ks)) != sorted([sorted({"port.rdata.data", "~rmw_mask"}), sorted({"axi.w.data", "rmw_mask"})]):
            ob5.refute("merge", "RMW merge is %s, expected (port.rdata.data & ~rmw_mask) | (axi.w.data & rmw_mask): with the polarity swapped the bytes the "
                       "master wrote are replaced by the old memory contents" % key(val), merge[0].loc)
    # the mask, as bit provenance: bit b of the mask comes from strobe bit b // 8 (whether it is assigned byte by byte or as one Cat)
    from ..bits import bitvec, Unresolved as _Unres
    MASKK = None
    if merge:
        for t_ in subterms(merge[0].value):
            if isinstance(t_, Op) and t_.op in ("~", "not") and isinstance(t_.args[0], (Obj, Sym)):
                MASKK = key(t_.args[0])
    prov = {}
    masks = []
    okm = MASKK is not None
    try:
        for l in w.leaves:
            if l.kind != "assign" or l.target is None:
                continue
            if isinstance(l.target, Op) and l.target.op == "slice" and key(l.target.args[0]) == MASKK and isinstance(l.target.args[1], Const) and isinstance(l.target.args[2], Const):
                bv = bitvec(l.value, {}, lambda n_: 4)
                for i_, b_ in enumerate(bv[:l.target.args[2].v - l.target.args[1].v]):
                    prov[l.target.args[1].v + i_] = b_
                masks.append(l)
            elif key(l.target) == MASKK:
                for i_, b_ in enumerate(bitvec(l.value, {}, lambda n_: 4)):
                    prov[i_] = b_
                masks.append(l)
    except _Unres:
        okm = False
    okm = okm and len(prov) == 32 and all(prov.get(i_) == ("axi.w.strb", i_ // 8) for i_ in range(32))
    ob5.instance("mask bytes", [str(l) for l in masks[:2]])
    if not okm and not merge:
        pass        # no verdict above: the mask of another merge form is not looked for
    elif not okm:
        ob5.refute("mask", "the RMW mask %s is not built as strobe bit i replicated over bits [8i, 8i+8): %s" % (MASKK, [str(l) for l in masks][:4]), masks[0].loc if masks else None)
    st = [l for l in w.leaves if l.kind == "assign" and key(l.target) == "w_buffer.sink.strb"]
    ob5.instance("RMW write strobes", [key(l.value) for l in st])
    if not st or any(not (isinstance(l.value, Const) and l.value.v == 15) for l in st):
        ob5.refute("rmw-strobes", "the RMW write does not use full strobes: %s" % [key(l.value) for l in st], st[0].loc if st else None)
    # C09.6
    n = 0
    for v, side, a in ((w, "write", "aw.addr"), (r, "read", "ar.addr")):
        for l in v.leaves:
            if l.kind == "assign" and key(l.target) == "port.cmd.addr":
                n += 1
                val = l.value
                good = isinstance(val, Op) and val.op == ">>" and key(val.args[1]) == "2" and lin_eq(val.args[0], Op("-", (Sym(a), Sym("base_address"))))
                ob6.instance("%s %s" % (side, "state " + str(l.state) if l.fsm is not None else "regular path"), key(val))
                if not good and _preshifted(val, a):
                    ob6.unknown("%s command address is %s: both operands are shifted before the subtraction, which equals (%s - base_address) >> 2 only for a "
                                "word-aligned base_address - not decided here" % (side, key(val), a))
                elif not good:
                    ob6.refute("addr:%s:%s" % (side, l.state), "%s command address is %s, expected (%s - base_address) >> 2 for a 32-bit port" % (side, key(val), a), l.loc)
    if n < 4:
        ob6.unknown("only %d command address sites found" % n)


def res_counter(v, what):
    """The reservation counter: the local register compared with w_buffer.level / buffer_depth in the command gate."""
    cnts = set()
    for l in v.leaves:
        for t_ in ([l.value] if l.value is not None and isinstance(l.value, V) else []) + [c_ for c_, _ in l.guards]:
            for st_ in subterms(t_):
                if isinstance(st_, Op) and st_.op in (">", "<", "!=", "==") and len(st_.args) == 2 and any(key(a_) == what for a_ in st_.args):
                    for a_ in st_.args:
                        if isinstance(a_, Obj) and a_.cls == "Signal" and "." not in str(a_) and v.drivers(a_) and all(d.domain.startswith("sync") for d in v.drivers(a_)):
                            cnts.add(a_)
    return list(cnts)[0] if len(cnts) == 1 else None


def rmw_and_ids(ctx):
    ob7 = ctx.ob("C09.7", "read-modify-write uses the write address beat only when it is valid: every transition out of the RMW idle state into a state "
                          "that drives port.cmd from aw.* is guarded by aw.valid (AXI allows W data before AW)", 1)
    ob8 = ctx.ob("C09.8", "the RMW sequence is granted only when no older data beat is waiting in the write buffer (occupancy of w_buffer itself, not only the "
                          "count of already commanded beats): otherwise aw still points at an older beat and the merge reads the wrong address", 1)
    ob9 = ctx.ob("C09.9", "the B response takes its ID from the ID FIFO only when that FIFO has a valid entry (a command and its last data beat can be "
                          "accepted in the same cycle, when the entry is only being pushed)", 1)
    w = wview(ctx, True)
    fs = w.fsms("")
    if ob7.need(len(fs) == 1, "RMW FSM not found"):
        f = fs[0]
        idle = f.reset_state
        users = {st for st in f.states if any(l.kind == "assign" and key(l.target).startswith("port.cmd.") and "aw." in " ".join(support(l.value)) for l in w.fsm_leaves(f, st))}
        outs = [l for l in w.fsm_leaves(f, idle) if l.kind == "next" and isinstance(l.value, Const) and l.value.v in users]
        if ob7.need(len(outs) >= 1 and len(users) >= 1, "RMW idle exit / address-using states not found"):
            for l in outs:
                g = w.guard_keys(l)
                ob7.instance("RMW %s -> %s" % (idle, l.value.v), sorted(g))
                if "aw.valid" not in g:
                    ob7.refute("rmw-without-aw-valid", "the RMW sequence leaves %s for %s under %s, without aw.valid, and then issues native commands at "
                               "whatever aw.addr holds: with W data arriving before AW (legal AXI) memory is read and written at a wrong address" %
                               (idle, l.value.v, sorted(g)), l.loc)
    # C09.8 on the transition itself (no signal name): the read-modify-write may start only when the write path is drained -
    # (a) every commanded beat has left the buffer (the write reservation counter is 0 and no command is being queued), else the RMW read
    #     overtakes older write data still sitting in the buffer and merges stale bytes;
    # (b) the write buffer itself is empty (known finding F12).
    if len(fs) == 1 and outs:
        cnt = res_counter(w, "w_buffer.level")
        if ob8.need(cnt is not None, "write reservation counter not identified"):
            zero = {"~" + key(cnt), key(Op("==", (cnt, Const(0)))), key(Op("==", (Const(0), cnt)))}
            for l in outs:
                g = w.guard_keys(l)
                ob8.instance("RMW %s -> %s (write-drain conditions)" % (idle, l.value.v), sorted(g))
                if not (g & zero):
                    ob8.refute("rmw-without-write-drain", "the RMW sequence leaves %s for %s under %s, which does not require the write reservation counter %s to be 0: "
                               "the RMW read is issued while older write data (already commanded) is still in the write buffer, so the merge uses stale bytes and a "
                               "back-to-back partial write to the same word loses the earlier bytes" % (idle, l.value.v, sorted(g), key(cnt)), l.loc)
                    continue
                if not any(k_.startswith("~(") and "port.cmd.ready" in k_ and "port.cmd.we" in k_ for k_ in g) and not any("port.cmd.ready" in k_ for k_ in g):
                    ob8.refute("rmw-while-queueing", "the RMW sequence leaves %s under %s, which ignores a write command being accepted in this very cycle (its reservation is "
                               "only counted one cycle later)" % (idle, sorted(g)), l.loc)
                if not (g & {"~w_buffer.level", "~w_buffer.source.valid", key(Op("==", (Sym("w_buffer.level"), Const(0))))}):
                    ob8.refute("rmw-grant-ignores-buffered-beats", "the RMW sequence is started under %s: it only looks at the reservation counter (beats already commanded), not at the "
                               "write buffer's occupancy, so a partial-strobe beat behind still-uncommanded full beats starts the RMW while aw points at an older "
                               "beat: the read-modify-write merges the bytes of the wrong address" % sorted(g), None)
        # the read side: the grant the read half hands out requires ITS reservation counter to be 0, and the top level wires it to the write half
        rv = rview(ctx, True)
        rcnt = res_counter(rv, "buffer_depth")
        tops = [k_ for k_ in ("rmw_rgrant",) if rv.drivers(k_)]
        grants = [(k_, d_) for k_, ds_ in rv.defs.items() for d_ in ds_ if "." not in k_ and d_.kind == "assign" and d_.domain == "comb" and not d_.guards and rcnt is not None
                  and isinstance(d_.value, V) and (litset(conj(d_.value)) & {"~" + key(rcnt), key(Op("==", (rcnt, Const(0))))})]
        ob8.instance("read-side grant", [str(d_) for _, d_ in grants])
        if ob8.need(rcnt is not None, "read reservation counter not identified"):
            gnames = {k_ for k_, _ in grants}
            wired = [l for l in elab(ctx, AXI, "LiteDRAMAXI2Native", kwargs={"axi": pobj("axi"), "port": pobj("port"), "with_read_modify_write": Const(True)}).leaves
                     if l.kind == "assign" and l.inst == "" and isinstance(l.value, (Obj, Sym)) and str(l.value).split(".")[-1] in gnames and str(l.value).startswith("read.")]
            ob8.instance("grant wiring", [str(l) for l in wired])
            opaque = set()
            for l in outs:
                for a_, p_ in w.guard_lits(l):
                    if p_ and isinstance(a_, Obj) and a_.cls == "Signal" and not w.drivers(a_):
                        opaque.add(str(a_))
            if not grants or not any(str(l.target).startswith("write.") and str(l.target).split(".")[-1] in opaque for l in wired):
                ob8.refute("rmw-without-read-drain", "no grant requiring the read reservation counter %s == 0 reaches the RMW start condition (read-side grants %s, wired %s, undriven inputs in "
                           "the start guard %s): the RMW read data would be mixed with data of older reads still in flight" %
                           (key(rcnt), sorted(gnames), [str(l) for l in wired], sorted(opaque)), outs[0].loc)
    v = wview(ctx, False)
    rp = [d for d in v.drivers("resp_buffer.sink.valid") if is1(d.value)]
    if ob9.need(len(rp) == 1, "B response push not found"):
        g = v.guard_keys(rp[0], False)
        ob9.instance("B response push", sorted(g))
        idf = [o for o in v.d.objs if o.cls == "SyncFIFO" and str(o) == "id_buffer"]
        bufd = idf[0].kwargs.get("buffered", idf[0].args[2] if idf and len(idf[0].args) > 2 else None) if idf else None
        ob9.instance("write ID FIFO", {"buffered": key(bufd) if bufd is not None else "False (default)"})
        if "id_buffer.source.valid" not in g and bufd is not None and not is0(bufd) and not (isinstance(bufd, Const) and bufd.v is False):
            ob9.refute("bid-fifo-buffered", "the write ID FIFO is built with buffered=%s while the B response is pushed without id_buffer.source.valid: a buffered FIFO shows an entry "
                       "only two cycles after the push, so a burst whose last beat is handed over one cycle after its command already gets a stale ID (and every later response "
                       "is shifted by one)" % key(bufd), idf[0].loc)
        if "id_buffer.source.valid" not in g:
            ob9.refute("bid-without-valid-id", "the B response is pushed under %s with resp.id = id_buffer.source.id, without id_buffer.source.valid: when the "
                       "native port accepts a single-beat write's command and data in the same cycle the ID entry is only being pushed, so the response "
                       "carries a stale ID and all later IDs are shifted by one" % sorted(g), rp[0].loc)


def capacity_and_forks(ctx):
    ob10 = ctx.ob("C09.10", "the reservation counters can hold every value from 0 to buffer_depth (declared range > buffer_depth): a counter that wraps at a power-of-two "
                            "depth under-counts the beats owed to accepted commands", 2)
    ob11 = ctx.ob("C09.11", "two-handshake states (command and data issued independently) leave only when BOTH are done: the exit is the AND over the two channels of "
                            "(handshake fires now | its own done flag), each done flag being set by that same handshake", 1)
    for v, nm, what in ((wview(ctx, False), "write", "w_buffer.level"), (rview(ctx, False), "read", "buffer_depth")):
        c_ = res_counter(v, what)
        if not ob10.need(c_ is not None, "%s path: reservation counter not identified" % nm):
            continue
        mx = c_.kwargs.get("max")
        ob10.instance("%s reservation counter %s" % (nm, c_), {"max": key(mx) if mx is not None else None, "bits": key(c_.args[0]) if c_.args else None})
        # the largest value the counter has to hold: the read path reserves up to buffer_depth; the write path reserves every buffered beat, and a BUFFERED
        # SyncFIFO holds depth + 1 words (storage plus output register), so its level - and with it the reservation - reaches buffer_depth + 1
        top = Sym("buffer_depth")
        if nm == "write":
            wb = [o for o in v.d.objs if o.cls == "SyncFIFO" and str(o) == "w_buffer"]
            bufd = wb[0].kwargs.get("buffered") if wb else None
            if wb and bufd is not None and not is0(bufd) and not (isinstance(bufd, Const) and bufd.v is False):
                top = Op("+", (Sym("buffer_depth"), Const(1)))
            ob10.instance("write buffer capacity", {"buffered": key(bufd) if bufd is not None else None, "largest reservation": key(top)})
        if mx is not None:
            if lin_ge(mx, Op("+", (top, Const(1)))) is not True:
                ob10.refute("counter-range:%s" % nm, "the %s reservation counter %s is declared with max=%s, so it cannot hold the value %s it has to count up to (max must be "
                            "larger): for depths where that value is a power of two it wraps to 0 while beats are still owed to accepted commands" %
                            (nm, c_, key(mx), key(top)), c_.loc)
        elif not c_.args:
            ob10.unknown("%s reservation counter %s has neither max nor an explicit width" % (nm, c_))
    # C09.12: the B response of a completed burst must not be dropped when the response FIFO is full (the master may hold BREADY low for as long as it likes)
    ob12 = ctx.ob("C09.12", "a completed write burst's response is not lost when the master stalls the B channel: the push into the response FIFO either observes that FIFO's "
                            "ready, or the write path is held back (last data beat / command issue) while the response FIFO is full", 1)
    v0 = wview(ctx, False)
    push = [d for d in v0.drivers("resp_buffer.sink.valid") if not is0(d.value)]
    if ob12.need(len(push) >= 1, "B response push not found"):
        RDY = "resp_buffer.sink.ready"
        def mentions(t_):
            return RDY in support(expand_term(v0, t_))
        gated_push = all(any(mentions(c_) for c_, _ in d.guards) or (isinstance(d.value, V) and mentions(d.value)) for d in push)
        pop = v0.single_comb_def(Sym("w_buffer.source.ready"))
        gated_pop = pop is not None and mentions(pop)
        cmdv = [d for d in v0.drivers("port.cmd.valid") if d.fsm is None and not is0(d.value)]
        gated_cmd = bool(cmdv) and all(any(mentions(c_) for c_, _ in d.guards) or (isinstance(d.value, V) and mentions(d.value)) for d in cmdv)
        ob12.instance("B response back-pressure", {"push observes ready": gated_push, "data pop held back": gated_pop, "command issue held back": gated_cmd,
                                                  "push": [str(d)[:120] for d in push]})
        if not (gated_push or gated_pop or gated_cmd):
            ob12.refute("b-response-dropped", "the B response is pushed into resp_buffer (and the ID popped) under %s without looking at resp_buffer.sink.ready, and neither the pop of "
                        "the write data nor the issue of write commands depends on it: once buffer_depth responses wait for BREADY every further completed burst loses its "
                        "response" % sorted(v0.guard_keys(push[0], False)), push[0].loc)
    # every burst whose ID sits in the ID FIFO owes a response: the response FIFO holds at least as many entries as the ID FIFO
    fifo_ = {str(o): o for o in v0.d.objs if o.cls == "SyncFIFO" and str(o) in ("resp_buffer", "id_buffer")}
    if len(fifo_) == 2:
        dep_ = {n_: (o.args[1] if len(o.args) > 1 else o.kwargs.get("depth")) for n_, o in fifo_.items()}
        if all(d_ is not None for d_ in dep_.values()):
            from ..bits import ieval
            par_ = sorted(support(dep_["id_buffer"]) | support(dep_["resp_buffer"]))
            wit_ = None
            try:
                if len(par_) == 1:
                    for n_ in (1, 2, 3, 4, 5, 8, 16, 32):
                        a_, b_ = ieval(dep_["resp_buffer"], {par_[0]: n_}), ieval(dep_["id_buffer"], {par_[0]: n_})
                        if a_ < b_:
                            wit_ = (n_, a_, b_)
                            break
            except Exception:
                wit_ = None
            ob12.instance("response FIFO depth vs ID FIFO depth", {"resp_buffer": key(dep_["resp_buffer"]), "id_buffer": key(dep_["id_buffer"]), "witness": wit_})
            if wit_:
                ob12.refute("resp-fifo-shallow", "resp_buffer holds %s entries, id_buffer %s: for %s = %d only %d responses can wait for BREADY while %d bursts can be complete - "
                            "the others lose their response" % (key(dep_["resp_buffer"]), key(dep_["id_buffer"]), par_[0], wit_[0], wit_[1], wit_[2]), fifo_["resp_buffer"].loc)
    w = wview(ctx, True)
    fs = w.fsms("")
    if not ob11.need(len(fs) == 1, "RMW FSM not found"):
        return
    f = fs[0]
    for st in f.states:
        ls = w.fsm_leaves(f, st)
        flags = {}
        for l in ls:
            if l.kind == "nextvalue" and is1(l.value) and isinstance(l.target, (Obj, Sym)):
                rd = {k_ for k_ in w.guard_keys(l, False) if k_.endswith(".ready")}
                if len(rd) == 1:
                    flags[key(l.target)] = list(rd)[0]
        if len(flags) < 2:
            continue
        for e in [l for l in ls if l.kind == "next"]:
            pairs = []
            okk = True
            for a_, p_ in w.guard_lits(e, False):
                dj = as_disj(a_, p_)
                if dj is None or len(dj) != 2:
                    continue
                ks = {lkey(x) for x in dj}
                fl = [k_ for k_ in ks if k_ in flags]
                rd = [k_ for k_ in ks if k_.endswith(".ready")]
                if len(fl) == 1 and len(rd) == 1:
                    pairs.append((rd[0], fl[0]))
                    if flags[fl[0]] != rd[0]:
                        okk = False
            ob11.instance("state %s exit" % st, {"flags set by": flags, "exit pairs": pairs})
            if pairs and (not okk or len(pairs) != len(flags)):
                ob11.refute("exit-pairing:%s" % st, "state %s is left under %s but its done flags are set by %s: a flag is paired with the other channel's ready, so the state is "
                            "left while one of the two transfers has not happened (the command is never issued / the data never pushed)" % (st, pairs, flags), e.loc)


def run(ctx):
    rmw_and_ids(ctx)
    capacity_and_forks(ctx)
    write_path(ctx)
    read_path(ctx)
    shared_cmd(ctx)
    ctx.assume("burst address sequences come from LiteX AXIBurst2Beat (outside the repository); buffer_depth >= 2 (a depth-1 SyncFIFO has a constant-0 level); "
               "data values and stall interleavings are not decided")
